"""Interpreter of the line protocol on the REAL job_shop_lib objects.

`Impl.exec(line)` executes one command in-process on the current working tree of /repo and returns
the canonical reply line, the same text the Lean driver prints for the model.  Canonicalisation:
operations are printed as operation ids, Python sets are sorted, errors are `raise`.
"""
from __future__ import annotations

import copy

import jsl
from jsl import (
    Dispatcher,
    JobShopInstance,
    Operation,
)

FILTERS = {
    "dom": jsl.filter_dominated_operations,
    "nim": jsl.filter_non_immediate_machines,
    "nidle": jsl.filter_non_idle_machines,
    "nio": jsl.filter_non_immediate_operations,
}
FILTER_ENUM = {
    "dom": jsl.ReadyOperationsFilterType.DOMINATED_OPERATIONS,
    "nim": jsl.ReadyOperationsFilterType.NON_IMMEDIATE_MACHINES,
    "nidle": jsl.ReadyOperationsFilterType.NON_IDLE_MACHINES,
    "nio": jsl.ReadyOperationsFilterType.NON_IMMEDIATE_OPERATIONS,
}


def lst(items) -> str:
    items = [str(x) for x in items]
    return "[]" if not items else "[ " + " ".join(items) + " ]"


def fmt_bool(b) -> str:
    return "true" if b else "false"


def parse_instance(tokens: list[str]) -> list[list[tuple[list[int], int]]]:
    xs = [int(t) for t in tokens]
    n = xs[0]
    i = 1
    jobs = []
    for _ in range(n):
        n_ops = xs[i]
        i += 1
        job = []
        for _ in range(n_ops):
            k = xs[i]
            ms = xs[i + 1:i + 1 + k]
            d = xs[i + 1 + k]
            i += k + 2
            job.append((ms, d))
        jobs.append(job)
    assert i == len(xs)
    return jobs


def instance_line(jobs) -> str:
    """jobs: list of lists of (machines, duration)."""
    out = ["inst", str(len(jobs))]
    for job in jobs:
        out.append(str(len(job)))
        for ms, d in job:
            out.append(str(len(ms)))
            out.extend(str(m) for m in ms)
            out.append(str(d))
    return " ".join(out)


REUSE_OPERATIONS = False
PRELABELLED = False    # set per scenario by framework.run_impl: the instance is rebuilt from already labelled operations, set_operation_attributes=False
OP_SUBCLASS = False    # set per scenario by framework.run_impl: operations are instances of a user subclass with extra attributes
SIBLING = False     # set per scenario by framework.run_impl: a busy sibling dispatcher on another instance in the same process


class UserOperation(Operation):
    """What a user's own Operation subclass looks like: extra data the library knows nothing about (and must ignore)."""
    __slots__ = ("release_date", "due_date", "weight", "setup_time", "priority", "start_time", "end_time")

    def __init__(self, machines, duration, k):
        super().__init__(machines, duration)
        self.release_date = 1000 + 37 * k
        self.due_date = 5 + k
        self.weight = 3 + (k % 4)
        self.setup_time = 11 + k
        self.priority = 100 - k
        self.start_time = 999 + k
        self.end_time = 1 + k


def build_instance(jobs, name="verif") -> JobShopInstance:
    if OP_SUBCLASS:
        k = iter(range(10 ** 6))
        ops = [[UserOperation(list(ms) if len(ms) != 1 else ms[0], d, next(k)) for ms, d in job] for job in jobs]
    else:
        ops = [[Operation(list(ms) if len(ms) != 1 else ms[0], d) for ms, d in job] for job in jobs]
    if REUSE_OPERATIONS and sum(len(j) for j in ops) >= 3:
        # the Operation objects were used before, in another instance with a different job structure (same first and last
        # operation, the inner ones regrouped): the new instance labels them afresh
        flat = [o for j in ops for o in j]
        mid = flat[1:-1]
        rotated = [flat[0]] + mid[1:] + mid[:1] + [flat[-1]]
        earlier, at = [], 0
        for j in ops:                      # same job lengths, the inner operations in other places
            earlier.append(rotated[at:at + len(j)])
            at += len(j)
        JobShopInstance(earlier, name="earlier")
        if len(ops) >= 2:                  # and once more with another number of jobs
            JobShopInstance([flat[:1], flat[1:]], name="earlier2")
            JobShopInstance(earlier, name="earlier")
    if PRELABELLED:
        base = JobShopInstance(ops, name="base")
        return JobShopInstance(base.jobs, name=name, set_operation_attributes=False)
    return JobShopInstance(ops, name=name)


def fmt_sop(x) -> str:
    return f"{x.operation.operation_id}:{x.start_time}:{x.machine_id}:{x.operation.duration}"


class Impl:
    """State of one scenario on the real code."""

    def __init__(self, filter_style: str = "callable"):
        self.jobs = None
        self.instance: JobShopInstance | None = None
        self.dispatcher: Dispatcher | None = None
        self.filter_tokens: list[str] | None = None
        self.filter_style = filter_style  # how composite filters are built: callable | enum | str
        self.ops: list[Operation] = []
        self.extra = {}  # used by property-specific extensions

    # ------------------------------------------------------------------ helpers
    def _make_filter(self):
        if self.filter_tokens is None:
            return None
        if self.filter_style == "callable":
            parts = [FILTERS[t] for t in self.filter_tokens]
        elif self.filter_style == "enum":
            parts = [FILTER_ENUM[t] for t in self.filter_tokens]
        elif self.filter_style == "lazy":
            # a one-shot iterable (the parameter is an Iterable): the composite must not depend on re-reading it
            tokens = list(self.filter_tokens)
            return jsl.create_composite_operation_filter(FILTER_ENUM[t] for t in tokens)
        else:
            parts = [FILTER_ENUM[t].value for t in self.filter_tokens]
        if len(parts) == 1 and self.filter_style != "callable":
            return jsl.ready_operations_filter_factory(parts[0])
        return jsl.create_composite_operation_filter(parts)

    def _new_dispatcher(self):
        self.dispatcher = Dispatcher(self.instance, ready_operations_filter=self._make_filter())

    def op(self, op_id: int) -> Operation:
        return self.ops[op_id]

    def find_sop(self, op_id: int):
        for ms in self.dispatcher.schedule.schedule:
            for x in ms:
                if x.operation.operation_id == op_id:
                    return x
        return None

    def snapshot(self) -> str:
        d = self.dispatcher
        sch = " | ".join(" ".join(fmt_sop(x) for x in ms) for ms in d.schedule.schedule)
        return (
            f"sched {sch} ; mn {' '.join(map(str, d.machine_next_available_time))} ; "
            f"ji {' '.join(map(str, d.job_next_operation_index))} ; "
            f"jn {' '.join(map(str, d.job_next_available_time))}"
        )

    # ------------------------------------------------------------------ the sibling (see framework.run_impl)
    def _make_sibling(self):
        """Another instance of the same shape (same operation ids, other machines, other durations) with its own dispatcher
        (same filter configuration) and a few observers of its own."""
        self.sibling = None
        if not SIBLING or self.jobs is None or any(d >= 2 ** 24 for job in self.jobs for _, d in job):
            return
        M = 1 + max(m for job in self.jobs for ms, _ in job for m in ms)
        sj = [[([(m + 1) % M for m in ms], d + 1 + (j + p) % 3) for p, (ms, d) in enumerate(job)] for j, job in enumerate(self.jobs)]
        try:
            inst = JobShopInstance([[Operation(list(ms), d) for ms, d in job] for job in sj], name="sibling")
            d = Dispatcher(inst, ready_operations_filter=self._make_filter())
            from job_shop_lib.dispatching.feature_observers import IsReadyObserver, EarliestStartTimeObserver
            IsReadyObserver(d)
            EarliestStartTimeObserver(d)
            jsl.HistoryObserver(d)
            self.sibling = d
            self._sib_turn = 0
        except Exception as e:  # pylint: disable=broad-except
            self.sibling_error = repr(e)

    def _sibling_turn(self):
        d = getattr(self, "sibling", None)
        if d is None:
            return
        self._sib_turn += 1
        try:
            if self._sib_turn % 3 == 0:
                d.current_time()
                d.ongoing_operations()
                for op in d.unscheduled_operations()[:3]:
                    d.earliest_start_time(op)
            elif d.schedule.is_complete():
                d.reset()
            else:
                ops = d.available_operations()
                op = ops[self._sib_turn % len(ops)]
                d.dispatch(op, op.machines[self._sib_turn % len(op.machines)])
        except Exception as e:  # pylint: disable=broad-except
            self.sibling_error = repr(e)

    # ------------------------------------------------------------------ commands
    def exec(self, line: str) -> str:
        ts = line.split()
        if not ts:
            return ""
        cmd = ts[0]
        if cmd not in ("new", "inst", "filter", "mark"):
            self._sibling_turn()
        if getattr(self, "sibling_error", None):
            err, self.sibling_error = self.sibling_error, None
            return f"sibling-error {err}"
        try:
            handler = getattr(self, "cmd_" + cmd)
        except AttributeError:
            return "bad-op"
        return handler(ts[1:])

    def cmd_mark(self, ts):
        return "ok"

    def cmd_new(self, ts):
        self.__init__(self.filter_style)
        return "ok"

    def cmd_inst(self, ts):
        self.jobs = parse_instance(ts)
        self.instance = build_instance(self.jobs)
        self.ops = [op for job in self.instance.jobs for op in job]
        self._new_dispatcher()
        self._make_sibling()
        valid = all(
            len(ms) > 0 and len(set(ms)) == len(ms) and d >= 0 for job in self.jobs for ms, d in job
        )
        return f"ok {self.instance.num_operations} {self.instance.num_machines} {fmt_bool(valid)}"

    def cmd_redisp(self, ts):
        """A new Dispatcher on the SAME instance object (the old dispatcher and its observers are dropped)."""
        self._new_dispatcher()
        if hasattr(self, "heap"):
            self.heap, self.kinds, self.trace = [], [], []
            self.sub_state = []
            self.sub_order = []
        return "ok"

    def cmd_filter(self, ts):
        if ts == ["none"]:
            self.filter_tokens = None
        else:
            assert ts[0] == "comp"
            self.filter_tokens = ts[1:]
        if getattr(self, "sibling", None) is not None:
            self.sibling.ready_operations_filter = self._make_filter()
            self.sibling._cache = {}  # pylint: disable=protected-access
        if self.dispatcher is not None:
            self.dispatcher.ready_operations_filter = self._make_filter()
            # a new filter on a live dispatcher: the memo must not survive
            self.dispatcher._cache = {}  # pylint: disable=protected-access
        return "ok"

    def cmd_refilt(self, ts):
        """The caller assigns another filter to the live dispatcher and touches nothing else (only generated where nothing has been
        read since the last accepted dispatch: the dispatcher has no per-state memo to go stale)."""
        if ts == ["none"]:
            self.filter_tokens = None
        else:
            assert ts[0] == "comp"
            self.filter_tokens = ts[1:]
        self.dispatcher.ready_operations_filter = self._make_filter()
        if getattr(self, "sibling", None) is not None:
            self.sibling.ready_operations_filter = self._make_filter()
        return "ok"

    def cmd_disp(self, ts):
        j, p = int(ts[0]), int(ts[1])
        m = None if ts[2] == "none" else int(ts[2])
        op = self.instance.jobs[j][p]
        try:
            self.dispatcher.dispatch(op, m)
        except Exception:  # pylint: disable=broad-except
            return "raise"
        x = self.find_sop(op.operation_id)
        return f"ok {x.start_time}"

    def cmd_sstep(self, ts):
        """The same request, made through `DispatchingRuleSolver.step`: a user-defined rule names the operation (ready or not - a rule
        replaying a fixed priority list), a user-defined machine chooser names the machine."""
        from job_shop_lib.dispatching.rules import DispatchingRuleSolver
        j, p = int(ts[0]), int(ts[1])
        op = self.instance.jobs[j][p]
        m = op.machines[0] if ts[2] == "none" else int(ts[2])
        if ts[2] == "none" and len(op.machines) > 1:
            return self.cmd_disp(ts)        # (no machine named for a flexible operation: a request only `dispatch` can express)
        solver = DispatchingRuleSolver(dispatching_rule=lambda _d: op, machine_chooser=lambda _d, _o: m)
        try:
            solver.step(self.dispatcher)
        except Exception:  # pylint: disable=broad-except
            return "raise"
        x = self.find_sop(op.operation_id)
        return f"ok {x.start_time}"

    def cmd_reset(self, ts):
        self.dispatcher.reset()
        return "ok"

    def cmd_peek(self, ts):
        """A look-ahead: the request is tried on a copy of the dispatcher (deep copy, or a pickle round trip - as a lookahead rule, a
        rollout or a checkpoint would); the copy must be a faithful dispatcher of its own and the original must not notice."""
        import pickle
        import oracles
        j, p = int(ts[0]), int(ts[1])
        m = None if ts[2] == "none" else int(ts[2])
        self._peeks = getattr(self, "_peeks", 0) + 1
        twin = None
        if self._peeks % 3 == 0:
            try:
                twin = pickle.loads(pickle.dumps(self.dispatcher))
            except Exception:  # pylint: disable=broad-except
                twin = None         # (composite filters are closures, user observers may be local classes: not picklable - no claim made)
        if twin is None:
            try:
                twin = copy.deepcopy(self.dispatcher)
            except Exception as e:  # pylint: disable=broad-except
                return f"copy-raised {type(e).__name__}"
        # the copy's bookkeeping is what ITS schedule implies
        t = oracles.derive_tracking(twin.instance, twin.schedule.schedule)
        if list(twin.machine_next_available_time) != t["mach_next"] or list(twin.job_next_operation_index) != t["job_idx"] or \
                list(twin.job_next_available_time) != t["job_next"]:
            return (f"copy-inconsistent tracking machine {list(twin.machine_next_available_time)} job-index "
                    f"{list(twin.job_next_operation_index)} job {list(twin.job_next_available_time)} but its schedule implies "
                    f"{t['mach_next']} {t['job_idx']} {t['job_next']}")
        if j >= len(twin.instance.jobs) or p >= len(twin.instance.jobs[j]):
            return "raise"              # no such operation: nothing to try
        # the request names the operation either by the copy's own object or by the ORIGINAL's (equal, distinct) object
        op = twin.instance.jobs[j][p] if self._peeks % 2 else self.instance.jobs[j][p]
        try:
            twin.dispatch(op, m)
        except Exception:  # pylint: disable=broad-except
            return "raise"
        # the copy goes on being queried (its answers are its own), then the original is used again
        v = oracles.View(twin.instance, twin.schedule.schedule)
        ft = self.filter_tokens
        ids_ = lambda ops: sorted(o.operation_id for o in ops)  # noqa: E731
        for name, got, want in (("current_time()", twin.current_time(), v.now(ft)),
                                ("completed_operations()", ids_(twin.completed_operations()),
                                 sorted(set(v.sop) - {x.operation.operation_id for x in v.ongoing(ft)})),
                                ("unscheduled_operations()", ids_(twin.unscheduled_operations()), ids_(v.unscheduled())),
                                ("available_operations()", ids_(twin.available_operations()), ids_(v.available(ft)))):
            if got != want:
                return f"copy-inconsistent {name} = {got} but the copy's schedule implies {want}"
        for ms in twin.schedule.schedule:
            for x in ms:
                if x.operation.operation_id == op.operation_id:
                    return f"ok {x.start_time}"
        return "ok ?"

    def cmd_badseq(self, ts):
        """Elsewhere in the process a schedule is rebuilt from job sequences that admit none (a job appears twice on a machine, a job
        is missing, a cyclic order): a validation error - and nothing else."""
        inst = self.instance
        if inst.is_flexible or inst.num_operations == 0:
            return "raise"
        by_machine = [[op.job_id for op in ops] for ops in inst.operations_by_machine]
        self._badseq = getattr(self, "_badseq", 0) + 1
        bad = [list(reversed(row)) for row in by_machine]            # the reverse of a valid order is cyclic unless trivial
        if self._badseq % 2 and any(len(r) for r in bad):
            k = next(i for i, r in enumerate(bad) if r)
            bad[k] = bad[k] + bad[k][:1]                               # a job twice on one machine
        elif all(len(job) <= 1 for job in inst.jobs):
            bad = [row[:-1] for row in by_machine]                     # nothing cyclic possible: a job is missing instead
        try:
            jsl.Schedule.from_job_sequences(inst, bad)
        except Exception:  # pylint: disable=broad-except
            return "raise"
        return "raise"      # (an order that happens to admit a schedule after all: no claim either way)

    def cmd_draw(self, ts):
        """The caller looks at the schedule being built: a Gantt chart of the dispatcher's LIVE schedule is drawn (and thrown away).
        Looking changes nothing."""
        import warnings
        import matplotlib
        matplotlib.use("Agg")
        import matplotlib.pyplot as plt
        from job_shop_lib.visualization import plot_gantt_chart
        with warnings.catch_warnings():
            warnings.simplefilter("ignore")
            try:
                fig, _ax = plot_gantt_chart(self.dispatcher.schedule)
                plt.close(fig)
            except Exception as e:  # pylint: disable=broad-except
                return f"draw-raised {type(e).__name__}"
        return "ok"

    def cmd_reseat(self, ts):
        """The caller re-assigns the machine sequences of the live schedule through the public `schedule` setter (equal content, new
        lists): the dispatcher goes on with the schedule it shows."""
        sch = self.dispatcher.schedule
        sch.schedule = [list(ms) for ms in sch.schedule]
        return "ok"

    def cmd_stamp(self, ts):
        """The caller annotates the dispatcher's schedule: `Schedule.metadata` is the user's dictionary (the library's solvers put
        their makespan, status and time there).  Whatever it says, it is a note - not a source of truth for anybody."""
        sch = self.dispatcher.schedule
        sch.metadata.update({"makespan": sch.makespan(), "status": "optimal", "elapsed_time": 0.25, "solved_by": "verif",
                             "num_scheduled": sum(len(ms) for ms in sch.schedule), "is_complete": sch.is_complete(),
                             "current_time": self.dispatcher.current_time()})
        return "ok"

    def cmd_xform(self, ts):
        """Instance transformations (they return NEW instances) are applied to the instance under test; results are dropped."""
        from job_shop_lib.generation import _transformations as T
        import random as _random
        inst = self.instance
        state = _random.getstate()          # the transformations draw from the global generator: put it back afterwards
        steps = []
        if inst.num_jobs >= 2:
            steps += [lambda: T.RemoveJobs(1, max(1, inst.num_jobs - 1))(inst), lambda: T.RemoveJobs.remove_job(inst, 0),
                      lambda: T.RemoveJobs(1, 1, target_jobs=inst.num_jobs - 1)(inst)]
        steps += [lambda: T.AddDurationNoise(min_duration=1, max_duration=10, noise_level=2)(inst), lambda: T.RemoveMachines(1)(inst)]
        name = inst.name
        for step in steps:
            try:
                step()
            except Exception:  # pylint: disable=broad-except
                pass                        # (some transformations do not accept flexible instances: their business)
        _random.setstate(state)
        inst.name = name                    # `Transformation.__call__` renames what `apply` returned - never the original
        return "ok"

    def cmd_snap(self, ts):
        return self.snapshot()

    def cmd_ready(self, ts):
        return fmt_bool(bool(self.dispatcher.is_operation_ready(self.op(int(ts[0])))))

    def cmd_flt(self, ts):
        k = ts.index(";")
        fs, ids = ts[:k], [int(t) for t in ts[k + 1:]]
        ops = [self.op(i) for i in ids]
        if self.filter_style == "callable":
            f = jsl.create_composite_operation_filter([FILTERS[t] for t in fs])
        elif self.filter_style == "enum":
            f = jsl.create_composite_operation_filter([FILTER_ENUM[t] for t in fs])
        elif self.filter_style == "lazy":
            f = jsl.create_composite_operation_filter(map(FILTER_ENUM.get, list(fs)))
            f(self.dispatcher, list(ops))          # a first call; the answer below comes from the second
        else:
            f = jsl.create_composite_operation_filter([FILTER_ENUM[t].value for t in fs])
        arg = list(ops)
        res = f(self.dispatcher, arg)
        return lst(o.operation_id for o in res)

    def cmd_q(self, ts):
        d = self.dispatcher
        name, args = ts[0], ts[1:]
        ids = lambda ops: lst(o.operation_id for o in ops)  # noqa: E731
        try:
            if name == "current_time":
                return str(d.current_time())
            if name == "available":
                return ids(copy.copy(d.available_operations()))
            if name == "raw_ready":
                return ids(copy.copy(d.raw_ready_operations()))
            if name == "unscheduled":
                return ids(copy.copy(d.unscheduled_operations()))
            if name == "scheduled":
                return ids(copy.copy(d.scheduled_operations()))
            if name == "uncompleted":
                return ids(copy.copy(d.uncompleted_operations()))
            if name == "completed":
                return lst(sorted(o.operation_id for o in d.completed_operations()))
            if name == "available_machines":
                return lst(sorted(d.available_machines()))
            if name == "available_jobs":
                return lst(sorted(d.available_jobs()))
            if name == "ongoing":
                return lst(fmt_sop(x) for x in d.ongoing_operations())
            if name == "makespan":
                return str(d.schedule.makespan())
            if name == "is_complete":
                return fmt_bool(d.schedule.is_complete())
            if name == "num_scheduled":
                return str(d.schedule.num_scheduled_operations)
            if name == "is_scheduled":
                return fmt_bool(d.is_scheduled(self.op(int(args[0]))))
            if name == "next_operation":
                try:
                    return str(d.next_operation(int(args[0])).operation_id)
                except Exception:  # pylint: disable=broad-except
                    return "raise"
            if name == "earliest_start":
                return str(d.earliest_start_time(self.op(int(args[0]))))
            if name == "start_time":
                return str(d.start_time(self.op(int(args[0])), int(args[1])))
            if name == "min_start":
                return str(d.min_start_time([self.op(int(a)) for a in args]))
            if name == "is_ongoing":
                x = self.find_sop(int(args[0]))
                if x is None:
                    return "bad-op"
                return fmt_bool(d.is_ongoing(x))
            if name == "remaining_duration":
                x = self.find_sop(int(args[0]))
                if x is None:
                    return "bad-op"
                return str(d.remaining_duration(x))
        except Exception as e:  # pylint: disable=broad-except
            return f"raise-in-query {type(e).__name__}"
        return "bad-op"

"""Independent Python oracles: the properties re-stated directly on the real objects' observable
state (schedule lists, instance), never through the code under test's own bookkeeping.
They are deliberately no stricter than the property text.
"""
from __future__ import annotations


def sched_lists(dispatcher):
    return dispatcher.schedule.schedule


def flat(dispatcher):
    return [x for ms in dispatcher.schedule.schedule for x in ms]


def feasible(instance, schedule_lists) -> list[str]:
    """C01's `Feasible`: returns a list of human-readable violations (empty = feasible)."""
    errs = []
    seen = {}
    for m, ms in enumerate(schedule_lists):
        prev = None
        for x in ms:
            op = x.operation
            oid = op.operation_id
            if oid in seen:
                errs.append(f"operation {oid} scheduled twice")
            seen[oid] = x
            if x.machine_id != m:
                errs.append(f"operation {oid} listed under machine {m} but assigned to {x.machine_id}")
            if x.machine_id not in op.machines:
                errs.append(f"operation {oid} on ineligible machine {x.machine_id} (eligible {op.machines})")
            if x.start_time < 0:
                errs.append(f"operation {oid} has negative start {x.start_time}")
            if instance.jobs[op.job_id][op.position_in_job] is not op:
                errs.append(f"operation {oid} is not an operation of the instance")
            if prev is not None and prev.end_time > x.start_time:
                errs.append(
                    f"machine {m}: operation {prev.operation.operation_id} [{prev.start_time},{prev.end_time}) "
                    f"overlaps/precedes-out-of-order operation {oid} starting at {x.start_time}")
            prev = x
    for j, job in enumerate(instance.jobs):
        scheduled = [op.operation_id in seen for op in job]
        # prefix
        if any(b and not a for a, b in zip(scheduled, scheduled[1:])):
            errs.append(f"job {j}: scheduled operations are not a prefix of the job")
        for a, b in zip(job, job[1:]):
            if a.operation_id in seen and b.operation_id in seen:
                xa, xb = seen[a.operation_id], seen[b.operation_id]
                if xa.end_time > xb.start_time:
                    errs.append(
                        f"job {j}: operation {b.operation_id} starts at {xb.start_time} before its predecessor "
                        f"{a.operation_id} ends at {xa.end_time}")
    return errs


def derive_tracking(instance, schedule_lists):
    """What the schedule alone implies for the dispatcher's bookkeeping (C02)."""
    num_machines = len(schedule_lists)
    mach_next = [ms[-1].end_time if ms else 0 for ms in schedule_lists]
    job_idx = [0] * instance.num_jobs
    job_next = [0] * instance.num_jobs
    last_pos = [-1] * instance.num_jobs
    count = 0
    max_end = 0
    for ms in schedule_lists:
        for x in ms:
            count += 1
            j = x.operation.job_id
            job_idx[j] += 1
            if x.operation.position_in_job > last_pos[j]:
                last_pos[j] = x.operation.position_in_job
                job_next[j] = x.end_time
            max_end = max(max_end, x.end_time)
    return {"mach_next": mach_next, "job_idx": job_idx, "job_next": job_next, "count": count,
            "makespan": max_end, "num_machines": num_machines}


def forced_start(instance, before_lists, op, machine_id) -> int:
    """max(end of job predecessor (0 if none), end of last operation on the machine (0 if none)),
    computed from the schedule as it was before the dispatch."""
    pred_end = 0
    if op.position_in_job > 0:
        pred = instance.jobs[op.job_id][op.position_in_job - 1]
        for ms in before_lists:
            for x in ms:
                if x.operation is pred:
                    pred_end = x.end_time
    mach_end = before_lists[machine_id][-1].end_time if before_lists[machine_id] else 0
    return max(pred_end, mach_end)


def dump_schedule(schedule_lists):
    return [[(x.operation.operation_id, x.start_time, x.machine_id) for x in ms] for ms in schedule_lists]


def dump_instance(instance):
    return (
        instance.name,
        [[(tuple(op.machines), op.duration, op.job_id, op.position_in_job, op.operation_id) for op in job]
         for job in instance.jobs],
        repr(sorted(instance.metadata.items())),
    )


def dump_views(instance):
    """The (cached) derived views as the instance object currently hands them out."""
    return {
        "operations_by_machine": [[op.operation_id for op in ops] for ops in instance.operations_by_machine],
        "durations_matrix": [list(r) for r in instance.durations_matrix],
        "machines_matrix": [[list(c) if isinstance(c, (list, tuple)) else c for c in r] for r in instance.machines_matrix],
        "durations_matrix_array": [[None if v != v else float(v) for v in r] for r in instance.durations_matrix_array.tolist()],
        "machine_loads": list(instance.machine_loads),
        "job_durations": list(instance.job_durations),
        "max_duration_per_machine": list(instance.max_duration_per_machine),
        "num": (instance.num_jobs, instance.num_machines, instance.num_operations, instance.total_duration),
    }


# ---------------------------------------------------------------------------------------------
# From-scratch recomputation of dispatcher queries and filter criteria (C05, C06, C07, C11)
# ---------------------------------------------------------------------------------------------
class View:
    """What the schedule alone implies; never reads the dispatcher's tracking vectors or memo."""

    def __init__(self, instance, schedule_lists):
        self.instance = instance
        self.lists = [list(ms) for ms in schedule_lists]
        self.sop = {}
        for ms in self.lists:
            for x in ms:
                self.sop[x.operation.operation_id] = x
        self.mach_free = [max((x.end_time for x in ms), default=0) for ms in self.lists]
        self.job_ready = []
        self.next_pos = []
        for job in instance.jobs:
            ends = [self.sop[o.operation_id].end_time for o in job if o.operation_id in self.sop]
            self.job_ready.append(max(ends, default=0))
            self.next_pos.append(sum(1 for o in job if o.operation_id in self.sop))

    def start(self, op, m):
        return max(self.mach_free[m], self.job_ready[op.job_id])

    def scheduled(self):
        return [o for job in self.instance.jobs for o in job if o.operation_id in self.sop]

    def unscheduled(self):
        return [o for job in self.instance.jobs for o in job if o.operation_id not in self.sop]

    def raw_ready(self):
        return [job[self.next_pos[j]] for j, job in enumerate(self.instance.jobs) if self.next_pos[j] < len(job)]

    def makespan(self):
        return max((x.end_time for x in self.sop.values()), default=0)

    def min_start(self, ops):
        if not ops:
            return self.makespan()
        return min(self.start(o, m) for o in ops for m in o.machines)

    def earliest_start(self, op):
        return max(min(self.mach_free[m] for m in op.machines), self.job_ready[op.job_id])

    # ---- documented criteria of the four filters
    def f_nidle(self, ops):
        t = self.min_start(ops)
        busy = {m for m, ms in enumerate(self.lists) if any(x.end_time > t for x in ms)}
        return [o for o in ops if any(m not in busy for m in o.machines)]

    def f_nio(self, ops):
        t = self.min_start(ops)
        return [o for o in ops if self.earliest_start(o) == t]

    def f_nim(self, ops):
        t = self.min_start(ops)
        imm = {m for o in ops for m in o.machines if self.start(o, m) == t}
        return [o for o in ops if any(m in imm for m in o.machines)]

    def f_dom(self, ops):
        zero = [o for o in ops if o.duration == 0]
        if zero:
            return [zero[0]]
        min_end = {}
        for o in ops:
            for m in o.machines:
                e = self.start(o, m) + o.duration
                min_end[m] = min(min_end.get(m, e), e)
        return [o for o in ops if any(self.start(o, m) < min_end[m] for m in o.machines)]

    def apply(self, tokens, ops):
        fs = {"dom": self.f_dom, "nim": self.f_nim, "nidle": self.f_nidle, "nio": self.f_nio}
        for t in tokens:
            ops = fs[t](ops)
        return ops

    def available(self, filter_tokens):
        raw = self.raw_ready()
        return raw if filter_tokens is None else self.apply(filter_tokens, raw)

    def now(self, filter_tokens):
        return self.min_start(self.available(filter_tokens))

    def ongoing(self, filter_tokens):
        t = self.now(filter_tokens)
        return [x for x in self.sop.values() if x.end_time > t]


# ---------------------------------------------------------------------------------------------
# A third-party observer that raises from `update()` (C02, C13)
# ---------------------------------------------------------------------------------------------
def raiser_episode(seed):
    """A user observer (subscribed AFTER the reward observers) raises once from `update()`; the caller catches the exception and goes on.
    Whatever the library does about such an exception, what it shows afterwards must be consistent: an operation is either in the
    schedule (then at its forced start, with the tracking vectors saying so and one reward emitted for it) or not (then nothing was
    emitted for it and the clocks do not know it).  Returns {"C02": [...], "C13": [...]} lists of (kind, message)."""
    import random
    import gen
    import jsl
    from impl import build_instance
    from job_shop_lib.reinforcement_learning import MakespanReward, IdleTimeReward
    r = random.Random(seed)
    _, jobs = gen.gen_instance(r, r.choice(["classic", "irregular", "recirc", "flexible", "ties"]), max_jobs=3, max_machines=3, max_ops=3)
    inst = build_instance(jobs)
    has_zero = gen.has_zero(jobs)
    d = jsl.Dispatcher(inst)
    mk, idle = MakespanReward(d), IdleTimeReward(d)
    hist = jsl.HistoryObserver(d)
    fire_at = r.randint(1, max(1, gen.num_ops(jobs) - 1))

    class Guard(jsl.DispatcherObserver):
        """e.g. a deadline / budget guard of the user's"""
        calls = 0

        def update(self, scheduled_operation):
            Guard.calls += 1
            if Guard.calls == fire_at:
                raise RuntimeError("user guard tripped")

        def reset(self):
            pass
    class Peeker(jsl.DispatcherObserver):
        """another user observer, subscribed before the guard: it looks at the dispatcher from inside its callback"""

        def update(self, scheduled_operation):
            self.dispatcher.current_time()
            self.dispatcher.available_operations()
            self.dispatcher.ongoing_operations()

        def reset(self):
            pass
    Peeker(d)
    Guard(d)
    out = {"C01": [], "C02": [], "C05": [], "C06": [], "C10": [], "C13": [], "C12": []}
    last_time, last_completed = None, set()
    tr = gen.Tracker(jobs)
    recorded = []
    reset_after_raise = seed % 3 == 0
    while not tr.done():
        j, p, m = gen.gen_valid_request(r, tr)
        op = inst.jobs[j][p]
        mm = op.machines[0] if m == "none" else int(m)
        before = [list(ms) for ms in d.schedule.schedule]
        want_start = forced_start(inst, before, op, mm)
        raised = False
        try:
            d.dispatch(op, None if m == "none" else int(m))
        except RuntimeError:
            raised = True
        if raised and reset_after_raise:
            # the caller gives up on the episode right after the failed dispatch: reset() makes everything as new
            d.reset()
            if any(d.schedule.schedule) or any(d.machine_next_available_time) or any(d.job_next_operation_index) or \
                    any(d.job_next_available_time) or mk.rewards or idle.rewards or hist.history:
                out["C12"].append(("reset-after-raise", f"reset() right after a dispatch that a user observer aborted by raising: schedule "
                                   f"{[len(ms) for ms in d.schedule.schedule]}, job index {list(d.job_next_operation_index)}, "
                                   f"{len(mk.rewards)}/{len(idle.rewards)} rewards, {len(hist.history)} history entries are left"))
            else:
                fresh = jsl.Dispatcher(inst)
                first = inst.jobs[0][0]
                d.dispatch(first, first.machines[0])
                fresh.dispatch(first, first.machines[0])
                if dump_schedule(d.schedule.schedule) != dump_schedule(fresh.schedule.schedule):
                    out["C12"].append(("reset-after-raise", "after that reset the first dispatch gives another schedule than on a fresh dispatcher"))
            return out
        lists = d.schedule.schedule
        sop = next((x for ms in lists for x in ms if x.operation is op), None)
        what = f"`dispatch(op {op.operation_id}, machine {mm})`" + (" (the user's observer raised, the caller went on)" if raised else "")
        if sop is None and not raised:
            out["C02"].append(("append", f"{what}: accepted but not in the schedule"))
            break
        if sop is not None:
            tr.take(j)
            recorded.append((op, mm))
            if sop.start_time != want_start or sop.machine_id != mm:
                out["C02"].append(("start", f"{what}: started at {sop.start_time} on machine {sop.machine_id}, forced start "
                                   f"max(job_ready, machine_free) = {want_start}"))
        t = derive_tracking(inst, lists)
        if list(d.machine_next_available_time) != t["mach_next"] or list(d.job_next_operation_index) != t["job_idx"] or \
                list(d.job_next_available_time) != t["job_next"] or d.schedule.num_scheduled_operations != t["count"]:
            out["C02"].append(("tracking", f"after {what}: tracking (machine {list(d.machine_next_available_time)}, job index "
                               f"{list(d.job_next_operation_index)}, job {list(d.job_next_available_time)}, count "
                               f"{d.schedule.num_scheduled_operations}) but the schedule implies ({t['mach_next']}, {t['job_idx']}, "
                               f"{t['job_next']}, {t['count']})"))
        n = t["count"]
        mks = t["makespan"]
        idl = sum((ms[-1].end_time - sum(x.operation.duration for x in ms)) for ms in lists if ms)
        for name, o, want in (("makespan", mk, -mks), ("idle-time", idle, -idl)):
            if len(o.rewards) != n or sum(o.rewards) != want or any(x > 0 for x in o.rewards):
                out["C13"].append((name + "-sum", f"after {what}: {name} rewards {o.rewards} for {n} scheduled operations, expected sum {want}"))
        # C01: what the dispatcher holds is feasible; C05: its queries say what the schedule implies; C10: the history observer
        # (subscribed before the user's observer) has one entry per scheduled operation, in order
        for prob in feasible(inst, lists)[:2]:
            out["C01"].append(("infeasible", f"after {what}: {prob}"))
        v = View(inst, lists)
        ids = lambda ops: [o.operation_id for o in ops]  # noqa: E731
        for name, got, want in (("unscheduled_operations()", ids(d.unscheduled_operations()), ids(v.unscheduled())),
                                ("scheduled_operations()", sorted(ids(d.scheduled_operations())), sorted(v.sop)),
                                ("available_operations()", ids(d.available_operations()), ids(v.available(None))),
                                ("current_time()", d.current_time(), v.now(None))):
            if got != want:
                out["C05"].append(("query:" + name, f"after {what}: {name} = {got}, the schedule implies {want}"))
        now_t = d.current_time()
        completed = {o.operation_id for o in d.completed_operations()}
        if last_time is not None and now_t < last_time:
            out["C06"].append(("time-decreased", f"after {what}: current time went from {last_time} to {now_t}"))
        if not last_completed <= completed:
            out["C06"].append(("completed-shrank", f"after {what}: operations {sorted(last_completed - completed)} were completed and no longer are"))
        if not has_zero and now_t != v.now(None):
            out["C06"].append(("time", f"after {what}: current_time() = {now_t}, the schedule implies {v.now(None)}"))
        last_time, last_completed = now_t, completed
        got_h = [(x.operation.operation_id, x.machine_id) for x in hist.history]
        want_h = [(o.operation_id, mm_) for o, mm_ in recorded]
        if got_h != want_h:
            out["C10"].append(("history-record", f"after {what}: the history observer (subscribed before the raising observer) recorded "
                               f"{got_h}, the schedule was built by {want_h}"))
        if any(out.values()):
            break
        if sop is None:
            # the library took the operation back: the request can be made again
            continue
    if not out["C02"] and tr.done():
        fresh = jsl.Dispatcher(inst)
        for op, mm in recorded:
            fresh.dispatch(op, mm)
        if dump_schedule(fresh.schedule.schedule) != dump_schedule(d.schedule.schedule):
            out["C02"].append(("replay-fresh", "re-dispatching the scheduled (operation, machine) sequence on a fresh dispatcher gives a "
                               "different schedule (a user observer raised once on the way)"))
    del hist
    return out


# ---------------------------------------------------------------------------------------------
# A user-defined ready-operations filter, and requests for operations it hides (C01, C02, C11, C16)
# ---------------------------------------------------------------------------------------------
def custom_filter_episode(seed):
    """A dispatcher with a USER-DEFINED ready-operations filter (any callable is allowed: this one keeps only the longest ready
    operations, or drops the first one) - the caller dispatches whatever is ready, also operations the filter hides.  The filter decides
    what `available_operations()` shows and hence what "now" is; it has no say in when an operation starts.
    Returns {"C01": [...], "C02": [...], "C11": [...], "C16": [...]}."""
    import random
    import gen
    import jsl
    from impl import build_instance
    from job_shop_lib.dispatching.feature_observers import EarliestStartTimeObserver
    from job_shop_lib.graphs import build_solved_disjunctive_graph
    r = random.Random(seed)
    _, jobs = gen.gen_instance(r, r.choice(["classic", "irregular", "recirc", "ties"]), max_jobs=3, max_machines=3, max_ops=3)
    jobs = [[(ms, max(1, d)) for ms, d in job] for job in jobs]
    inst = build_instance(jobs)
    kind = r.choice(["longest", "drop_first", "last_job", "flaky"])
    flaky = {"fail_next": False}

    def user_filter(dispatcher, operations):
        if flaky["fail_next"]:
            # (a filter that depends on something not ready yet - a lazily loaded table, a service: it raises, the caller retries)
            flaky["fail_next"] = False
            raise RuntimeError("user filter not ready")
        if not operations:
            return operations
        if kind == "flaky":
            top = max(o.duration for o in operations)
            return [o for o in operations if o.duration == top]
        if kind == "longest":
            top = max(o.duration for o in operations)
            return [o for o in operations if o.duration == top]
        if kind == "drop_first":
            return operations[1:] if len(operations) > 1 else operations
        top = max(o.job_id for o in operations)
        return [o for o in operations if o.job_id == top]
    d = jsl.Dispatcher(inst, ready_operations_filter=user_filter)
    est_obs = EarliestStartTimeObserver(d)
    from job_shop_lib.graphs import build_disjunctive_graph, build_agent_task_graph
    from job_shop_lib.graphs.graph_updaters import ResidualGraphUpdater
    res_graph = r.choice([build_disjunctive_graph, build_agent_task_graph])(inst)
    ResidualGraphUpdater(d, res_graph)
    out = {"C01": [], "C02": [], "C11": [], "C16": [], "C17": [], "C06": [], "C05": []}
    bare = jsl.Dispatcher(inst, ready_operations_filter=user_filter)
    tr = gen.Tracker(jobs)
    recorded = []
    while not tr.done():
        j, p, m = gen.gen_valid_request(r, tr)
        op = inst.jobs[j][p]
        mm = op.machines[0] if m == "none" else int(m)
        before = [list(ms) for ms in d.schedule.schedule]
        want_start = forced_start(inst, before, op, mm)
        d.dispatch(op, None if m == "none" else int(m))
        tr.take(j)
        recorded.append((op, mm))
        lists = d.schedule.schedule
        sop = next(x for ms in lists for x in ms if x.operation is op)
        what = f"`dispatch(op {op.operation_id}, machine {mm})` under a user-defined filter ({kind})"
        if sop.start_time != want_start:
            out["C02"].append(("start", f"{what}: started at {sop.start_time}, forced start max(job_ready, machine_free) = {want_start}"))
        for prob in feasible(inst, lists)[:2]:
            out["C01"].append(("infeasible", f"after {what}: {prob}"))
        # C11: the earliest-start observer reports, for every unscheduled operation, its earliest start minus the current time - where
        # the current time is what the (filtered) available operations imply
        v = View(inst, lists)
        if kind == "flaky":
            # on a dispatcher WITHOUT observers (nothing has asked anything in this state yet) the filter fails once; the caller catches
            # the error and asks again: the second answer is the filtered one
            bare.dispatch(op, None if m == "none" else int(m))
            flaky["fail_next"] = True
            try:
                bare.available_operations()
            except RuntimeError:
                pass
            flaky["fail_next"] = False
            got_ids = sorted(o.operation_id for o in bare.available_operations())
            want_ids = sorted(o.operation_id for o in user_filter(bare, v.raw_ready()))
            if got_ids != want_ids:
                out["C05"].append(("available", f"after {what}: the user's filter failed once and was asked again: available_operations() = "
                                   f"{got_ids}, the filter keeps {want_ids}"))
            jobs_ = sorted(bare.available_jobs())
            if jobs_ != sorted({o.job_id for o in user_filter(bare, v.raw_ready())}):
                out["C05"].append(("available_jobs", f"after {what}: available_jobs() = {jobs_} after the filter's failed first attempt"))
        avail = user_filter(d, v.raw_ready())
        now = v.min_start(avail)
        if d.current_time() != now:
            out["C11"].append(("now", f"after {what}: current_time() = {d.current_time()}, the available operations imply {now}"))
            out["C06"].append(("now", f"after {what}: current_time() = {d.current_time()}, the available operations imply {now}"))
        # C17: with the updater attached, the node of every operation completed by now (the documented now) is gone, no unscheduled
        # operation's node is
        for ms_ in lists:
            for x_ in ms_:
                if x_.end_time <= now and not res_graph.is_removed(x_.operation.operation_id):
                    out["C17"].append(("completed-kept", f"after {what}: operation {x_.operation.operation_id} ended at {x_.end_time} <= now = "
                                       f"{now}, its node is still in the graph"))
        for o_ in v.unscheduled():
            if res_graph.is_removed(o_.operation_id):
                out["C17"].append(("removed-unscheduled", f"after {what}: node of unscheduled operation {o_.operation_id} removed"))
        col = est_obs.features[next(k for k in est_obs.features if k.name == "OPERATIONS")]
        for jj, job in enumerate(inst.jobs):
            prev = v.job_ready[jj]
            for pp in range(v.next_pos[jj], len(job)):
                o = job[pp]
                s = max(prev, min(v.mach_free[mx] for mx in o.machines))
                got = float(col[o.operation_id][0])
                if got != float(s - now):
                    out["C11"].append(("earliest_start_time:operations", f"after {what}: earliest_start_time feature operations[{o.operation_id}] = "
                                       f"{got}, recomputation from the schedule gives {s} - {now} = {s - now}"))
                prev = s + o.duration
        for k_ in out:
            del out[k_][3:]             # (a few messages per property are enough; the episode goes on: C16 is judged at its end)
    # C16: the solved graph of this dispatcher-built schedule: longest duration-weighted source-to-sink path = makespan
    import networkx as nx
    g = build_solved_disjunctive_graph(d.schedule)
    G = g.graph
    dur = {n.node_id: (n.operation.duration if n.node_type.name == "OPERATION" else 0) for n in g.nodes}
    if not nx.is_directed_acyclic_graph(G):
        out["C16"].append(("cyclic", f"the solved graph of a dispatcher-built schedule (user-defined filter {kind}) has a cycle"))
    else:
        best = {}
        for n in nx.topological_sort(G):
            best[n] = dur[n] + max((best[u] for u in G.predecessors(n)), default=0)
        longest = max(best.values(), default=0)
        if longest != d.schedule.makespan():
            out["C16"].append(("critical-path", f"dispatcher-built schedule (user-defined filter {kind}, operations it hides dispatched too): longest "
                               f"duration-weighted path {longest}, makespan {d.schedule.makespan()}"))
    fresh = jsl.Dispatcher(inst)
    for op, mm in recorded:
        fresh.dispatch(op, mm)
    if dump_schedule(fresh.schedule.schedule) != dump_schedule(d.schedule.schedule):
        out["C02"].append(("replay-fresh", f"replaying the (operation, machine) sequence on a fresh dispatcher WITHOUT the user's filter gives another "
                           "schedule: the filter influenced start times"))
    return out


def gc_flex_episode(seed):
    """A build / schedule / discard loop over FLEXIBLE instances of one shape (every operation: 4-5 eligible machines out of 6, other
    sets each time), each instance garbage before the next exists - the way a study over generated instances runs.  For every
    operation a request on a machine it cannot run on comes first (must be refused, nothing changes), then the request on an eligible
    machine (must be accepted at its forced start).  Returns {"C01": [...], "C09": [...], "C02": [...]} lists of (kind, message)."""
    import gc
    import random
    import jsl
    from impl import build_instance
    r = random.Random(seed)
    J, P, M = r.randint(2, 3), r.randint(2, 3), 6
    out = {"C01": [], "C09": [], "C02": []}
    for it in range(20):
        jobs = [[(sorted(r.sample(range(M), r.randint(4, 5))), r.randint(1, 6)) for _ in range(P)] for _ in range(J)]
        inst = build_instance(jobs)
        d = jsl.Dispatcher(inst)
        idx = [0] * J
        mfree, jfree = [0] * M, [0] * J
        while any(idx[j] < P for j in range(J)):
            j = r.choice([k for k in range(J) if idx[k] < P])
            op = inst.jobs[j][idx[j]]
            ms = jobs[j][idx[j]][0]
            wrong = r.choice([m for m in range(M) if m not in ms])
            before = [[(x.operation.operation_id, x.start_time, x.machine_id) for x in row] for row in d.schedule.schedule]
            try:
                d.dispatch(op, wrong)
                msg = (f"loop iteration {it}: operation {op.operation_id} (machines {ms}) was accepted on machine {wrong} "
                       f"(instance {jobs})")
                out["C09"].append(("not-rejected", msg))
                out["C01"].append(("infeasible", msg + ": the schedule holds an operation on a machine it cannot run on"))
                return out
            except Exception:  # pylint: disable=broad-except
                pass
            after = [[(x.operation.operation_id, x.start_time, x.machine_id) for x in row] for row in d.schedule.schedule]
            if before != after:
                out["C09"].append(("state-changed", f"loop iteration {it}: the refused request changed the schedule"))
                return out
            m = r.choice(ms)
            try:
                d.dispatch(op, m)
            except Exception as e:  # pylint: disable=broad-except
                msg = (f"loop iteration {it}: the ready operation {op.operation_id} (machines {ms}) was refused on machine {m}: "
                       f"{type(e).__name__} (instance {jobs})")
                out["C01"].append(("valid-refused", msg))
                out["C09"].append(("valid-refused", msg))
                return out
            start = max(mfree[m], jfree[j])
            x = d.schedule.schedule[m][-1]
            if x.operation.operation_id != op.operation_id or x.start_time != start:
                out["C02"].append(("forced-start", f"loop iteration {it}: operation {op.operation_id} on machine {m} starts at "
                                   f"{x.start_time}, forced start {start}"))
            mfree[m] = jfree[j] = start + op.duration
            idx[j] += 1
        errs = feasible(inst, d.schedule.schedule)
        if errs or not d.schedule.is_complete():
            out["C01"].append(("infeasible", f"loop iteration {it}: {errs[:2]} complete={d.schedule.is_complete()}"))
        del inst, d, op, x
        gc.collect()
    return out


def self_unsub_episode(seed):
    """User observers that change the subscriber list from INSIDE their callbacks: a one-shot observer that unsubscribes itself
    in `update()` (or in `reset()`), at any position among the subscribers.  Every observer that stays subscribed all along is
    notified of every accepted dispatch exactly once, in order (the history observer's record is the dispatch sequence, each reward
    observer holds one reward per dispatch), and of every reset once; the one that left receives nothing afterwards.
    Returns {"C10": [...], "C02": [...], "C13": [...]}."""
    import random
    import gen
    import jsl
    from impl import build_instance
    from job_shop_lib.reinforcement_learning import MakespanReward, IdleTimeReward
    r = random.Random(seed)
    _, jobs = gen.gen_instance(r, r.choice(["classic", "irregular", "recirc", "flexible", "ties"]), max_jobs=3, max_machines=3, max_ops=3)
    inst = build_instance(jobs)
    d = jsl.Dispatcher(inst)
    out = {"C10": [], "C02": [], "C13": []}
    total = gen.num_ops(jobs)
    fire_at = r.randint(1, max(1, total - 1))
    on_reset = r.random() < 0.3

    class Counter(jsl.DispatcherObserver):
        _is_singleton = False

        def __init__(self, dispatcher):
            super().__init__(dispatcher)
            self.seen, self.resets = [], 0

        def update(self, scheduled_operation):
            self.seen.append(scheduled_operation.operation.operation_id)

        def reset(self):
            self.resets += 1
            self.seen = []

    class OneShot(Counter):
        """e.g. a trigger that waits for some event and then retires"""
        left = False

        def update(self, scheduled_operation):
            if self.left:
                out["C10"].append(("unsubscribed-notified", "an observer that unsubscribed itself was notified of a later dispatch"))
            super().update(scheduled_operation)
            if not on_reset and len(self.seen) == fire_at:
                self.dispatcher.unsubscribe(self)
                self.left = True

        def reset(self):
            if self.left:
                out["C10"].append(("unsubscribed-notified", "an observer that unsubscribed itself was notified of a later reset"))
            super().reset()
            if on_reset and not self.left:
                self.dispatcher.unsubscribe(self)
                self.left = True

    # two DISTINCT user observers that compare equal (value equality) on a dispatcher of their own: both are subscribed, both notified
    class Tally(jsl.DispatcherObserver):
        _is_singleton = False

        def __init__(self, dispatcher):
            self.n = 0
            super().__init__(dispatcher)

        def __eq__(self, other):
            return isinstance(other, Tally)

        def __hash__(self):
            return 7

        def update(self, scheduled_operation):
            self.n += 1

        def reset(self):
            self.n = 0
    d_eq = jsl.Dispatcher(inst)
    t1, t2 = Tally(d_eq), Tally(d_eq)
    first_op = inst.jobs[0][0]
    d_eq.dispatch(first_op, first_op.machines[0])
    if (t1.n, t2.n) != (1, 1) or sum(1 for s_ in d_eq.subscribers if isinstance(s_, Tally)) != 2:
        out["C10"].append(("equal-observers", f"two distinct user observers that compare equal were subscribed to one dispatcher: after one "
                           f"dispatch they were notified {t1.n} and {t2.n} times"))
        return out
    # the one-shot observer at a random position among the others
    makers = [lambda: Counter(d), lambda: jsl.HistoryObserver(d), lambda: MakespanReward(d), lambda: IdleTimeReward(d), lambda: Counter(d)]
    r.shuffle(makers)
    pos = r.randrange(len(makers) + 1)
    stay = []
    for k, mk in enumerate(makers):
        if k == pos:
            OneShot(d)
        stay.append(mk())
    if pos == len(makers):
        OneShot(d)
    what = (f"a one-shot observer at position {pos} of {len(makers) + 1} subscribers unsubscribes itself inside "
            f"{'reset()' if on_reset else f'update() at dispatch {fire_at}'}")
    for ep in range(2):
        tr = gen.Tracker(jobs)
        done = []
        n_stop = total if ep else r.randint(1, total)
        while len(done) < n_stop:
            j, p, m = gen_req = gen.gen_valid_request(r, tr)
            op = inst.jobs[j][p]
            d.dispatch(op, None if m == "none" else int(m))
            tr.take(j)
            done.append(op.operation_id)
            for o in stay:
                if isinstance(o, Counter) and o.seen != done:
                    out["C10"].append(("missed", f"{what}: an observer that stayed subscribed saw the dispatches {o.seen}, the accepted "
                                       f"dispatches are {done}"))
                if isinstance(o, jsl.HistoryObserver):
                    rec = [x.operation.operation_id for x in o.history]
                    if rec != done:
                        out["C10"].append(("history", f"{what}: the history observer recorded {rec}, the dispatch sequence is {done}"))
                        out["C02"].append(("history", f"{what}: the recorded history {rec} is not the dispatch sequence {done}"))
                if isinstance(o, (MakespanReward, IdleTimeReward)) and len(o.rewards) != len(done):
                    out["C13"].append(("count", f"{what}: {type(o).__name__} holds {len(o.rewards)} rewards after {len(done)} accepted dispatches"))
            if any(out.values()):
                return {k: v[:2] for k, v in out.items()}
        if ep == 0:
            before = [o.resets for o in stay if isinstance(o, Counter)]
            d.reset()
            after = [o.resets for o in stay if isinstance(o, Counter)]
            if [b + 1 for b in before] != after:
                out["C10"].append(("reset-missed", f"{what}: reset() notified the observers that stayed subscribed {[a - b for a, b in zip(after, before)]} times"))
                return out
    return out

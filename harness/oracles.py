"""Independent Python oracles: the properties re-stated directly on the real objects' observable
state (schedule lists, instance), never through the code under test's own bookkeeping.
They are deliberately no stricter than the property text.
"""
from __future__ import annotations


def sched_lists(dispatcher):
    return dispatcher.schedule.schedule


def flat(dispatcher):
    return [x for ms in dispatcher.schedule.schedule for x in ms]


def feasible(instance, schedule_lists) -> list[str]:
    """C01's `Feasible`: returns a list of human-readable violations (empty = feasible)."""
    errs = []
    seen = {}
    for m, ms in enumerate(schedule_lists):
        prev = None
        for x in ms:
            op = x.operation
            oid = op.operation_id
            if oid in seen:
                errs.append(f"operation {oid} scheduled twice")
            seen[oid] = x
            if x.machine_id != m:
                errs.append(f"operation {oid} listed under machine {m} but assigned to {x.machine_id}")
            if x.machine_id not in op.machines:
                errs.append(f"operation {oid} on ineligible machine {x.machine_id} (eligible {op.machines})")
            if x.start_time < 0:
                errs.append(f"operation {oid} has negative start {x.start_time}")
            if instance.jobs[op.job_id][op.position_in_job] is not op:
                errs.append(f"operation {oid} is not an operation of the instance")
            if prev is not None and prev.end_time > x.start_time:
                errs.append(
                    f"machine {m}: operation {prev.operation.operation_id} [{prev.start_time},{prev.end_time}) "
                    f"overlaps/precedes-out-of-order operation {oid} starting at {x.start_time}")
            prev = x
    for j, job in enumerate(instance.jobs):
        scheduled = [op.operation_id in seen for op in job]
        # prefix
        if any(b and not a for a, b in zip(scheduled, scheduled[1:])):
            errs.append(f"job {j}: scheduled operations are not a prefix of the job")
        for a, b in zip(job, job[1:]):
            if a.operation_id in seen and b.operation_id in seen:
                xa, xb = seen[a.operation_id], seen[b.operation_id]
                if xa.end_time > xb.start_time:
                    errs.append(
                        f"job {j}: operation {b.operation_id} starts at {xb.start_time} before its predecessor "
                        f"{a.operation_id} ends at {xa.end_time}")
    return errs


def derive_tracking(instance, schedule_lists):
    """What the schedule alone implies for the dispatcher's bookkeeping (C02)."""
    num_machines = len(schedule_lists)
    mach_next = [ms[-1].end_time if ms else 0 for ms in schedule_lists]
    job_idx = [0] * instance.num_jobs
    job_next = [0] * instance.num_jobs
    last_pos = [-1] * instance.num_jobs
    count = 0
    max_end = 0
    for ms in schedule_lists:
        for x in ms:
            count += 1
            j = x.operation.job_id
            job_idx[j] += 1
            if x.operation.position_in_job > last_pos[j]:
                last_pos[j] = x.operation.position_in_job
                job_next[j] = x.end_time
            max_end = max(max_end, x.end_time)
    return {"mach_next": mach_next, "job_idx": job_idx, "job_next": job_next, "count": count,
            "makespan": max_end, "num_machines": num_machines}


def forced_start(instance, before_lists, op, machine_id) -> int:
    """max(end of job predecessor (0 if none), end of last operation on the machine (0 if none)),
    computed from the schedule as it was before the dispatch."""
    pred_end = 0
    if op.position_in_job > 0:
        pred = instance.jobs[op.job_id][op.position_in_job - 1]
        for ms in before_lists:
            for x in ms:
                if x.operation is pred:
                    pred_end = x.end_time
    mach_end = before_lists[machine_id][-1].end_time if before_lists[machine_id] else 0
    return max(pred_end, mach_end)


def dump_schedule(schedule_lists):
    return [[(x.operation.operation_id, x.start_time, x.machine_id) for x in ms] for ms in schedule_lists]


def dump_instance(instance):
    return (
        instance.name,
        [[(tuple(op.machines), op.duration, op.job_id, op.position_in_job, op.operation_id) for op in job]
         for job in instance.jobs],
        repr(sorted(instance.metadata.items())),
    )


def dump_views(instance):
    """The (cached) derived views as the instance object currently hands them out."""
    return {
        "operations_by_machine": [[op.operation_id for op in ops] for ops in instance.operations_by_machine],
        "durations_matrix": [list(r) for r in instance.durations_matrix],
        "machines_matrix": [[list(c) if isinstance(c, (list, tuple)) else c for c in r] for r in instance.machines_matrix],
        "durations_matrix_array": [[None if v != v else float(v) for v in r] for r in instance.durations_matrix_array.tolist()],
        "machine_loads": list(instance.machine_loads),
        "job_durations": list(instance.job_durations),
        "max_duration_per_machine": list(instance.max_duration_per_machine),
        "num": (instance.num_jobs, instance.num_machines, instance.num_operations, instance.total_duration),
    }


# ---------------------------------------------------------------------------------------------
# From-scratch recomputation of dispatcher queries and filter criteria (C05, C06, C07, C11)
# ---------------------------------------------------------------------------------------------
class View:
    """What the schedule alone implies; never reads the dispatcher's tracking vectors or memo."""

    def __init__(self, instance, schedule_lists):
        self.instance = instance
        self.lists = [list(ms) for ms in schedule_lists]
        self.sop = {}
        for ms in self.lists:
            for x in ms:
                self.sop[x.operation.operation_id] = x
        self.mach_free = [max((x.end_time for x in ms), default=0) for ms in self.lists]
        self.job_ready = []
        self.next_pos = []
        for job in instance.jobs:
            ends = [self.sop[o.operation_id].end_time for o in job if o.operation_id in self.sop]
            self.job_ready.append(max(ends, default=0))
            self.next_pos.append(sum(1 for o in job if o.operation_id in self.sop))

    def start(self, op, m):
        return max(self.mach_free[m], self.job_ready[op.job_id])

    def scheduled(self):
        return [o for job in self.instance.jobs for o in job if o.operation_id in self.sop]

    def unscheduled(self):
        return [o for job in self.instance.jobs for o in job if o.operation_id not in self.sop]

    def raw_ready(self):
        return [job[self.next_pos[j]] for j, job in enumerate(self.instance.jobs) if self.next_pos[j] < len(job)]

    def makespan(self):
        return max((x.end_time for x in self.sop.values()), default=0)

    def min_start(self, ops):
        if not ops:
            return self.makespan()
        return min(self.start(o, m) for o in ops for m in o.machines)

    def earliest_start(self, op):
        return max(min(self.mach_free[m] for m in op.machines), self.job_ready[op.job_id])

    # ---- documented criteria of the four filters
    def f_nidle(self, ops):
        t = self.min_start(ops)
        busy = {m for m, ms in enumerate(self.lists) if any(x.end_time > t for x in ms)}
        return [o for o in ops if any(m not in busy for m in o.machines)]

    def f_nio(self, ops):
        t = self.min_start(ops)
        return [o for o in ops if self.earliest_start(o) == t]

    def f_nim(self, ops):
        t = self.min_start(ops)
        imm = {m for o in ops for m in o.machines if self.start(o, m) == t}
        return [o for o in ops if any(m in imm for m in o.machines)]

    def f_dom(self, ops):
        zero = [o for o in ops if o.duration == 0]
        if zero:
            return [zero[0]]
        min_end = {}
        for o in ops:
            for m in o.machines:
                e = self.start(o, m) + o.duration
                min_end[m] = min(min_end.get(m, e), e)
        return [o for o in ops if any(self.start(o, m) < min_end[m] for m in o.machines)]

    def apply(self, tokens, ops):
        fs = {"dom": self.f_dom, "nim": self.f_nim, "nidle": self.f_nidle, "nio": self.f_nio}
        for t in tokens:
            ops = fs[t](ops)
        return ops

    def available(self, filter_tokens):
        raw = self.raw_ready()
        return raw if filter_tokens is None else self.apply(filter_tokens, raw)

    def now(self, filter_tokens):
        return self.min_start(self.available(filter_tokens))

    def ongoing(self, filter_tokens):
        t = self.now(filter_tokens)
        return [x for x in self.sop.values() if x.end_time > t]

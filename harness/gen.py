"""Generators of instances, dispatch histories and scenarios.

Every random choice derives from the `random.Random` passed in, so a run is a pure function of
VERIF_SEED.  Instances are lists of jobs, a job a list of `(machines, duration)`.
"""
from __future__ import annotations

import itertools
import random

FILTER_NAMES = ["dom", "nim", "nidle", "nio"]

FAMILIES = [
    "classic", "irregular", "recirc", "flexible", "zero", "gaps", "single_job", "single_machine",
    "ties", "flex_zero",
]


def gen_instance(rng: random.Random, family: str | None = None, max_jobs=4, max_machines=4,
                 max_ops=4, max_dur=9):
    family = family or rng.choice(FAMILIES)
    J = rng.randint(2, max_jobs)
    M = rng.randint(2, max_machines)
    dur = lambda: rng.randint(1, max_dur)  # noqa: E731
    if family == "classic":
        jobs = [[([m], dur()) for m in rng.sample(range(M), M)] for _ in range(J)]
    elif family == "irregular":
        jobs = [[([rng.randrange(M)], dur()) for _ in range(rng.randint(1, max_ops))] for _ in range(J)]
    elif family == "recirc":
        jobs = [[([rng.randrange(M)], dur()) for _ in range(M)] for _ in range(J)]
    elif family == "flexible":
        jobs = [[(rng.sample(range(M), rng.randint(1, min(3, M))), dur())
                 for _ in range(rng.randint(1, max_ops))] for _ in range(J)]
    elif family == "zero":
        jobs = [[([rng.randrange(M)], rng.choice([0, 0, 1, 2, 3]))
                 for _ in range(rng.randint(1, max_ops))] for _ in range(J)]
    elif family == "flex_zero":
        jobs = [[(rng.sample(range(M), rng.randint(1, min(3, M))), rng.choice([0, 1, 1, 2, 5]))
                 for _ in range(rng.randint(1, max_ops))] for _ in range(J)]
    elif family == "gaps":
        ids = sorted(rng.sample(range(M + 3), M))
        jobs = [[([rng.choice(ids)], dur()) for _ in range(rng.randint(1, max_ops))] for _ in range(J)]
    elif family == "single_job":
        jobs = [[(rng.sample(range(M), rng.randint(1, min(2, M))), dur()) for _ in range(rng.randint(1, max_ops + 1))]]
    elif family == "single_machine":
        jobs = [[([0], dur()) for _ in range(rng.randint(1, max_ops))] for _ in range(J)]
    elif family == "ties":
        jobs = [[([rng.randrange(M)], rng.randint(1, 2)) for _ in range(rng.randint(1, max_ops))] for _ in range(J)]
    else:
        raise ValueError(family)
    return family, jobs


def make_huge(rng: random.Random, jobs):
    """Some durations far beyond 2**53 (where float64 stops being exact), the rest unchanged: all of the library's
    time arithmetic the properties speak about is integer arithmetic."""
    big = 2 ** rng.choice([53, 54, 60, 63, 64, 70])
    return [[(ms, d if rng.random() < 0.6 else big + rng.randint(0, 3)) for ms, d in job] for job in jobs]


def is_flexible(jobs) -> bool:
    return any(len(ms) > 1 for job in jobs for ms, _ in job)


def has_zero(jobs) -> bool:
    return any(d == 0 for job in jobs for _, d in job)


def num_ops(jobs) -> int:
    return sum(len(j) for j in jobs)


def gen_filter(rng: random.Random, allow_none=True):
    """Returns None (no filter) or a list of filter tokens (a composition, possibly empty)."""
    r = rng.random()
    if allow_none and r < 0.2:
        return None
    if r < 0.55:
        return [rng.choice(FILTER_NAMES)]
    k = rng.randint(0, 3)
    return [rng.choice(FILTER_NAMES) for _ in range(k)]


def filter_line(f) -> str:
    return "filter none" if f is None else "filter comp " + " ".join(f)


class Tracker:
    """Generator-side bookkeeping of which operation of each job is next (no library code)."""

    def __init__(self, jobs):
        self.jobs = jobs
        self.idx = [0] * len(jobs)

    def ready(self):
        return [(j, self.idx[j]) for j in range(len(self.jobs)) if self.idx[j] < len(self.jobs[j])]

    def done(self):
        return not self.ready()

    def take(self, j):
        self.idx[j] += 1

    def reset(self):
        self.idx = [0] * len(self.jobs)


def gen_valid_request(rng: random.Random, tr: Tracker, style: str = "uniform"):
    """A request the dispatcher must accept: a ready operation on an eligible machine."""
    ready = tr.ready()
    if style == "one_job_first":
        j, p = ready[0]
    elif style == "last_job_first":
        j, p = ready[-1]
    else:
        j, p = rng.choice(ready)
    ms, _ = tr.jobs[j][p]
    if len(ms) == 1 and rng.random() < 0.3:
        m = "none"
    else:
        m = rng.choice(ms)
    return j, p, m


def gen_invalid_request(rng: random.Random, tr: Tracker, num_machines: int):
    """A request the dispatcher must reject; returns (j, p, m, kind)."""
    kinds = ["not_next", "bad_machine", "oob_machine", "neg_machine", "none_flexible", "already"]
    rng.shuffle(kinds)
    for kind in kinds:
        if kind == "not_next":
            cands = [(j, p) for j, job in enumerate(tr.jobs) for p in range(len(job)) if p > tr.idx[j]]
            if cands:
                j, p = rng.choice(cands)
                return j, p, rng.choice(tr.jobs[j][p][0]), kind
        if kind == "already":
            cands = [(j, p) for j, job in enumerate(tr.jobs) for p in range(len(job)) if p < tr.idx[j]]
            if cands:
                j, p = rng.choice(cands)
                return j, p, rng.choice(tr.jobs[j][p][0]), kind
        ready = tr.ready()
        if not ready:
            continue
        j, p = rng.choice(ready)
        ms, _ = tr.jobs[j][p]
        if kind == "bad_machine":
            others = [m for m in range(num_machines) if m not in ms]
            if others:
                return j, p, rng.choice(others), kind
        if kind == "oob_machine":
            return j, p, num_machines + rng.randint(0, 2), kind
        if kind == "neg_machine":
            return j, p, -rng.randint(1, num_machines + 1), kind
        if kind == "none_flexible" and len(ms) > 1:
            return j, p, "none", kind
    return None


def all_small_instances(max_jobs=2, max_ops=2, max_machines=2, durs=(0, 1, 2)):
    """Exhaustive small scope: every instance with <= max_jobs jobs x <= max_ops ops, single-machine ops."""
    op_choices = [([m], d) for m in range(max_machines) for d in durs]
    job_choices = []
    for n in range(1, max_ops + 1):
        job_choices.extend(itertools.product(op_choices, repeat=n))
    for nj in range(1, max_jobs + 1):
        for jobs in itertools.product(job_choices, repeat=nj):
            yield [list(job) for job in jobs]


def all_histories(jobs):
    """All complete interleavings (as job-id sequences) of an instance; machine = first eligible."""
    counts = [len(j) for j in jobs]

    def rec(idx):
        if all(idx[j] == counts[j] for j in range(len(jobs))):
            yield []
            return
        for j in range(len(jobs)):
            if idx[j] < counts[j]:
                idx2 = list(idx)
                idx2[j] += 1
                for rest in rec(idx2):
                    yield [j] + rest

    yield from rec([0] * len(jobs))

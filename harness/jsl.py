"""Imports the real job_shop_lib from /repo's working tree and asserts that this is what is loaded."""
import os
import sys

REPO = os.environ.get("VERIF_REPO", "/repo")
if REPO not in sys.path:
    sys.path.insert(0, REPO)
os.environ.setdefault("MPLBACKEND", "Agg")

import job_shop_lib  # noqa: E402

_loaded = os.path.realpath(os.path.dirname(os.path.dirname(job_shop_lib.__file__)))
if _loaded != os.path.realpath(REPO):
    raise SystemExit(f"harness error: job_shop_lib loaded from {_loaded}, expected {REPO}")

from job_shop_lib import (  # noqa: E402,F401
    JobShopInstance,
    Operation,
    Schedule,
    ScheduledOperation,
)
from job_shop_lib.dispatching import (  # noqa: E402,F401
    Dispatcher,
    DispatcherObserver,
    HistoryObserver,
    UnscheduledOperationsObserver,
    filter_dominated_operations,
    filter_non_immediate_machines,
    filter_non_idle_machines,
    filter_non_immediate_operations,
    create_composite_operation_filter,
    ready_operations_filter_factory,
    ReadyOperationsFilterType,
)

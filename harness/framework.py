"""Shared machinery of every property check: Lean build + axiom audit, model driver, scenario
execution on the real code with oracles, diffing, shrinking, verdict, evidence.

Verdict logic (DESIGN.md §3.6):
 1. build the property's Lean module, grep forbidden tokens, audit `#print axioms`;
 2. run corpus + generated scenarios on the real code (with the property's independent oracle) and
    on the model; diff;
 3. oracle failure => VIOLATION with the minimised failing input as replay (unless it matches an
    `open:` known finding => KNOWN-FINDING line, exit code unaffected);
 4. proof or correspondence broken, no oracle failure => failing-input search (larger seeded
    batch); found => as 3; not found => VIOLATION ... no-failing-input-found;
 5. evidence/<id>.json is always written.
"""
from __future__ import annotations

import hashlib
import json
import os
import re
import subprocess
import sys
import time
import traceback
from dataclasses import dataclass, field

VERIF = os.path.dirname(os.path.dirname(os.path.abspath(__file__)))
LEAN_DIR = os.path.join(VERIF, "lean")
DRIVER = os.path.join(LEAN_DIR, ".lake", "build", "bin", "driver")
ALLOWED_AXIOMS = {"propext", "Classical.choice", "Quot.sound"}
FORBIDDEN = re.compile(
    r"\b(sorry|admit|native_decide|bv_decide|implemented_by|unsafe)\b|^\s*axiom\s|maxHeartbeats\s+0\b"
)

TRUSTED_BASE = [
    "Lean 4.33 kernel (leanchecker re-check in the thorough tier)",
    "axioms: propext, Classical.choice, Quot.sound only (audited with #print axioms on every run)",
    "hand-written Lean model of the code (lean/JobShopModel), tied to /repo's working tree by the "
    "differential correspondence run of this check; assurance is bounded by the generator's measured distribution",
    "Python harness: interpreter of the line protocol on the real objects, canonicaliser, independent oracles",
    "CPython 3.12 semantics of min/max (first extremum), sorted (stable), list and dict order",
]


# --------------------------------------------------------------------------- scenarios
@dataclass
class Scenario:
    lines: list[str]
    meta: dict = field(default_factory=dict)

    def key(self) -> str:
        return hashlib.sha1("\n".join(self.lines).encode()).hexdigest()


@dataclass
class Failure:
    kind: str  # "oracle" | "diff" | "crash"
    scenario: Scenario
    index: int  # index of the line at which it was detected
    message: str
    expected: str | None = None  # model output
    observed: str | None = None  # implementation output
    site: str = ""  # short key used for known-finding matching


# --------------------------------------------------------------------------- Lean side
def run(cmd, cwd=None, timeout=3600, input_text=None):
    return subprocess.run(
        cmd, cwd=cwd, timeout=timeout, input=input_text, capture_output=True, text=True, check=False
    )


def lean_build(targets: list[str]) -> tuple[bool, str]:
    r = run(["lake", "build"] + targets, cwd=LEAN_DIR)
    return r.returncode == 0, (r.stdout + r.stderr)[-4000:]


def forbidden_tokens(module_files: list[str]) -> list[str]:
    hits = []
    for path in module_files:
        in_block = 0
        with open(path, encoding="utf-8") as f:
            for n, raw in enumerate(f, 1):
                line = raw
                # strip block comments (non-nested handling is enough for our sources) and line comments
                out = ""
                i = 0
                while i < len(line):
                    if line.startswith("/-", i):
                        in_block += 1
                        i += 2
                    elif line.startswith("-/", i) and in_block:
                        in_block -= 1
                        i += 2
                    elif in_block:
                        i += 1
                    elif line.startswith("--", i):
                        break
                    else:
                        out += line[i]
                        i += 1
                if FORBIDDEN.search(out):
                    hits.append(f"{os.path.relpath(path, VERIF)}:{n}: {raw.strip()}")
    return hits


def lean_sources() -> list[str]:
    res = []
    for root, _dirs, files in os.walk(LEAN_DIR):
        if ".lake" in root:
            continue
        for fn in files:
            if fn.endswith(".lean"):
                res.append(os.path.join(root, fn))
    return sorted(res)


def lean_audit(module: str, theorems: list[str]) -> dict:
    """Checks every theorem exists in the compiled module and depends only on the allowed axioms."""
    audit_dir = os.path.join(LEAN_DIR, ".lake", "audit")
    os.makedirs(audit_dir, exist_ok=True)
    # one scratch file per process: several checks share a module and may run at the same time
    path = os.path.join(audit_dir, f"{module.replace('.', '_')}_{os.getpid()}.lean")
    with open(path, "w", encoding="utf-8") as f:
        f.write(f"import {module}\n")
        for t in theorems:
            f.write(f"#print axioms {t}\n")
    r = run(["lake", "env", "lean", path], cwd=LEAN_DIR)
    try:
        os.remove(path)
    except OSError:
        pass
    text = r.stdout + r.stderr
    result = {}
    # messages look like: 'JS.thm' depends on axioms: [propext, Quot.sound]   or   'JS.thm' does not depend on any axioms
    flat = re.sub(r"\s+", " ", text)
    for t in theorems:
        m = re.search(r"'" + re.escape(t) + r"' depends on axioms: \[([^\]]*)\]", flat)
        if m:
            axs = {a.strip() for a in m.group(1).split(",") if a.strip()}
            result[t] = {"found": True, "axioms": sorted(axs), "ok": axs <= ALLOWED_AXIOMS}
        elif re.search(r"'" + re.escape(t) + r"' does not depend on any axioms", flat):
            result[t] = {"found": True, "axioms": [], "ok": True}
        else:
            result[t] = {"found": False, "axioms": [], "ok": False}
    return {"returncode": r.returncode, "theorems": result, "log": text[-3000:] if r.returncode else ""}


def run_model(lines: list[str]) -> list[str]:
    """Runs the compiled Lean driver (or `lean --run` when the exe is missing) on the command lines."""
    text = "\n".join(lines) + "\n"
    if os.path.exists(DRIVER):
        r = run([DRIVER], input_text=text)
    else:
        r = run(["lake", "env", "lean", "--run", "Driver.lean"], cwd=LEAN_DIR, input_text=text)
    if r.returncode != 0:
        raise RuntimeError("model driver failed: " + r.stderr[-2000:])
    out = r.stdout.split("\n")
    if out and out[-1] == "":
        out.pop()
    return out


# --------------------------------------------------------------------------- executing scenarios
class PropertyCheck:
    """Base class; each property module subclasses it."""

    ID = "C00"
    LEAN_MODULE = "JobShopProofs.Properties.C00"
    THEOREMS: list[str] = []
    DESCRIPTION = ""
    RULE = ""
    ASSUMPTIONS: list[str] = []
    QUICK_N = 300
    THOROUGH_N = 6000
    SEARCH_FACTOR = 10

    # ----- to override
    def make_impl(self, scenario: Scenario):
        from impl import Impl
        return Impl(scenario.meta.get("filter_style", "callable"))

    def generate(self, rng, n: int, tier: str):
        raise NotImplementedError

    def oracle(self, impl, scenario: Scenario, index: int, line: str, out: str, ctx: dict) -> list[tuple[str, str]]:
        """Independent check of the property on the real objects after one command.
        Returns a list of (site, message)."""
        return []

    def compare(self, line: str) -> bool:
        """Whether the reply to this command is part of the correspondence for this property."""
        return True

    def nontrivial(self, scenario: Scenario, outs: list[str]) -> bool:
        return sum(1 for o in outs if o.startswith("ok ")) >= 3

    def corpus(self) -> list[Scenario]:
        res = []
        if os.environ.get("VERIF_NO_CORPUS"):      # only used while (re)building the corpus itself
            return res
        d = os.path.join(VERIF, "corpus", self.ID)
        if os.path.isdir(d):
            for fn in sorted(os.listdir(d)):
                if fn.endswith(".scn"):
                    with open(os.path.join(d, fn), encoding="utf-8") as f:
                        lines = [l.rstrip("\n") for l in f if l.strip() and not l.startswith("#")]
                    res.append(Scenario(lines, {"corpus": fn}))
                elif fn.endswith(".json"):
                    # a minimised failing input of a seeded change (scenario lines + the meta its oracle needs)
                    with open(os.path.join(d, fn), encoding="utf-8") as f:
                        payload = json.load(f)
                    meta = dict(payload.get("meta", {}))
                    meta["corpus"] = fn
                    res.append(Scenario(list(payload["lines"]), meta))
        return res

    def distribution(self, scenario: Scenario, outs: list[str], counters: dict):
        for line, out in zip(scenario.lines, outs):
            cmd = line.split(" ", 1)[0]
            counters["events." + cmd] = counters.get("events." + cmd, 0) + 1
            if out.startswith("raise"):
                counters["raised." + cmd] = counters.get("raised." + cmd, 0) + 1
        for k, v in scenario.meta.items():
            if isinstance(v, (str, bool, int)) and k not in ("seed",):
                key = f"meta.{k}={v}"
                counters[key] = counters.get(key, 0) + 1

    # ----- machinery
    def run_impl(self, scenario: Scenario) -> tuple[list[str], list[Failure]]:
        import impl as _impl_mod
        _impl_mod.REUSE_OPERATIONS = bool(scenario.meta.get("reuse_ops"))
        # one scenario in six (chosen by its text; never a corpus entry): a SIBLING dispatcher on another instance with the same
        # operation ids is kept busy in the same process between the scenario's commands - nothing of it may leak
        import zlib as _zlib
        # one scenario in eight: the operations are instances of a user subclass carrying data of its own (release dates, due dates,
        # weights, ...) that is none of the library's business
        _impl_mod.OP_SUBCLASS = bool(scenario.meta.get("op_subclass", "corpus" not in scenario.meta and
                                                       _zlib.crc32("\n".join(scenario.lines[:40]).encode()) % 8 == 3))
        _impl_mod.SIBLING = bool(scenario.meta.get("sibling", "corpus" not in scenario.meta and
                                                   _zlib.crc32("\n".join(scenario.lines[:40]).encode()) % 6 == 0))
        # one scenario in eight: the instance is a renamed copy `JobShopInstance(base.jobs, name=..., set_operation_attributes=False)` of an
        # instance that labelled the operations before (a legal, rarely used way to build an instance)
        _impl_mod.PRELABELLED = bool(scenario.meta.get("prelabelled", "corpus" not in scenario.meta and
                                                       _zlib.crc32("\n".join(scenario.lines[:40]).encode()) % 8 == 5))
        # (recorded, so that a replay or a corpus entry runs in the same mode)
        scenario.meta.update({"op_subclass": _impl_mod.OP_SUBCLASS, "sibling": _impl_mod.SIBLING, "prelabelled": _impl_mod.PRELABELLED})
        impl = self.make_impl(scenario)
        outs: list[str] = []
        fails: list[Failure] = []
        ctx: dict = {}
        # the line sent to the model may carry data only the implementation run produces (e.g. a solver's solution)
        scenario.model_lines = []
        for i, line in enumerate(scenario.lines):
            try:
                out = impl.exec(line)
            except Exception as e:  # pylint: disable=broad-except
                out = f"crash {type(e).__name__}: {e}"
                fails.append(Failure("crash", scenario, i, out + "\n" + traceback.format_exc(limit=4), site="crash"))
            outs.append(out)
            # inconsistencies the interpreter itself establishes on the real objects (a deep copy whose bookkeeping contradicts its own
            # schedule, the busy sibling dispatcher failing, a refused constructor that left a subscriber behind, a chart the caller holds
            # changing under it): failing inputs for whichever property is being checked
            if out.startswith(("copy-inconsistent", "copy-raised", "sibling-error", "raise-after-subscribe", "held-chart-changed")):
                fails.append(Failure("oracle", scenario, i, f"`{line}`: {out[:400]}", observed=out, site="harness:" + out.split(" ", 1)[0]))
            ml = getattr(impl, "model_line", None)
            scenario.model_lines.append(ml(line) if ml else line)
            try:
                for site, msg in self.oracle(impl, scenario, i, line, out, ctx):
                    fails.append(Failure("oracle", scenario, i, msg, observed=out, site=site))
            except Exception as e:  # pylint: disable=broad-except
                fails.append(Failure("oracle", scenario, i,
                                     f"oracle could not evaluate: {type(e).__name__}: {e}\n" + traceback.format_exc(limit=4),
                                     observed=out, site="oracle-exception"))
        return outs, fails

    def diff(self, scenario: Scenario, impl_outs: list[str], model_outs: list[str]) -> list[Failure]:
        res = []
        for i, line in enumerate(scenario.lines):
            if not self.compare(line):
                continue
            a = impl_outs[i] if i < len(impl_outs) else "<missing>"
            b = model_outs[i] if i < len(model_outs) else "<missing>"
            if a != b:
                res.append(Failure("diff", scenario, i, f"model and implementation differ at `{line}`",
                                   expected=b, observed=a, site="corr:" + line.split(" ", 2)[0]))
                break
        return res

    def evaluate(self, scenarios: list[Scenario], counters: dict | None = None):
        """Runs scenarios on impl and model. Returns (oracle_failures, diffs, stats)."""
        all_lines: list[str] = []
        impl_results = []
        oracle_fails: list[Failure] = []
        for scn in scenarios:
            outs, fails = self.run_impl(scn)
            impl_results.append(outs)
            oracle_fails.extend(fails)
            all_lines.extend(getattr(scn, "model_lines", None) or scn.lines)
        model_all = run_model(all_lines) if all_lines else []
        diffs: list[Failure] = []
        pos = 0
        distinct = set()
        nontrivial = 0
        for scn, outs in zip(scenarios, impl_results):
            m = model_all[pos:pos + len(scn.lines)]
            pos += len(scn.lines)
            diffs.extend(self.diff(scn, outs, m))
            k = scn.key()
            if k not in distinct:
                distinct.add(k)
                if self.nontrivial(scn, outs):
                    nontrivial += 1
            if counters is not None:
                self.distribution(scn, outs, counters)
        return oracle_fails, diffs, {"distinct": len(distinct), "nontrivial": nontrivial,
                                     "events": len(all_lines)}

    def still_fails(self, scn: Scenario, kind: str, site: str) -> bool:
        try:
            ofs, dfs, _ = self.evaluate([scn])
        except Exception:  # pylint: disable=broad-except
            return False
        pool = ofs if kind in ("oracle", "crash") else dfs
        return any(f.site == site for f in pool)

    def shrink(self, failure: Failure, budget: int = 150) -> Failure:
        if os.environ.get("VERIF_NO_SHRINK"):      # corpus building keeps the scenario as generated (well-formed)
            return failure
        scn = failure.scenario
        lines = list(scn.lines[: failure.index + 1])
        # only EVENT lines are candidates for removal: set-up lines, markers and the probes the oracles key on stay, so that a
        # reduced scenario is still a well-formed scenario of the property's slice (a reduction that makes the oracle fail
        # for another reason would not be a replay of this failure)
        removable = ("disp ", "estep ", "eauto ", "mauto ", "edisp ", "rule ", "scores ", "flt ", "q ", "unsub ", "resub ",
                     "cog", "solve ", "eq", "frames ", "fname ", "bars", "ticks ", "graph ", "gen ", "jobseq ", "cpsolve")
        protected = lambda l: not l.startswith(removable)  # noqa: E731
        changed = True
        tries = 0
        while changed and tries < budget:
            changed = False
            i = len(lines) - 2  # never drop the failing line itself first
            while i >= 0 and tries < budget:
                if not protected(lines[i]):
                    cand = lines[:i] + lines[i + 1:]
                    tries += 1
                    if self.still_fails(Scenario(cand, scn.meta), failure.kind, failure.site):
                        lines = cand
                        changed = True
                i -= 1
        small = Scenario(lines, dict(scn.meta))
        ofs, dfs, _ = self.evaluate([small])
        pool = ofs if failure.kind in ("oracle", "crash") else dfs
        for f in pool:
            if f.site == failure.site:
                return f
        return failure


# --------------------------------------------------------------------------- known findings
def load_known_findings() -> list[dict]:
    res = []
    path = os.path.join(VERIF, "KNOWN_FINDINGS.txt")
    if not os.path.exists(path):
        return res
    with open(path, encoding="utf-8") as f:
        for line in f:
            line = line.strip()
            if not line or line.startswith("#"):
                continue
            m = re.match(r"open:\s+property=(\S+)\s+key=(\S+)\s+::\s+(.*)$", line)
            if m:
                res.append({"status": "open", "property": m.group(1), "key": m.group(2), "what": m.group(3)})
    return res


# --------------------------------------------------------------------------- main
def write_replay(prop: str, name: str, payload: dict) -> str:
    d = os.path.join(VERIF, "replays")
    os.makedirs(d, exist_ok=True)
    path = os.path.join(d, f"{prop}_{name}.json")
    with open(path, "w", encoding="utf-8") as f:
        json.dump(payload, f, indent=1)
    return os.path.relpath(path, VERIF)


def failure_payload(check: PropertyCheck, f: Failure, extra: dict | None = None) -> dict:
    try:
        model = run_model(f.scenario.lines)
    except Exception as e:  # pylint: disable=broad-except
        model = [f"<model error {e}>"]
    try:
        impl_outs, _ = check.run_impl(f.scenario)
    except Exception as e:  # pylint: disable=broad-except
        impl_outs = [f"<impl error {e}>"]
    p = {
        "property": check.ID,
        "kind": f.kind,
        "site": f.site,
        "message": f.message,
        "failing_line_index": f.index,
        "scenario": f.scenario.lines,
        "scenario_meta": {k: v for k, v in f.scenario.meta.items() if isinstance(v, (str, int, bool, list))},
        "implementation_replies": impl_outs,
        "model_replies": model,
        "how_to_replay": f"cd /verif && ./check {check.ID} --replay <this file>",
    }
    if extra:
        p.update(extra)
    return p


def main(check: PropertyCheck, argv: list[str]) -> int:
    import random
    t0 = time.time()
    tier = os.environ.get("VERIF_TIER", "quick")
    replay = None
    args = list(argv)
    while args:
        a = args.pop(0)
        if a == "--tier":
            tier = args.pop(0)
        elif a == "--replay":
            replay = args.pop(0)
    seed = int(os.environ.get("VERIF_SEED", "0"))
    rng = random.Random(f"{check.ID}-{seed}")
    n = check.QUICK_N if tier == "quick" else check.THOROUGH_N

    if replay:
        with open(replay, encoding="utf-8") as f:
            payload = json.load(f)
        scn = Scenario(payload["scenario"], payload.get("scenario_meta", {}))
        ofs, dfs, _ = check.evaluate([scn])
        for f_ in ofs + dfs:
            print(f"replay: {f_.kind} at line {f_.index} `{scn.lines[f_.index]}`: {f_.message}"
                  + (f" expected(model)={f_.expected} observed(impl)={f_.observed}" if f_.kind == "diff" else ""))
        if not ofs and not dfs:
            print("replay: no failure reproduced")
            return 0
        return 1

    problems: list[str] = []  # proof-side problems
    # ---- 1. Lean build + audit
    ok, log = lean_build([check.LEAN_MODULE, "driver"])
    if not ok:
        problems.append("lake build failed: " + log[-1500:])
    audit = {"theorems": {}}
    if ok:
        audit = lean_audit(check.LEAN_MODULE, check.THEOREMS)
        for t, info in audit["theorems"].items():
            if not info["found"]:
                problems.append(f"theorem {t} not found in {check.LEAN_MODULE}")
            elif not info["ok"]:
                problems.append(f"theorem {t} depends on non-standard axioms {info['axioms']}")
    hits = forbidden_tokens(lean_sources())
    if hits:
        problems.append("forbidden tokens in Lean sources: " + "; ".join(hits[:5]))
    if tier == "thorough" and ok:
        r = run(["lake", "env", "leanchecker", check.LEAN_MODULE], cwd=LEAN_DIR, timeout=3000)
        if r.returncode != 0:
            problems.append("leanchecker rejected the module: " + (r.stdout + r.stderr)[-800:])
    obligations = len(check.THEOREMS)
    discharged = sum(1 for t in check.THEOREMS if audit["theorems"].get(t, {}).get("ok")) if not hits and ok else 0

    # ---- 2. scenarios
    counters: dict = {}
    scenarios = check.corpus() + list(check.generate(rng, n, tier))
    oracle_fails, diffs, stats = check.evaluate(scenarios, counters)

    known = [k for k in load_known_findings() if k["property"] == check.ID]
    known_hit: dict[str, Failure] = {}
    new_fails = []
    for f_ in oracle_fails:
        k = next((k for k in known if k["key"] == f_.site), None)
        if k is not None:
            known_hit.setdefault(k["key"], f_)
        else:
            new_fails.append(f_)

    violation_line = None
    searched = 0
    if new_fails:
        f_ = check.shrink(new_fails[0])
        path = write_replay(check.ID, "failing_input", failure_payload(check, f_))
        violation_line = f"VIOLATION property={check.ID} replay={path}"
        print(f"violated: {f_.message}")
    elif diffs or problems:
        # ---- 4. failing-input search
        found = None
        check.in_search = True      # generators may focus on what the property's oracle can judge
        for extra_seed in range(1, check.SEARCH_FACTOR + 1):
            rng2 = random.Random(f"{check.ID}-{seed}-search-{extra_seed}")
            batch = list(check.generate(rng2, n, tier))
            seeds_first = [d.scenario for d in diffs][:20] if extra_seed == 1 else []
            ofs, _dfs, _ = check.evaluate(seeds_first + batch)
            searched += len(batch) + len(seeds_first)
            ofs = [f for f in ofs if not any(k["key"] == f.site for k in known)]
            if ofs:
                found = ofs[0]
                break
        if found is not None:
            f_ = check.shrink(found)
            path = write_replay(check.ID, "failing_input", failure_payload(check, f_))
            violation_line = f"VIOLATION property={check.ID} replay={path}"
            print(f"violated: {f_.message}")
        else:
            if diffs:
                d = check.shrink(diffs[0])
                payload = failure_payload(check, d, {
                    "no_longer_checks": f"correspondence slice of {check.ID}: command `{d.scenario.lines[d.index]}`"
                                        f" — model replies `{d.expected}`, implementation replies `{d.observed}`",
                    "proof_problems": problems,
                    "failing_input_search": f"{searched} further scenarios, property oracle never failed",
                })
            else:
                payload = {"property": check.ID, "kind": "proof", "no_longer_checks": problems,
                           "failing_input_search": f"{searched} scenarios, property oracle never failed"}
            path = write_replay(check.ID, "unproved", payload)
            violation_line = f"VIOLATION property={check.ID} replay={path} no-failing-input-found"

    for key, f_ in known_hit.items():
        k = next(k for k in known if k["key"] == key)
        print(f"KNOWN-FINDING: property={check.ID} {k['what']}")

    # ---- 5. evidence
    samples = []
    for scn in scenarios[:400]:
        if len(samples) >= 3:
            break
        if len(scn.lines) >= 4:
            samples.append({"scenario": scn.lines[:40], "meta": {k: v for k, v in scn.meta.items()
                                                                if isinstance(v, (str, int, bool, list))}})
    evidence = {
        "property_id": check.ID,
        "tier": tier,
        "seed": seed,
        "level": "proof",
        "coverage": {
            "obligations": obligations,
            "discharged": discharged,
            "checker_cmd": f"cd lean && lake build {check.LEAN_MODULE} && lake env lean <scratch file importing the module with one "
                           f"`#print axioms` line per property theorem>"
                           + ("; lake env leanchecker " + check.LEAN_MODULE if tier == "thorough" else ""),
            "trusted_base": TRUSTED_BASE + check.ASSUMPTIONS,
            "theorems": audit["theorems"],
            "evaluations": len(scenarios),
            "distinct_nontrivial": stats["nontrivial"],
            "distinct": stats["distinct"],
            "events": stats["events"],
            "rule": check.RULE,
            "samples": samples,
            "traces_validated_against_impl": len(scenarios),
            "correspondence_diffs": len(diffs),
            "oracle_failures": len(new_fails),
            "known_findings_hit": sorted(known_hit),
            "failing_input_search_scenarios": searched,
            "distribution": dict(sorted(counters.items())),
            "exhaustive": False,
        },
        "assumptions": check.ASSUMPTIONS,
        "wall_s": round(time.time() - t0, 2),
        "violations": 1 if violation_line else 0,
    }
    evidence["coverage"].update(getattr(check, "extra_coverage", {}))
    os.makedirs(os.path.join(VERIF, "evidence"), exist_ok=True)
    with open(os.path.join(VERIF, "evidence", check.ID + ".json"), "w", encoding="utf-8") as f:
        json.dump(evidence, f, indent=1)

    print(f"{check.ID}: tier={tier} seed={seed} theorems={discharged}/{obligations} scenarios={len(scenarios)} "
          f"nontrivial={stats['nontrivial']} events={stats['events']} diffs={len(diffs)} "
          f"oracle_failures={len(new_fails)} wall={evidence['wall_s']}s")
    if violation_line:
        print(violation_line)
        return 1
    return 0


if __name__ == "__main__":
    sys.exit(2)

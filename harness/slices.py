"""Scenario builders shared by several properties."""
from __future__ import annotations

import random

import gen
from framework import Scenario
from impl import instance_line

QUERIES0 = ["current_time", "available", "raw_ready", "unscheduled", "scheduled", "uncompleted", "completed",
            "available_machines", "available_jobs", "ongoing", "makespan", "is_complete", "num_scheduled"]


def num_machines_of(jobs) -> int:
    return 1 + max(m for job in jobs for ms, _ in job for m in ms)


def dispatch_scenario(rng: random.Random, *, family=None, with_invalid=True, stop_early=True,
                      replay=False, queries=False, max_jobs=4, max_machines=4, max_ops=4,
                      flt="random", huge=True, observers=False, peeks=False) -> Scenario:
    """new / inst / filter / a random valid dispatch history with `snap` after every accepted dispatch,
    invalid requests injected at random positions, optionally reset + replay of the accepted history."""
    family, jobs = gen.gen_instance(rng, family, max_jobs=max_jobs, max_machines=max_machines, max_ops=max_ops)
    if huge and rng.random() < 0.05:
        jobs, family = gen.make_huge(rng, jobs), family + "+huge"
    f = gen.gen_filter(rng) if flt == "random" else flt
    style = rng.choice(["uniform", "uniform", "one_job_first", "last_job_first"])
    lines = ["new", instance_line(jobs), gen.filter_line(f)]
    with_observers = False
    if observers and rng.random() < 0.25 and max(d for job in jobs for _, d in job) < 2 ** 24:
        # observers that read (and must not write) the dispatcher from inside their callbacks are subscribed
        obs_lines = [f"fres {rng.choice(['disjunctive', 'agent_task', 'agent_task_jobs', 'complete_agent_task'])} 1 1"] \
            if rng.random() < 0.5 else []
        for k in rng.sample(["is_completed -", "is_scheduled -", "is_ready -", "earliest_start_time -", "duration -",
                             "remaining_operations -", "position_in_job -"], rng.randint(1, 3)):
            obs_lines.append("fobs " + k)
        lines += obs_lines
        with_observers = True
    tr = gen.Tracker(jobs)
    M = num_machines_of(jobs)
    total = gen.num_ops(jobs)
    stop_at = total if (not stop_early or rng.random() < 0.7) else rng.randint(0, total)
    accepted = []
    n_invalid = 0
    lines.append("snap")
    while len(accepted) < stop_at:
        if with_invalid and rng.random() < 0.25:
            bad = gen.gen_invalid_request(rng, tr, M)
            if bad is not None:
                j, p, m, _kind = bad
                lines.append(f"disp {j} {p} {m}")
                lines.append("snap")
                n_invalid += 1
        if peeks and rng.random() < 0.05:
            # the library's instance transformations are applied to the instance under test (they return NEW instances; results dropped)
            lines.append("xform")
            lines.append("snap")
        if peeks and "+huge" not in family and rng.random() < (0.12 if gen.has_zero(jobs) else 0.02):
            # (not with times beyond 2**63: matplotlib / numpy cannot hold them - a limit of the drawing library, see C20)
            # the caller looks at the schedule being built (a Gantt chart of the live schedule, thrown away)
            lines.append("draw")
            lines.append("snap")
        if peeks and rng.random() < 0.05:
            lines.append("reseat")
            lines.append("snap")
        if peeks and rng.random() < 0.06:
            # the caller annotates the dispatcher's schedule (a dict of its own) the way the library's solvers annotate their results
            lines.append("stamp")
            lines.append("snap")
        if peeks and rng.random() < 0.12:
            # a look-ahead: some request (valid, or not) is tried on a deep copy of the dispatcher; the original goes on undisturbed
            pj, pp, pm = gen.gen_valid_request(rng, tr, "uniform")
            if rng.random() < 0.2:
                pp = pp + 1
            lines.append(f"peek {pj} {pp} {pm}")
            lines.append("snap")
        j, p, m = gen.gen_valid_request(rng, tr, style)
        tr.take(j)
        accepted.append((j, p, m))
        lines.append(f"disp {j} {p} {m}")
        lines.append("snap")
        lines.append("q is_complete")
        if queries and rng.random() < 0.5:
            for q in rng.sample(QUERIES0, rng.randint(1, 4)):
                lines.append("q " + q)
    if with_invalid and rng.random() < 0.5:
        bad = gen.gen_invalid_request(rng, tr, M)
        if bad is not None:
            lines.append(f"disp {bad[0]} {bad[1]} {bad[2]}")
            lines.append("snap")
            n_invalid += 1
    lines.append("q makespan")
    lines.append("q num_scheduled")
    if peeks and rng.random() < 0.5:
        lines.append("stamp")
    if replay:
        lines.append("reset")
        lines.append("snap")
        for j, p, m in accepted:
            lines.append(f"disp {j} {p} {m}")
        lines.append("snap")
    if replay and rng.random() < 0.5:
        # one more episode with a DIFFERENT history, nothing read until it is complete
        lines.append("reset")
        tr.reset()
        while not tr.done():
            j, p, m = gen_valid = gen.gen_valid_request(rng, tr, rng.choice(["uniform", "last_job_first"]))
            tr.take(j)
            lines.append(f"disp {j} {p} {m}")
        lines += ["q makespan", "q num_scheduled", "snap"]
    meta = {"family": family, "filter": "none" if f is None else "+".join(f) or "empty-composite",
            "style": style, "flexible": gen.is_flexible(jobs), "zero_dur": gen.has_zero(jobs),
            "accepted": len(accepted), "invalid": n_invalid, "complete": len(accepted) == total, "observers": with_observers,
            "filter_style": rng.choice(["callable", "enum", "str", "lazy"]),
            # one in eight: the instance is built from Operation objects that an earlier instance (other job structure) used
            "reuse_ops": rng.random() < 0.125}
    return Scenario(lines, meta)


def abandoned_prelude(rng, jobs) -> list[str]:
    """An episode that is started, looked at (the clock, the available operations: whatever the dispatcher memoises for them) and
    abandoned with `reset` before it is complete: the episode that follows is an episode like the first."""
    tr = gen.Tracker(jobs)
    lines = []
    for _ in range(rng.randint(1, max(1, gen.num_ops(jobs) - 1))):
        if tr.done():
            break
        j, p, m = gen.gen_valid_request(rng, tr, rng.choice(["uniform", "one_job_first"]))
        tr.take(j)
        lines.append(f"disp {j} {p} {m}")
        if rng.random() < 0.3:
            lines.append("q current_time")
    lines += rng.sample(["q current_time", "q available", "q available_machines", "q available_jobs"], rng.randint(1, 3))
    lines.append("reset")
    return lines


def exhaustive_small(kind: str):
    """Exhaustive small scope (thorough tier, supporting evidence): EVERY instance with <= 2 jobs x <= 2 operations on 2
    machines with durations in {0, 1, 2} (single-machine operations), EVERY complete interleaving of its jobs, probed
    after every dispatch with the lines the property's oracle judges.  `kind` selects the probes."""
    probes = {
        "snap": ["snap", "q is_complete"],
        "queries": ["q " + q for q in QUERIES0],
        "time": ["q current_time", "q completed"],
    }[kind]
    for jobs in gen.all_small_instances():
        for hist in gen.all_histories(jobs):
            lines = ["new", instance_line(jobs), gen.filter_line(None)] + probes
            idx = [0] * len(jobs)
            for j in hist:
                lines.append(f"disp {j} {idx[j]} {jobs[j][idx[j]][0][0]}")
                idx[j] += 1
                lines += probes
            lines += ["q makespan", "q num_scheduled"]
            yield Scenario(lines, {"family": "exhaustive_small", "filter": "none", "style": "exhaustive",
                                   "flexible": False, "zero_dur": gen.has_zero(jobs), "accepted": len(hist),
                                   "invalid": 0, "complete": True, "filter_style": "callable"})


def zero_first_scenario(rng: random.Random) -> Scenario:
    """Every job opens with a zero-duration operation; some of those are dispatched (all clocks still at 0, makespan 0), the
    dispatcher is reset, and a full episode follows on the same dispatcher."""
    family, jobs = gen.gen_instance(rng, rng.choice(["classic", "irregular", "recirc", "flexible"]), max_jobs=4, max_machines=3, max_ops=3)
    jobs = [[(job[0][0], 0)] + list(job[1:]) for job in jobs]
    f = gen.gen_filter(rng)
    lines = ["new", instance_line(jobs), gen.filter_line(f), "snap"]
    tr = gen.Tracker(jobs)
    firsts = [j for j in range(len(jobs))]
    rng.shuffle(firsts)
    for j in firsts[:rng.randint(1, len(firsts))]:
        m = rng.choice(jobs[j][0][0])
        tr.take(j)
        lines += [f"disp {j} 0 {m}", "snap", "q is_complete"]
        if rng.random() < 0.5 and not tr.done():
            pj, pp, pm = gen.gen_valid_request(rng, tr)
            lines += [f"peek {pj} {pp} {pm}", "snap"]       # a copy taken right after zero-duration operations (ties everywhere)
    lines += ["reset", "snap", "q num_scheduled"]
    tr.reset()
    n_acc = 0
    while not tr.done():
        j, p, m = gen.gen_valid_request(rng, tr)
        tr.take(j)
        n_acc += 1
        lines += [f"disp {j} {p} {m}", "snap", "q is_complete"]
        if rng.random() < 0.3 and not tr.done():
            pj, pp, pm = gen.gen_valid_request(rng, tr)
            lines += [f"peek {pj} {pp} {pm}", "snap"]
    lines += ["q makespan", "q num_scheduled"]
    return Scenario(lines, {"family": family + "+zero_first", "filter": "none" if f is None else "+".join(f) or "empty-composite",
                            "style": "zero_first", "flexible": gen.is_flexible(jobs), "zero_dur": True, "accepted": n_acc,
                            "invalid": 0, "complete": True, "filter_style": rng.choice(["callable", "enum", "str", "lazy"])})


def stale_ready_scenario(rng: random.Random) -> Scenario:
    """An unfinished episode in which the user asks whether operations are ready (some beyond the first position are), a reset,
    and then requests for exactly those operations - not ready any more: rejected, nothing changes - before a full episode."""
    family, jobs = gen.gen_instance(rng, rng.choice(["classic", "irregular", "recirc", "flexible", "ties"]), max_jobs=4, max_machines=3,
                                    max_ops=4)
    f = gen.gen_filter(rng)
    lines = ["new", instance_line(jobs), gen.filter_line(f), "snap"]
    tr = gen.Tracker(jobs)
    base = [0]
    for job in jobs:
        base.append(base[-1] + len(job))
    total = gen.num_ops(jobs)
    for _ in range(rng.randint(1, max(1, total - 1))):
        if tr.done():
            break
        j, p, m = gen.gen_valid_request(rng, tr, rng.choice(["uniform", "one_job_first"]))
        tr.take(j)
        lines += [f"disp {j} {p} {m}", "snap"]
    asked = []
    for j, p in tr.ready():
        if rng.random() < 0.8:
            lines.append(f"ready {base[j] + p}")
            asked.append((j, p))
    for _ in range(rng.randint(0, 2)):
        lines.append(f"ready {rng.randrange(total)}")
    lines += ["reset", "snap"]
    tr.reset()
    n_inv = 0
    for j, p in asked:
        if p >= 1:
            lines += [f"disp {j} {p} {rng.choice(jobs[j][p][0])}", "snap"]
            n_inv += 1
    n_acc = 0
    while not tr.done():
        j, p, m = gen.gen_valid_request(rng, tr)
        tr.take(j)
        n_acc += 1
        lines += [f"disp {j} {p} {m}", "snap", "q is_complete"]
    lines += ["q makespan", "q num_scheduled"]
    return Scenario(lines, {"family": family + "+stale_ready", "filter": "none" if f is None else "+".join(f) or "empty-composite",
                            "style": "stale_ready", "flexible": gen.is_flexible(jobs), "zero_dur": gen.has_zero(jobs), "accepted": n_acc,
                            "invalid": n_inv, "complete": True, "filter_style": rng.choice(["callable", "enum", "str", "lazy"])})

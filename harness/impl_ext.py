"""Extensions of the interpreter used by individual properties (observers, rules, ...)."""
from __future__ import annotations

import jsl
from impl import Impl, lst


class ImplExt(Impl):
    def _new_dispatcher(self):
        super()._new_dispatcher()
        self.unsched_observer = None

    def cmd_q(self, ts):
        if ts[0] == "unsched_observer":
            if self.unsched_observer is None:
                self.unsched_observer = self.dispatcher.create_or_get_observer(jsl.UnscheduledOperationsObserver)
            return lst(o.operation_id for o in self.unsched_observer.unscheduled_operations)
        return super().cmd_q(ts)


# ----------------------------------------------------------------------------------- observers (world)
from job_shop_lib.reinforcement_learning import MakespanReward, IdleTimeReward  # noqa: E402
from impl import fmt_sop  # noqa: E402


def fmt_snapshot(d) -> str:
    sch = " | ".join(" ".join(fmt_sop(x) for x in ms) for ms in d.schedule.schedule)
    un = " ".join(str(o.operation_id) for o in d.unscheduled_operations())
    return (f"<{sch} ; {' '.join(map(str, d.machine_next_available_time))} ; "
            f"{' '.join(map(str, d.job_next_operation_index))} ; {' '.join(map(str, d.job_next_available_time))} ; "
            f"{d.current_time()} ; {un}>")


class Recorder(jsl.DispatcherObserver):
    """Test observer: logs every call it receives with a snapshot of what the dispatcher shows then."""
    _is_singleton = False

    def __init__(self, dispatcher, *, subscribe=True, trace=None, rid=None, tag=0):
        super().__init__(dispatcher, subscribe=subscribe)
        self.tag = tag
        self.log = []
        self.trace = trace if trace is not None else []
        self.rid = rid

    def __len__(self):
        # a user observer that is also a container of what it saw: falsy while it has seen nothing (the library has to tell
        # "no observer" from "an observer that is empty")
        return len(self.log)

    def update(self, scheduled_operation):
        self.log.append(f"U {fmt_sop(scheduled_operation)} {fmt_snapshot(self.dispatcher)}")
        self.trace.append(f"{self.rid}:U{scheduled_operation.operation.operation_id}")
        self._inside_check(f"update({scheduled_operation.operation.operation_id})")

    def reset(self):
        self.log.append(f"R {fmt_snapshot(self.dispatcher)}")
        self.trace.append(f"{self.rid}:R")
        self._inside_check("reset()")

    def _inside_check(self, where):
        """Recorders with tag 2 ask the dispatcher's queries from INSIDE the callback and compare each answer with what the
        schedule they are shown implies (oracles.View: nothing of the dispatcher's tracking vectors or memos); discrepancies
        are left in `world.inside_bad` for the oracle of the check."""
        world = getattr(self, "world", None)
        if world is None or self.tag != 2:
            return
        try:
            self._inside_check_body(world, where)
        except Exception as e:  # pylint: disable=broad-except
            world.inside_bad.append(f"inside {where}: a dispatcher query raised {e!r}")

    def _inside_check_body(self, world, where):
        import oracles
        d = self.dispatcher
        v = oracles.View(d.instance, d.schedule.schedule)
        bad = world.inside_bad
        ft = world.filter_tokens

        def cmp(name, got, want):
            if got != want:
                bad.append(f"inside {where}: {name} = {got}, the schedule shown implies {want}")
        for op in v.unscheduled():
            cmp(f"earliest_start_time(op {op.operation_id})", d.earliest_start_time(op), v.earliest_start(op))
            for m in op.machines:
                cmp(f"start_time(op {op.operation_id}, machine {m})", d.start_time(op, m), v.start(op, m))
            cmp(f"is_operation_ready(op {op.operation_id})", bool(d.is_operation_ready(op)),
                v.next_pos[op.job_id] == op.position_in_job)
        ids = lambda ops: [o.operation_id for o in ops]  # noqa: E731
        cmp("raw_ready_operations()", ids(d.raw_ready_operations()), ids(v.raw_ready()))
        cmp("unscheduled_operations()", ids(d.unscheduled_operations()), ids(v.unscheduled()))
        cmp("scheduled_operations()", sorted(o.operation_id for o in d.scheduled_operations()), sorted(v.sop))
        cmp("available_operations()", ids(d.available_operations()), ids(v.available(ft)))
        cmp("current_time()", d.current_time(), v.now(ft))
        cmp("ongoing_operations()", sorted(x.operation.operation_id for x in d.ongoing_operations()),
            sorted(x.operation.operation_id for x in v.ongoing(ft)))


KINDS = {
    "history": jsl.HistoryObserver,
    "unscheduled": jsl.UnscheduledOperationsObserver,
    "makespan_reward": MakespanReward,
    "idle_reward": IdleTimeReward,
    "recorder": Recorder,
}


SUBCLASSES = {}


class ImplWorld(ImplExt):
    """Interpreter with the observer heap."""

    def _new_dispatcher(self):
        super()._new_dispatcher()
        self.heap = []      # observers by id
        self.kinds = []
        self.trace = []
        self.inside_bad = []

    def cmd_fork(self, ts):
        """From here on the scenario goes on with a COPY of the dispatcher and all its observers (deep copy; `fork pickle`: a pickle round
        trip where everything pickles); the original stays alive and is driven elsewhere (reset, then one dispatch), so that whatever
        the copy still shares with it shows.  A copy is a dispatcher like any other: the model does nothing on `fork`."""
        import copy as _copy
        import pickle as _pickle
        keys = [k for k in ("dispatcher", "instance", "ops", "heap", "fheap", "unsched_observer", "trace") if hasattr(self, k)]
        if "heapfirst" in ts:
            # the checkpoint lists the observers before their dispatcher (a dict the caller filled in that order)
            keys = [k for k in keys if k in ("heap", "fheap")] + [k for k in keys if k not in ("heap", "fheap")]
        state = {k: getattr(self, k) for k in keys}
        recorders = [o for o in state.get("heap", []) if isinstance(o, Recorder)]
        for o in recorders:
            o.world = None
        try:
            new = None
            if ts and ts[0] == "pickle":
                try:
                    new = _pickle.loads(_pickle.dumps(state))
                except Exception:  # pylint: disable=broad-except
                    new = None      # (closures - composite filters - and local classes do not pickle)
            if new is None:
                new = _copy.deepcopy(state)
        except Exception as e:  # pylint: disable=broad-except
            for o in recorders:
                o.world = self
            return f"copy-raised {type(e).__name__}"
        old = self.dispatcher
        for k, v in new.items():
            setattr(self, k, v)
        for o in [o for o in new.get("heap", []) if isinstance(o, Recorder)]:
            o.world = self
        if self.dispatcher is old or self.dispatcher.schedule is old.schedule:
            return "copy-inconsistent the copy is the original"
        try:
            old.reset()
            ready = old.available_operations()
            if ready:
                old.dispatch(ready[-1], ready[-1].machines[-1])
        except Exception as e:  # pylint: disable=broad-except
            return f"sibling-error the original failed after it was copied: {type(e).__name__}"
        return "ok"

    def _register(self, obs, kind, subscribed=True):
        self.heap.append(obs)
        self.kinds.append(kind)
        # the harness's own account of who is subscribed (from the events alone, never read from the dispatcher)
        if not hasattr(self, "sub_state") or len(self.sub_state) != len(self.heap) - 1:
            self.sub_state = [True] * (len(self.heap) - 1)
            self.sub_order = list(range(len(self.heap) - 1))
        self.sub_state.append(subscribed)
        if subscribed:
            self.sub_order.append(len(self.heap) - 1)      # subscription order, from the events alone
        if isinstance(obs, Recorder):
            obs.rid = len(self.heap) - 1
            obs.trace = self.trace
            obs.world = self
        return len(self.heap) - 1

    def _cls(self, kind):
        """The class to construct for a kind.  In `subclass` scenarios a trivial user subclass of the library class is
        constructed (behaviour identical; `create_or_get_observer(Base)` must find it through isinstance) - but only
        while no observer of that kind is subscribed, so that the singleton guard (isinstance of the NEW object's class)
        behaves exactly as for the base class."""
        base = KINDS[kind]
        if not getattr(self, "subclass_mode", False):
            return base
        if any(isinstance(o, base) for o in self.dispatcher.subscribers):
            return base
        return SUBCLASSES.setdefault(kind, type("User" + base.__name__, (base,), {}))

    def cmd_obs(self, ts):
        kind = ts[0]
        cls = self._cls(kind)
        try:
            obs = cls(self.dispatcher, tag=int(ts[1])) if len(ts) > 1 else cls(self.dispatcher)
        except Exception:  # pylint: disable=broad-except
            return "raise"
        return str(self._register(obs, kind))

    def cmd_obsn(self, ts):
        """constructed with subscribe=False: exists, is not subscribed"""
        kind = ts[0]
        try:
            obs = KINDS[kind](self.dispatcher, subscribe=False)
        except Exception:  # pylint: disable=broad-except
            return "raise"
        return str(self._register(obs, kind, subscribed=False))

    def cmd_obsn2(self, ts):
        """constructed with subscribe=False and - if the constructor let it be - subscribed by hand at once"""
        kind = ts[0]
        try:
            obs = KINDS[kind](self.dispatcher, subscribe=False)
        except Exception:  # pylint: disable=broad-except
            return "raise"
        i = self._register(obs, kind, subscribed=False)
        self.dispatcher.subscribe(obs)
        self.sub_state[i] = True
        self.sub_order.append(i)
        return str(i)

    def cmd_cogb(self, ts):
        """create_or_get_observer looked up by the BASE class of the reward observers (whoever of them is subscribed first is the
        answer); only asked while one is subscribed.  What came back is left in `last_cogb` for the oracle; the reply is "ok"."""
        from job_shop_lib.reinforcement_learning import RewardObserver
        self.last_cogb = None
        if not any(isinstance(s_, RewardObserver) for s_ in self.dispatcher.subscribers):
            return "ok"
        try:
            got = self.dispatcher.create_or_get_observer(RewardObserver)
        except Exception as e:  # pylint: disable=broad-except
            self.last_cogb = ("raised", type(e).__name__)
            return "ok"
        first = next(s_ for s_ in self.dispatcher.subscribers if isinstance(s_, RewardObserver))
        self.last_cogb = ("ok", got is first, any(s_ is got for s_ in self.dispatcher.subscribers))
        return "ok"

    def cmd_cog(self, ts):
        kind = ts[0]
        try:
            obs = self.dispatcher.create_or_get_observer(KINDS[kind])
        except Exception:  # pylint: disable=broad-except
            return "raise"
        for i, o in enumerate(self.heap):
            if o is obs:
                return str(i)
        return str(self._register(obs, kind))

    def cmd_cogc(self, ts):
        kind, tag = ts[0], int(ts[1])
        try:
            obs = self.dispatcher.create_or_get_observer(
                KINDS[kind], condition=lambda o: getattr(o, "tag", 0) == tag, tag=tag)
        except Exception:  # pylint: disable=broad-except
            return "raise"
        for i, o in enumerate(self.heap):
            if o is obs:
                return str(i)
        return str(self._register(obs, kind))

    def cmd_cogk(self, ts):
        """create_or_get_observer(Kind, tag=t) without a condition"""
        kind, tag = ts[0], int(ts[1])
        try:
            obs = self.dispatcher.create_or_get_observer(KINDS[kind], tag=tag)
        except Exception:  # pylint: disable=broad-except
            return "raise"
        for i, o in enumerate(self.heap):
            if o is obs:
                return str(i)
        return str(self._register(obs, kind))

    def cmd_unsub(self, ts):
        i = int(ts[0])
        if i >= len(self.heap):
            return "raise"
        try:
            self.dispatcher.unsubscribe(self.heap[i])
        except ValueError:
            return "raise"
        self.sub_state[i] = False
        if i in self.sub_order:
            self.sub_order.remove(i)
        return "ok"

    def cmd_resub(self, ts):
        i = int(ts[0])
        if i >= len(self.heap) or self.sub_state[i]:
            return "raise"  # double subscription is outside the event alphabet (DESIGN C10)
        self.dispatcher.subscribe(self.heap[i])
        self.sub_state[i] = True
        self.sub_order.append(i)
        return "ok"

    def fmt_obs(self, i) -> str:
        o, kind = self.heap[i], self.kinds[i]
        if kind == "history":
            return f"{i}:history " + " ".join(fmt_sop(x) for x in o.history)
        if kind == "unscheduled":
            return f"{i}:unscheduled " + " ".join(lst(op.operation_id for op in dq)
                                                  for dq in o.unscheduled_operations_per_job)
        if kind == "makespan_reward":
            return f"{i}:makespan_reward {' '.join(str(int(r)) for r in o.rewards)} cur {o.current_makespan}"
        if kind == "idle_reward":
            return f"{i}:idle_reward {' '.join(str(int(r)) for r in o.rewards)}"
        if kind == "recorder":
            return f"{i}:recorder " + " ".join(o.log)
        return f"{i}:?"

    def cmd_wsnap(self, ts):
        ids = []
        for s in self.dispatcher.subscribers:
            idx = next((i for i, o in enumerate(self.heap) if o is s), None)
            ids.append("?" if idx is None else str(idx))
        return f"subs {' '.join(ids)} || " + " || ".join(self.fmt_obs(i) for i in range(len(self.heap)))

    def cmd_trace(self, ts):
        return lst(self.trace)


# ----------------------------------------------------------------------------------- rules and solver (C04)
import random as _random  # noqa: E402
import time as _time  # noqa: E402
from job_shop_lib.dispatching import rules as _rules  # noqa: E402

SCORE_FNS = {
    "spt": _rules.shortest_processing_time_score,
    "fcfs": _rules.first_come_first_served_score,
    "mwkr": None,  # a fresh MostWorkRemainingScorer per use
    "mor": _rules.most_operations_remaining_score,
}
RULE_NAMES = {"spt": "shortest_processing_time", "fcfs": "first_come_first_served", "mwkr": "most_work_remaining",
              "mor": "most_operations_remaining", "random": "random"}


def score_fn(name):
    return _rules.MostWorkRemainingScorer() if name == "mwkr" else SCORE_FNS[name]


def make_rule(token):
    if token in RULE_NAMES:
        return _rules.dispatching_rule_factory(RULE_NAMES[token])
    if token == "omwkr":
        return _rules.observer_based_most_work_remaining_rule
    if token.startswith("sb:"):
        return _rules.score_based_rule(score_fn(token[3:]))
    if token.startswith("tb:"):
        return _rules.score_based_rule_with_tie_breaker([score_fn(t) for t in token[3:].split(",") if t])
    raise ValueError(token)


class ScriptedRandom:
    """Replaces random.choice by a scripted stream shared with the model: choice(seq) = seq[draw % len(seq)]."""

    def __init__(self, draws):
        self.draws = list(draws)

    def __enter__(self):
        self._choice = _random.choice

        def choice(seq):
            d = self.draws.pop(0) if self.draws else 0
            return seq[d % len(seq)]
        _random.choice = choice
        return self

    def __exit__(self, *a):
        _random.choice = self._choice


class ImplRules(ImplWorld):
    def cmd_rule(self, ts):
        draws = [int(t) for t in ts[1:]]
        try:
            with ScriptedRandom(draws):
                op = make_rule(ts[0])(self.dispatcher)
        except Exception:  # pylint: disable=broad-except
            return "raise"
        return str(op.operation_id)

    def cmd_scores(self, ts):
        vals = score_fn(ts[0])(self.dispatcher)
        return lst(int(v) for v in vals)

    def cmd_solve(self, ts):
        rule_tok, chooser = ts[0], ts[1]
        draws = [int(t) for t in ts[2:]]
        rule = make_rule(rule_tok)
        log = []
        self.solve_log = []   # for the oracle: (available ids, selected id) per step

        def logged_rule(dispatcher):
            op = rule(dispatcher)
            self.solve_log.append(([o.operation_id for o in dispatcher.available_operations()], op, dispatcher))
            return op

        base_chooser = _rules.machine_chooser_factory(chooser)

        def logged_chooser(dispatcher, op):
            m = base_chooser(dispatcher, op)
            log.append(f"{op.operation_id}:{m}")
            return m
        solver = _rules.DispatchingRuleSolver(dispatching_rule=logged_rule, machine_chooser=logged_chooser,
                                              ready_operations_filter=self._make_filter())
        try:
            with ScriptedRandom(draws):
                schedule = solver.solve(self.instance)
        except Exception:  # pylint: disable=broad-except
            return "raise"
        self.last_schedule = schedule
        return f"ok {' '.join(log)} ; {schedule.makespan()} {fmt_bool_(schedule.is_complete())}"

    def cmd_elapsed(self, ts):
        t0, t1 = int(ts[0]), int(ts[1])
        readings = [t0, t1]
        orig = _time.perf_counter
        _time.perf_counter = lambda: readings.pop(0) if readings else t1
        try:
            solver = _rules.DispatchingRuleSolver(ready_operations_filter=self._make_filter())
            schedule = solver(self.instance)
        finally:
            _time.perf_counter = orig
        self.last_schedule = schedule
        return f"{schedule.metadata['elapsed_time']} {schedule.metadata['solved_by']}"


def fmt_bool_(b):
    return "true" if b else "false"


# ----------------------------------------------------------------------------------- equality (C15)
from impl import parse_instance, build_instance  # noqa: E402


def _split(ts, sep=";"):
    out, cur = [], []
    for t in ts:
        if t == sep:
            out.append(cur)
            cur = []
        else:
            cur.append(t)
    out.append(cur)
    return out


def _op_obj(xs):
    k = xs[0]
    ms = xs[1:1 + k]
    op = jsl.Operation(list(ms) if len(ms) != 1 else ms[0], xs[1 + k])
    op.job_id, op.position_in_job, op.operation_id = xs[2 + k], xs[3 + k], xs[4 + k]
    return op, xs[5 + k:]


def _sched_from_hist(jobs, hist):
    inst = build_instance(jobs)
    d = jsl.Dispatcher(inst)
    for j, p, m in zip(hist[0::3], hist[1::3], hist[2::3]):
        try:
            d.dispatch(inst.jobs[j][p], m)
        except Exception:  # pylint: disable=broad-except
            pass
    return d.schedule


class ImplEq(ImplRules):
    def cmd_eqop(self, ts):
        a, b = [[int(t) for t in part] for part in _split(ts)]
        x, _ = _op_obj(a)
        y, _ = _op_obj(b)
        self.last_pair = (x, y)
        return f"{fmt_bool_(x == y)} {fmt_bool_(x != y)} {fmt_bool_(hash(x) == hash(y))}"

    def cmd_eqsop(self, ts):
        a, b = [[int(t) for t in part] for part in _split(ts)]
        x, ra = _op_obj(a)
        y, rb = _op_obj(b)
        sx = jsl.ScheduledOperation(x, ra[0], ra[1])
        sy = jsl.ScheduledOperation(y, rb[0], rb[1])
        self.last_pair = (sx, sy)
        return f"{fmt_bool_(sx == sy)} {fmt_bool_(sx != sy)}"

    @staticmethod
    def _use(inst):
        """One of two independently built objects has been USED with the library before the comparison (solved by a rule, its
        schedule rebuilt from job sequences and from its dictionary, a graph and observers built on it): use is not content."""
        try:
            from job_shop_lib.dispatching.rules import DispatchingRuleSolver
            from job_shop_lib.graphs import build_disjunctive_graph, build_complete_agent_task_graph
            from job_shop_lib.dispatching.feature_observers import FeatureObserverType, feature_observer_factory
            sched = DispatchingRuleSolver("most_work_remaining").solve(inst)
            if not inst.is_flexible:
                jsl.Schedule.from_job_sequences(inst, sched.to_dict()["job_sequences"])
                jsl.Schedule.from_dict(**_json.loads(_json.dumps(sched.to_dict())))
            build_disjunctive_graph(inst)
            build_complete_agent_task_graph(inst)
            d = jsl.Dispatcher(inst, jsl.filter_dominated_operations)
            for t in FeatureObserverType:
                feature_observer_factory(t, dispatcher=d)
            op = d.available_operations()[0]
            d.dispatch(op, op.machines[0])
            {o: 1 for job in inst.jobs for o in job}      # hashed
            inst.durations_matrix_array, inst.machines_matrix_array, inst.operations_by_machine  # cached views filled
        except (jsl.job_shop_lib.exceptions.ValidationError, jsl.job_shop_lib.exceptions.UninitializedAttributeError):
            pass            # (the library refusing some use of a degenerate instance is not the comparison's business)

    def cmd_eqinst(self, ts):
        a, b = _split(ts)
        x = build_instance(parse_instance(a), name="a")
        y = build_instance(parse_instance(b), name="b")
        if (len(a) + len(b)) % 3 == 0 and x.num_operations and all(len(j) for j in x.jobs):
            self._use(x)
        self.last_pair = (x, y)
        return f"{fmt_bool_(x == y)} {fmt_bool_(x != y)}"

    def cmd_eqshift(self, ts):
        """a dispatcher-built schedule against a hand-built copy whose start times are all shifted by k"""
        ia, ha, k = _split(ts)
        x = _sched_from_hist(parse_instance(ia), [int(t) for t in ha])
        k = int(k[0])
        y = jsl.Schedule(x.instance, [[jsl.ScheduledOperation(so.operation, so.start_time + k, so.machine_id)
                                       for so in ms] for ms in x.schedule])
        self.last_pair = (x, y)
        return f"{fmt_bool_(x == y)} {fmt_bool_(x != y)}"

    def cmd_eqsched(self, ts):
        ia, ha, ib, hb = _split(ts)
        x = _sched_from_hist(parse_instance(ia), [int(t) for t in ha])
        y = _sched_from_hist(parse_instance(ib), [int(t) for t in hb])
        if (len(ha) + len(hb)) % 3 == 0 and x.instance.num_operations and all(len(j) for j in x.instance.jobs):
            self._use(x.instance)
        self.last_pair = (x, y)
        return f"{fmt_bool_(x == y)} {fmt_bool_(x != y)}"


# ----------------------------------------------------------------------------------- views / serialisation (C14)
import json as _json  # noqa: E402
import math as _math  # noqa: E402
import os as _os  # noqa: E402
import tempfile as _tempfile  # noqa: E402


def fmt_instance(inst) -> str:
    out = [str(len(inst.jobs))]
    for job in inst.jobs:
        out.append(str(len(job)))
        for op in job:
            out.append(str(len(op.machines)))
            out.extend(str(m) for m in op.machines)
            out.append(str(op.duration))
    return " ".join(out)


def fmt_sched(schedule) -> str:
    return " | ".join(" ".join(fmt_sop(x) for x in ms) for ms in schedule.schedule)


class ImplViews(ImplEq):
    def cmd_views(self, ts):
        I = self.instance
        ints = lambda l: " ".join(str(int(x)) for x in l)  # noqa: E731
        if I.is_flexible:
            mm = "flex " + " / ".join(" ".join(lst(ms) for ms in row) for row in I.machines_matrix)
        else:
            mm = "single " + " / ".join(ints(row) for row in I.machines_matrix)
        obm = " / ".join(" ".join(str(o.operation_id) for o in ops) for ops in I.operations_by_machine)
        padded = " / ".join(" ".join("nan" if _math.isnan(x) else ("big" if abs(x) >= 2 ** 24 else str(int(x))) for x in row)
                            for row in I.durations_matrix_array.tolist())       # float32: exact below 2**24 only
        try:
            mpj = lst(int(x) for x in I.max_duration_per_job)
            mx = str(int(I.max_duration))
        except ValueError:
            mpj, mx = "none", "none"
        return (f"{I.num_jobs} {I.num_machines} {I.num_operations} {fmt_bool_(I.is_flexible)} | "
                + " / ".join(ints(r) for r in I.durations_matrix) + f" | {mm} | {obm} | {ints(I.machine_loads)} | "
                + f"{ints(I.max_duration_per_machine)} | {ints(I.job_durations)} | {I.total_duration} | {mpj} | {mx} | {padded}")

    def cmd_dict(self, ts):
        # an earlier caller derived a renamed variant from the dictionary it was given (top-level keys rebound only: the
        # matrices and the metadata inside are the instance's own objects) ...
        d0 = self.instance.to_dict()
        d0["name"] = "variant of " + str(d0["name"])
        d0["metadata"] = {"edited": True}
        # ... and the instance was renamed meanwhile (the library's own transformations do `instance.name += suffix`)
        old_name = self.instance.name
        self.instance.name = old_name + "_renamed"
        renamed = self.instance.to_dict()["name"]
        self.instance.name = old_name
        if renamed != old_name + "_renamed":
            return f"raise stale-name {renamed}"
        # an instance may be called anything - also nothing at all: the (empty) name survives the dictionary
        self.instance.name = ""
        try:
            empty_back = jsl.JobShopInstance.from_matrices(**_json.loads(_json.dumps(self.instance.to_dict()))).name
        except Exception as e:  # pylint: disable=broad-except
            empty_back = f"raised {type(e).__name__}"
        self.instance.name = old_name
        if empty_back != "":
            return f"raise empty-name-became {empty_back!r}"
        d = self.instance.to_dict()
        d2 = _json.loads(_json.dumps(d))
        try:
            back = jsl.JobShopInstance.from_matrices(**d2)
        except Exception as e:  # pylint: disable=broad-except
            self.last_roundtrip = None
            return f"raise {type(e).__name__}"
        self.last_roundtrip = (self.instance, back, d)
        return fmt_instance(back)

    def cmd_taillard(self, ts):
        I = self.instance
        if I.is_flexible:
            return "n/a"
        text = f"# comment\n{I.num_jobs} {I.num_machines}\n" + "\n".join(
            " ".join(f"{op.machine_id} {op.duration}" for op in job) for job in I.jobs) + "\n"
        # (one scratch path per process, rewritten for every instance: what is read back is what the file holds NOW)
        if not getattr(ImplViews, "_TL_DIR", None) or not _os.path.isdir(ImplViews._TL_DIR):
            ImplViews._TL_DIR = _tempfile.mkdtemp(prefix="verif_taillard_")
        if True:
            d = ImplViews._TL_DIR
            path = _os.path.join(d, "verif_inst.txt")
            with open(path, "w", encoding="utf-8") as f:
                f.write(text)
            back = jsl.JobShopInstance.from_taillard_file(path, key="value")
            # the caller names the instance itself (a name with dots, slashes and an extension-like tail is a name like any other)
            self._tl = getattr(self, "_tl", 0) + 1
            given = ["ft06.v2", "set.1/inst.07.txt", "a.b.c", ".hidden", "plain", "v1.0 (copy)"][self._tl % 6]
            meta = {"optimum": 55, "source": "verif.suite", "nested": {"k": [1, 2]}}
            try:
                named = jsl.JobShopInstance.from_taillard_file(path, name=given, **meta)
                self.taillard_named = (given, named.name, meta, named.metadata, fmt_instance(named) == fmt_instance(back))
            except Exception as e:  # pylint: disable=broad-except
                self.taillard_named = (given, f"raised {type(e).__name__}", meta, None, False)
        self.last_roundtrip = (I, back, None)
        return fmt_instance(back)

    def cmd_seqs(self, ts):
        d = self.dispatcher.schedule.to_dict()
        return " / ".join(" ".join(map(str, row)) for row in d["job_sequences"])

    def _from_seqs(self, seqs):
        try:
            s = jsl.Schedule.from_job_sequences(self.instance, seqs)
        except jsl.job_shop_lib.exceptions.ValidationError:
            return "raise"
        except Exception:  # pylint: disable=broad-except
            return "error"
        self.last_rebuilt = s
        return "ok " + fmt_sched(s)

    def cmd_rebuild(self, ts):
        d = self.dispatcher.schedule.to_dict()
        self.last_rebuilt = None
        return self._from_seqs(d["job_sequences"])

    def cmd_jobseq(self, ts):
        xs = [int(t) for t in ts]
        n, i, seqs = xs[0], 1, []
        for _ in range(n):
            k = xs[i]
            seqs.append(xs[i + 1:i + 1 + k])
            i += k + 1
        self.last_rebuilt = None
        return self._from_seqs(seqs)


# ----------------------------------------------------------------------------------- feature observers (C11, C12)
from job_shop_lib.dispatching import feature_observers as _fo  # noqa: E402

FKINDS = {
    "is_ready": _fo.IsReadyObserver,
    "earliest_start_time": _fo.EarliestStartTimeObserver,
    "duration": _fo.DurationObserver,
    "is_scheduled": _fo.IsScheduledObserver,
    "position_in_job": _fo.PositionInJobObserver,
    "remaining_operations": _fo.RemainingOperationsObserver,
    "is_completed": _fo.IsCompletedObserver,
    "composite": _fo.CompositeFeatureObserver,
    "unscheduled": jsl.UnscheduledOperationsObserver,
    "history": jsl.HistoryObserver,
    "makespan_reward": MakespanReward,
    "idle_reward": IdleTimeReward,
}
FT = {"o": _fo.FeatureType.OPERATIONS, "m": _fo.FeatureType.MACHINES, "j": _fo.FeatureType.JOBS}
FT_NAME = {v: k for k, v in FT.items()}


def _kind_name(obs):
    for name, cls in FKINDS.items():
        if type(obs) is cls:
            return name
    return type(obs).__name__


def fmt_val(v):
    import math
    if isinstance(v, float) and math.isnan(v):
        return "nan"
    if abs(float(v)) >= 2 ** 24:
        return "big"            # float32 features are not exact from 2**24 on: not compared (DESIGN §7)
    if float(v) != int(v):
        return repr(float(v))
    return str(int(v))


class ImplFeat(ImplViews):
    def _new_dispatcher(self):
        super()._new_dispatcher()
        self.fheap = []

    def _sync_heap(self):
        """Registers observers that appeared in dispatcher.subscribers (helpers are created lazily)."""
        for s in self.dispatcher.subscribers:
            if not any(o is s for o in self.fheap):
                self.fheap.append(s)

    def _fid(self, obs):
        return next(i for i, o in enumerate(self.fheap) if o is obs)

    def cmd_fobs(self, ts):
        kind, fts = ts[0], ts[1]
        cls = FKINDS[kind]
        kwargs = {}
        if fts != "-" and issubclass(cls, _fo.FeatureObserver):
            kwargs["feature_types"] = [FT[c] for c in fts]
        n_before = len(self.dispatcher.subscribers)
        try:
            obs = cls(self.dispatcher, **kwargs)
        except Exception:  # pylint: disable=broad-except
            if len(self.dispatcher.subscribers) != n_before:
                return "raise-after-subscribe"
            return "raise"
        # the new observer subscribed itself first; helpers follow
        self._sync_heap()
        return str(self._fid(obs))

    def cmd_fcomp(self, ts):
        try:
            if ts == ["all"]:
                obs = _fo.CompositeFeatureObserver(self.dispatcher)
            else:
                obs = _fo.CompositeFeatureObserver(self.dispatcher, feature_observers=[self.fheap[int(t)] for t in ts])
        except Exception:  # pylint: disable=broad-except
            return "raise"
        self._sync_heap()
        return str(self._fid(obs))

    def fmt_fobs(self, i):
        o = self.fheap[i]
        kind = _kind_name(o)
        if kind == "unscheduled":
            return f"{i}:unscheduled " + " ".join(lst(op.operation_id for op in dq) for dq in o.unscheduled_operations_per_job)
        if kind == "history":
            return f"{i}:history " + " ".join(fmt_sop(x) for x in o.history)
        if kind == "makespan_reward":
            return f"{i}:makespan_reward {' '.join(str(int(r)) for r in o.rewards)} cur {o.current_makespan}"
        if kind == "idle_reward":
            return f"{i}:idle_reward {' '.join(str(int(r)) for r in o.rewards)}"
        cols = " ".join(
            FT_NAME[ft] + "=" + ";".join(",".join(fmt_val(v) for v in arr[:, c]) for c in range(arr.shape[1]))
            for ft, arr in o.features.items())
        if kind == "composite":
            parts = " ".join(str(self._fid(p)) for p in o.feature_observers)
            names = " ".join(FT_NAME[ft] + "=" + ",".join(ns) for ft, ns in o.column_names.items())
            return f"{i}:composite({parts}) {cols} names {names}"
        return f"{i}:{kind} {cols}"

    def cmd_fspec(self, ts):
        """The Python twin of `JobShopModel/FeatureSpecs.lean`: every feature's documented value recomputed from the
        instance and dispatcher.schedule.schedule alone (oracles.View), in the driver's `fspec` format."""
        import oracles
        I = self.instance
        v = oracles.View(I, self.dispatcher.schedule.schedule)
        ft = self.filter_tokens
        now = v.now(ft)
        ops = [op for job in I.jobs for op in job]
        M = I.num_machines
        un = v.unscheduled()
        un_ids = {o.operation_id for o in un}
        est = {}
        for j, job in enumerate(I.jobs):
            prev = v.job_ready[j]
            for pos in range(v.next_pos[j], len(job)):
                op = job[pos]
                st = max(prev, min(v.mach_free[m] for m in op.machines))
                est[op.operation_id] = st
                prev = st + op.duration
        kv = lambda pairs: " ".join(f"{k}:{val}" for k, val in pairs)  # noqa: E731
        ints = lambda l: " ".join(str(x) for x in l)  # noqa: E731
        estm = []
        for m in range(M):
            cand = [est[o.operation_id] for o in un if m in o.machines]
            estm.append((min(cand) if cand else 0) - now)
        estj = [(j, est[job[v.next_pos[j]].operation_id] - now) for j, job in enumerate(I.jobs) if v.next_pos[j] < len(job)]
        ongoing = v.ongoing(ft)
        og_ids = {x.operation.operation_id for x in ongoing}
        completed = {i for i in v.sop if i not in og_ids}
        parts = [
            f"now {now}",
            "est " + kv((o.operation_id, est[o.operation_id] - now) for o in un),
            "estm " + ints(estm),
            "estj " + kv(estj),
            "pos " + kv((o.operation_id, o.position_in_job - v.next_pos[o.job_id]) for o in un),
            "durj " + ints(sum(o.duration for o in un if o.job_id == j) for j in range(len(I.jobs))),
            "durm " + ints(sum(o.duration * o.machines.count(m) for o in un if m in o.machines) for m in range(M)),
            "remj " + ints(sum(1 for o in un if o.job_id == j) for j in range(len(I.jobs))),
            "remm " + ints(sum(o.machines.count(m) for o in un) for m in range(M)),
            "sch " + ints(0 if o.operation_id in un_ids else 1 for o in ops),
            "ogm " + ints(sum(1 for x in ongoing if x.machine_id == m) for m in range(M)),
            "ogj " + ints(sum(1 for x in ongoing if x.operation.job_id == j) for j in range(len(I.jobs))),
            "cop " + ints(1 if o.operation_id in completed else 0 for o in ops),
            "cj " + ints(1 if job and not any(o.operation_id in un_ids for o in job) else 0 for job in I.jobs),
            "cm " + ints(1 if any(m in o.machines for o in ops) and not any(m in o.machines for o in un) else 0
                         for m in range(M)),
            "deq " + " / ".join(ints(o.operation_id for o in job if o.operation_id in un_ids) for job in I.jobs),
        ]
        return " | ".join(parts)

    def cmd_funsub(self, ts):
        self._sync_heap()
        k = int(ts[0])
        if k >= len(self.fheap):
            return "raise"
        try:
            self.dispatcher.unsubscribe(self.fheap[k])
        except Exception:  # pylint: disable=broad-except
            return "raise"
        return "ok"

    def cmd_scribble(self, ts):
        """a third party (a plotting helper, a normaliser) writes into the matrices a composite handed out, in place"""
        self._sync_heap()
        for o in self.fheap:
            if isinstance(o, _fo.CompositeFeatureObserver):
                for arr in o.features.values():
                    arr[...] = 1 - arr
        return "ok"

    def cmd_funsubk(self, ts):
        """unsubscribe the first subscribed observer of the given kind"""
        self._sync_heap()
        cls = FKINDS[ts[0]]
        for sub in self.dispatcher.subscribers:
            if type(sub) is cls:
                self.dispatcher.unsubscribe(sub)
                return str(self._fid(sub))
        return "none"

    def cmd_fsnap(self, ts):
        self._sync_heap()
        ids = [str(self._fid(s)) for s in self.dispatcher.subscribers]
        return f"subs {' '.join(ids)} || " + " || ".join(self.fmt_fobs(i) for i in range(len(self.fheap)))


# ----------------------------------------------------------------------------------- graphs (C16, C17)
from job_shop_lib import graphs as _graphs  # noqa: E402
from job_shop_lib.graphs.graph_updaters import ResidualGraphUpdater  # noqa: E402

BUILDERS = {
    "disjunctive": _graphs.build_disjunctive_graph,
    "agent_task": _graphs.build_agent_task_graph,
    "agent_task_jobs": _graphs.build_agent_task_graph_with_jobs,
    "complete_agent_task": _graphs.build_complete_agent_task_graph,
}
FKINDS["residual"] = ResidualGraphUpdater


def fmt_node(node) -> str:
    t = node.node_type
    NT = _graphs.NodeType
    if t == NT.OPERATION:
        return f"o{node.operation.operation_id}"
    if t == NT.MACHINE:
        return f"m{node.machine_id}"
    if t == NT.JOB:
        return f"j{node.job_id}"
    return {NT.GLOBAL: "g", NT.SOURCE: "S", NT.SINK: "T"}[t]


def fmt_graph(g) -> str:
    ET = _graphs.EdgeType
    nodes = " ".join(fmt_node(n) for n in g.nodes)
    removed = "".join("1" if r else "0" for r in g.removed_nodes)
    def et(d):
        t = d.get("type")
        return "c" if t == ET.CONJUNCTIVE else "d" if t == ET.DISJUNCTIVE else "u"
    edges = " ".join(f"{u}>{v}:{et(d)}" for u, v, d in g.graph.edges(data=True))
    return f"nodes {nodes} | removed {removed} | edges {edges}"


def graph_integrity(g) -> str:
    """Self-consistency of a JobShopGraph: ids = positions, the networkx node attribute and nodes_by_type agree."""
    ids = [n.node_id for n in g.nodes]
    attr = sorted((k, d["node"].node_id if "node" in d else None) for k, d in g.graph.nodes(data=True))
    by_type = sorted((t.name, sorted(n.node_id for n in ns)) for t, ns in g.nodes_by_type.items() if ns)
    return f"ids {ids} attr {attr} by_type {by_type}"


def graph_lookup_problems(g) -> list[str]:
    """The graph's own lookups and counters against its node list: every node is found by its type and entity id (and is that very
    node), counters count, the non-removed nodes are the nodes not flagged as removed (in node order), and the per-machine / per-job
    lists of operation nodes hold exactly the operation nodes of that machine / job."""
    bad = []
    NT = type(g.nodes[0].node_type) if g.nodes else None
    for n in g.nodes:
        try:
            if n.node_type == NT.OPERATION:
                got = g.get_operation_node(n.operation.operation_id)
            elif n.node_type == NT.MACHINE:
                got = g.get_machine_node(n.machine_id)
            elif n.node_type == NT.JOB:
                got = g.get_job_node(n.job_id)
            else:
                continue
        except Exception as e:  # pylint: disable=broad-except
            bad.append(f"lookup of node {n.node_id} ({n.node_type.name}) raised {type(e).__name__}")
            continue
        if got is not n:
            bad.append(f"lookup of node {n.node_id} ({n.node_type.name}) returned node {getattr(got, 'node_id', got)}")
    if NT is not None:
        if g.num_job_nodes != sum(1 for n in g.nodes if n.node_type == NT.JOB):
            bad.append(f"num_job_nodes = {g.num_job_nodes}")
        if g.num_edges != len(list(g.graph.edges())):
            bad.append(f"num_edges = {g.num_edges}, the graph has {len(list(g.graph.edges()))}")
    want = [n.node_id for n in g.nodes if not g.removed_nodes[n.node_id]]
    if [n.node_id for n in g.non_removed_nodes()] != want:
        bad.append(f"non_removed_nodes() = {[n.node_id for n in g.non_removed_nodes()]}, not removed: {want}")
    if any(g.is_removed(n) != g.removed_nodes[n.node_id] or g.is_removed(n.node_id) != g.removed_nodes[n.node_id] for n in g.nodes):
        bad.append("is_removed disagrees with removed_nodes")
    if NT is not None:
        ops = [n for n in g.nodes if n.node_type == NT.OPERATION]
        for m, row in enumerate(g.nodes_by_machine):
            w = sorted(n.node_id for n in ops if m in n.operation.machines)
            if sorted(n.node_id for n in row) != w:
                bad.append(f"nodes_by_machine[{m}] = {sorted(n.node_id for n in row)}, operations on that machine: {w}")
        for j, row in enumerate(g.nodes_by_job):
            w = [n.node_id for n in ops if n.operation.job_id == j]
            if [n.node_id for n in row] != w:
                bad.append(f"nodes_by_job[{j}] = {[n.node_id for n in row]}, operations of that job: {w}")
    return bad


class ImplGraph(ImplFeat):
    # graphs built earlier in this process with what they looked like when they were built: building another graph
    # must not change them (shared mutable state between graphs)
    GRAPH_LOG: list = []

    def cmd_new(self, ts):
        ImplGraph.GRAPH_LOG = []          # a scenario is self-contained, so that its replay reproduces it
        return super().cmd_new(ts)

    def _log_graph(self, g, what):
        self.last_graph = g
        out = fmt_graph(g)
        ImplGraph.GRAPH_LOG.append((g, out, graph_integrity(g), what))
        del ImplGraph.GRAPH_LOG[:-12]
        return out

    def cmd_graph(self, ts):
        return self._log_graph(BUILDERS[ts[0]](self.instance), ts[0])

    def cmd_solved(self, ts):
        return self._log_graph(_graphs.build_solved_disjunctive_graph(self.dispatcher.schedule), "solved")

    def cmd_fres(self, ts):
        g = BUILDERS[ts[0]](self.instance)
        try:
            obs = ResidualGraphUpdater(self.dispatcher, g, remove_completed_machine_nodes=ts[1] == "1",
                                       remove_completed_job_nodes=ts[2] == "1")
        except Exception:  # pylint: disable=broad-except
            return "raise"
        # helpers (IsCompleted, RemainingOperations, Unscheduled) were subscribed before the updater itself
        self._sync_heap()
        return str(self._fid(obs))

    def cmd_fresn(self, ts):
        """the updater is built with subscribe=False (its helper is obtained the ordinary way) and subscribed later by `fsub`"""
        g = BUILDERS[ts[0]](self.instance)
        try:
            obs = ResidualGraphUpdater(self.dispatcher, g, subscribe=False, remove_completed_machine_nodes=ts[1] == "1",
                                       remove_completed_job_nodes=ts[2] == "1")
        except Exception:  # pylint: disable=broad-except
            return "raise"
        self._sync_heap()
        if not any(o is obs for o in self.fheap):
            self.fheap.append(obs)
        return str(self._fid(obs))

    def cmd_fsub(self, ts):
        k = len(self.fheap) - 1 if ts[0] == "last" else int(ts[0])
        if k >= len(self.fheap) or any(s is self.fheap[k] for s in self.dispatcher.subscribers):
            return "raise"
        self.dispatcher.subscribe(self.fheap[k])
        return "ok"

    def cmd_fresx(self, ts):
        """the graph handed to the updater was pruned by its owner beforehand"""
        g = BUILDERS[ts[0]](self.instance)
        for k in [int(t) for t in ts[3:]]:
            if k < len(g.nodes) and not g.removed_nodes[k]:
                g.remove_node(k)
        try:
            obs = ResidualGraphUpdater(self.dispatcher, g, remove_completed_machine_nodes=ts[1] == "1",
                                       remove_completed_job_nodes=ts[2] == "1")
        except Exception:  # pylint: disable=broad-except
            return "raise"
        self._sync_heap()
        return str(self._fid(obs))

    def fmt_fobs(self, i):
        o = self.fheap[i]
        if isinstance(o, ResidualGraphUpdater):
            helper = o._is_completed_observer  # pylint: disable=protected-access
            if helper is not None and not any(x is helper for x in self.fheap):
                self.fheap.append(helper)           # a helper that was never subscribed: shown all the same
            parts = str(self._fid(helper)) if helper is not None else ""
            return f"{i}:residual({parts}) {fmt_graph(o.job_shop_graph)}"
        return super().fmt_fobs(i)


# ----------------------------------------------------------------------------------- instance generator (C19)
from job_shop_lib.generation import GeneralInstanceGenerator  # noqa: E402


class ScriptedRng:
    """Stands in for the generator's random.Random: the draw stream shared with the model."""

    def __init__(self, draws):
        self.draws = list(draws)
        self.log = []

    def _next(self):
        return self.draws.pop(0) if self.draws else 0

    def randint(self, a, b):
        if a > b:
            raise ValueError("empty range for randint")
        d = self._next()
        v = a + d % (b - a + 1)
        self.log.append(("randint", a, b, v))
        return v

    def choice(self, seq):
        if not seq:
            raise IndexError("Cannot choose from an empty sequence")
        d = self._next()
        v = seq[d % len(seq)]
        self.log.append(("choice", tuple(seq), v))
        return v


class ImplGen(ImplGraph):
    def cmd_gen(self, ts):
        xs = [int(t) for t in ts]
        j1, j2, m1, m2, d1, d2, al, rc, k1, k2, n = xs[:11]
        draws = xs[11:]
        g = GeneralInstanceGenerator(num_jobs=(j1, j2), num_machines=(m1, m2), duration_range=(d1, d2),
                                     allow_less_jobs_than_machines=bool(al), allow_recirculation=bool(rc),
                                     machines_per_operation=(k1, k2), name_suffix="verif", iteration_limit=n)
        g.rng = ScriptedRng(draws)
        self.last_gen = (g, [])
        out = []
        try:
            for inst in g:
                self.last_gen[1].append(inst)
                out.append(f"{inst.name.rsplit('_', 1)[1]} {fmt_instance(inst)}")
        except (ValueError, IndexError):
            return "raise"
        return " ; ".join(out)


    def cmd_genh(self, ts):
        xs = [int(t) for t in ts]
        j1, j2, m1, m2, d1, d2, al, rc, k1, k2, h, n = xs[:12]
        draws = xs[12:]
        g = GeneralInstanceGenerator(num_jobs=(j1, j2), num_machines=(m1, m2), duration_range=(d1, d2),
                                     allow_less_jobs_than_machines=bool(al), allow_recirculation=bool(rc),
                                     machines_per_operation=(k1, k2), name_suffix="verif", iteration_limit=n)
        g.rng = ScriptedRng(draws)
        self.last_gen = (g, [])
        out = []
        try:
            ops = []
            for _ in range(h):
                op = g.create_random_operation()
                ops.append(",".join(map(str, op.machines)) + f":{op.duration}")
            for inst in g:
                self.last_gen[1].append(inst)
                out.append(f"{inst.name.rsplit('_', 1)[1]} {fmt_instance(inst)}")
        except (ValueError, IndexError):
            return "raise"
        return "ops " + " ".join(ops) + " ; " + " ; ".join(out)


# ----------------------------------------------------------------------------------- Gantt charts and frames (C20)
import os as _os  # noqa: E402
import warnings as _warnings  # noqa: E402

_os.environ.setdefault("MPLBACKEND", "Agg")
import matplotlib  # noqa: E402

matplotlib.use("Agg")
import matplotlib.pyplot as _plt  # noqa: E402
from matplotlib.collections import PolyCollection as _PolyCollection  # noqa: E402

from job_shop_lib.visualization import _plot_gantt_chart as _pgc  # noqa: E402
from job_shop_lib.visualization import _gantt_chart_video_and_gif_creation as _vid  # noqa: E402


def read_chart(ax, labels=None):
    """What the drawn axes show: (bars, legend jobs, xticks, xlim).  A bar is read back from the polygon
    matplotlib drew (row from its y extent, start and width from its x extent) and its job from the legend
    entry that has the bar's colour."""
    leg = ax.get_legend()
    colour_to_job = {}
    legend_jobs = []
    if leg is not None:
        for text, handle in zip(leg.get_texts(), leg.legend_handles):
            label = text.get_text()
            if labels is not None and label in labels:
                job = labels.index(label)         # custom job_labels: the label of job j is labels[j]
            else:
                job = int(label.split()[1]) if label.startswith("Job ") else label
            legend_jobs.append(job)
            key = tuple(round(float(c), 6) for c in handle.get_facecolor())
            colour_to_job.setdefault(key, []).append(job)
    bars = []
    for coll in ax.collections:
        if not isinstance(coll, _PolyCollection):
            continue
        fcs = coll.get_facecolor()
        for k, path in enumerate(coll.get_paths()):
            vs = path.vertices
            xs = [float(v[0]) for v in vs]
            ys = [float(v[1]) for v in vs]
            fc = fcs[k if k < len(fcs) else 0]
            key = tuple(round(float(c), 6) for c in fc)
            jobs = colour_to_job.get(key, [])
            job = str(jobs[0]) if len(jobs) == 1 else ("nolegend" if not jobs else "ambiguous")
            x0, x1, y0, y1 = min(xs), max(xs), min(ys), max(ys)
            num = lambda v: str(int(v)) if float(v).is_integer() else repr(v)  # noqa: E731
            if y1 - y0 != 9:
                job += "/height" + num(y1 - y0)
            bars.append(f"{num(y0)}:{num(x0)}:{num(x1 - x0)}:{job}")
    ticks = [int(t) if float(t).is_integer() else float(t) for t in ax.get_xticks()]
    xlim = ax.get_xlim()
    return bars, legend_jobs, ticks, xlim


class _FakeFigure:
    """Stands in for a Figure in `_save_frame`: records the file name instead of rendering a PNG."""

    def __init__(self, sink, payload=None):
        self.sink = sink
        self.payload = payload
        self.number = -1

    def savefig(self, fname, **kwargs):
        self.sink.append((fname, self.payload))
        if _os.path.isdir(_os.path.dirname(str(fname)) or "."):
            # a frames directory that really exists: the frame is a real file there (its content: the bars it shows)
            with open(fname, "w", encoding="utf-8") as fh:
                fh.write(str(self.payload))


class _FakeOs:
    """`os` as seen by `_load_images`: the listing is whatever order the harness dictates."""

    def __init__(self, listing):
        self._listing = list(listing)
        self.path = _os.path

    def listdir(self, _dir):
        return list(self._listing)


class _Img(str):
    """Stands in for a decoded frame where only its identity matters: a string (the path, or the text of the frame file) with the
    one attribute image code looks at."""
    shape = (1, 1, 3)


class _FakeImageio:
    @staticmethod
    def imread(path):
        return _Img(path)


def load_order(names):
    """Runs the real `_load_images` over a directory listing in the given order."""
    old_os, old_io = _vid.os, _vid.imageio
    _vid.os, _vid.imageio = _FakeOs(names), _FakeImageio
    try:
        return [_os.path.basename(p) for p in _vid._load_images("D")]  # pylint: disable=protected-access
    finally:
        _vid.os, _vid.imageio = old_os, old_io


def save_names(numbers):
    sink = []
    old_close = _vid.plt.close
    _vid.plt.close = lambda *a, **k: None
    try:
        for n in numbers:
            _vid._save_frame(_FakeFigure(sink), "D", n)  # pylint: disable=protected-access
    finally:
        _vid.plt.close = old_close
    return [_os.path.basename(f) for f, _ in sink]


_REAL_CLOSE = _plt.close      # (the animation slices replace pyplot.close while the library runs; the harness's own figures are closed for real)


class ImplViz(ImplGen):
    _ALL_HELD: list = []        # figures still held by any interpreter of this process (a scenario = a new interpreter)

    def cmd_new(self, ts):
        for fig in ImplViz._ALL_HELD:
            _REAL_CLOSE(fig)
        ImplViz._ALL_HELD = []
        self.held_chart = None
        return super().cmd_new(ts)

    def cmd_bars(self, ts):
        with _warnings.catch_warnings():
            _warnings.simplefilter("ignore")
            fig, ax = _pgc.plot_gantt_chart(self.dispatcher.schedule)
            bars, legend, _, _ = read_chart(ax)
            # a chart the caller still holds (the one drawn by the previous `bars`) shows what it showed when it was drawn
            held = getattr(self, "held_chart", None)
            self.held_chart = (fig, ax, sorted(bars), list(legend))
            ImplViz._ALL_HELD.append(fig)
            if held is not None:
                h_fig, h_ax, h_bars, h_legend = held
                try:
                    now_bars, now_legend, _, _ = read_chart(h_ax)
                except Exception as e:  # pylint: disable=broad-except
                    now_bars, now_legend = [f"unreadable:{type(e).__name__}"], []
                _plt.close(h_fig)
                if (sorted(now_bars), list(now_legend)) != (h_bars, h_legend):
                    return f"held-chart-changed {lst(sorted(now_bars))} ; legend {lst(now_legend)} (was {lst(h_bars)})"
            # the same chart with the caller's own job names: same bars, each still coloured like the legend entry of ITS job
            names = [f"task {chr(97 + j % 26)}{j}" for j in range(self.instance.num_jobs)]
            fig, ax = _pgc.plot_gantt_chart(self.dispatcher.schedule, job_labels=names)
            bars2, legend2, _, _ = read_chart(ax, labels=names)
            _plt.close(fig)
        if (sorted(bars2), legend2) != (sorted(bars), legend):
            return f"{lst(bars2)} ; legend {lst(legend2)}"
        return f"{lst(bars)} ; legend {lst(legend)}"

    def cmd_ticks(self, ts):
        xlim = None if ts[0] == "-" else int(ts[0])
        if xlim is not None:
            # the limit arrives as whatever integer type the caller computes with (a makespan taken from a numpy array, say)
            self._xl = getattr(self, "_xl", 0) + 1
            xlim = [int, _np.int64, _np.int32, int, _np.uint16][self._xl % 5](xlim) if xlim < 2 ** 15 else xlim
        with _warnings.catch_warnings():
            _warnings.simplefilter("ignore")
            fig, ax = _pgc.plot_gantt_chart(self.dispatcher.schedule, xlim=xlim, number_of_x_ticks=int(ts[1]))
            _, _, ticks, lim = read_chart(ax)
            _plt.close(fig)
        if lim[0] < 0 and lim[1] == -lim[0] and lim[1] < 0.1:
            lim = (0.0, 0.0)     # set_xlim(0, 0): matplotlib widens identical limits (documented behaviour)
        right = int(lim[1]) if float(lim[1]).is_integer() else lim[1]
        if lim[0] != 0:
            right = f"{lim[0]}..{right}"
        return f"xlim {right} ticks {lst(ticks)}"

    def cmd_fname(self, ts):
        return save_names([int(ts[0])])[0]

    def cmd_frames(self, ts):
        numbers = [int(t) for t in ts]
        names = save_names(numbers)
        back = {n: i for n, i in zip(names, numbers)}
        return lst(back[n] for n in load_order(names))

    def cmd_animate(self, ts):
        """The whole pipeline: create_gantt_chart_frames over a recorded history, frames saved through the real
        `_save_frame`, then listed in a scrambled order and loaded through the real `_load_images`."""
        xs = [int(t) for t in ts]
        hist = [(xs[i], xs[i + 1], xs[i + 2]) for i in range(0, len(xs), 3)]
        d = jsl.Dispatcher(self.instance)
        h = jsl.HistoryObserver(d)
        for j, p, m in hist:
            d.dispatch(self.instance.jobs[j][p], m)
        history = list(h.history)
        sink = []
        seen = {}

        def plot_function(schedule, makespan=None, available_operations=None, current_time=None):
            with _warnings.catch_warnings():
                _warnings.simplefilter("ignore")
                fig, ax = _pgc.plot_gantt_chart(schedule, xlim=makespan)
                bars, _, _, lim = read_chart(ax)
                _REAL_CLOSE(fig)
            seen["xlim"] = int(lim[1] + 0.5)
            return _FakeFigure(sink, lst(bars))

        old_close = _vid.plt.close
        _vid.plt.close = lambda *a, **k: None
        try:
            _vid.create_gantt_chart_frames("D", self.instance, None, plot_function, schedule_history=history)
        finally:
            _vid.plt.close = old_close
        by_name = {_os.path.basename(f): payload for f, payload in sink}
        names = list(by_name)
        # a hostile directory listing: reversed
        order = load_order(list(reversed(names)))
        direct = f"xlim {seen.get('xlim', 0)} " + " / ".join(by_name[n] for n in order)

        # the same through the GanttChartCreator facade, which lives across episodes: it is created on the fresh
        # dispatcher, an earlier (abandoned) episode is played and reset, then the recorded history is played
        from job_shop_lib.visualization import GanttChartCreator
        d2 = jsl.Dispatcher(self.instance)
        tmp = _tempfile.mkdtemp(prefix="verif_frames_")
        # any frame rate and loop count the caller likes: the GIF shows every frame, whatever the speed
        fps = [1, 2, 24, 50, 60, 120, 144, 1000][(len(hist) * 5 + sum(x[0] for x in hist)) % 8]
        tmpv = _tempfile.mkdtemp(prefix="verif_vframes_")
        creator = GanttChartCreator(d2, gif_config={"frames_dir": tmp, "remove_frames": False, "fps": fps,
                                                    "gif_path": _os.path.join(tmp, "x.gif")},
                                    video_config={"frames_dir": tmpv, "remove_frames": False, "fps": fps,
                                                  "video_path": _os.path.join(tmpv, "x.mp4")})
        creator.partial_gantt_chart_plotter = plot_function
        # the real create_gif_from_frames / _load_images run; `imageio` is replaced (a frame "image" is the text of its file, the
        # "GIF" is the list of images handed to mimsave) and the directory is listed in a hostile order
        written = []

        class _Imageio:
            @staticmethod
            def imread(path):
                with open(path, encoding="utf-8") as fh:
                    return _Img(fh.read())

            @staticmethod
            def mimsave(path, images, **kwargs):
                written.append((list(images), dict(kwargs)))

        class _Os:
            path = _os.path
            remove = staticmethod(_os.remove)

            @staticmethod
            def listdir(dname):
                return list(reversed(sorted(n for n in _os.listdir(dname) if n.startswith("frame_"))))

        old_io, old_os = _vid.imageio, _vid.os
        _vid.imageio, _vid.os = _Imageio, _Os
        _vid.plt.close = lambda *a, **k: None
        import shutil as _shutil
        try:
            # the abandoned episode: other operations first where the history allows it (its GIF is made too, into the same
            # frames directory, which is kept)
            first = [x for x in reversed(hist) if x[1] == 0][:max(1, len(hist) // 2)]
            for j, p, m in first:
                d2.dispatch(self.instance.jobs[j][p], m)
            creator.create_gif()
            d2.reset()
            for j, p, m in hist:
                d2.dispatch(self.instance.jobs[j][p], m)
            sink.clear()
            seen.clear()
            written.clear()
            creator.create_gif()
            # what the GIF is assembled from: the images the real pipeline handed to the GIF writer
            shown = [str(x) for x in written[-1][0]] if written else ["no-gif-written"]
            # the video of the same history: the real create_video_from_frames (frames loaded, padded to the macro block size, handed to
            # the writer); here an "image" is a small array of odd size that carries the number of the frame text it stands for
            table = []

            class _ImageioV:
                @staticmethod
                def imread(path):
                    with open(path, encoding="utf-8") as fh:
                        table.append(fh.read())
                    k = len(table) - 1
                    arr = _np.zeros((5 + k % 3, 7 + k % 5, 3), dtype=_np.uint8)
                    arr[0, 0, 0], arr[0, 0, 1], arr[-1, -1, 2] = k % 256, k // 256, 255
                    return arr

                mimsave = _Imageio.mimsave

            _vid.imageio = _ImageioV
            written.clear()
            sink.clear()
            creator.create_video()
            shown_v = [table[int(a[0, 0, 0]) + 256 * int(a[0, 0, 1])] for a in written[-1][0]] if written else ["no-video-written"]
        finally:
            _shutil.rmtree(tmpv, ignore_errors=True)
            _vid.plt.close = old_close
            _vid.imageio, _vid.os = old_io, old_os
            _shutil.rmtree(tmp, ignore_errors=True)
        facade = f"xlim {seen.get('xlim', 0)} " + " / ".join(shown)
        video = f"xlim {seen.get('xlim', 0)} " + " / ".join(shown_v)
        return direct if facade == direct == video else facade if facade != direct else video


# ----------------------------------------------------------------------------------- Gymnasium environments (C18)
import numpy as _np  # noqa: E402

from job_shop_lib.dispatching import DispatcherObserverConfig as _DOC  # noqa: E402
from job_shop_lib.reinforcement_learning import (  # noqa: E402
    SingleJobShopGraphEnv as _SingleEnv,
    MultiJobShopGraphEnv as _MultiEnv,
)

REWARDS = {"makespan": MakespanReward, "idle": IdleTimeReward}


def fmt_obs(obs) -> str:
    rm = " ".join("1" if bool(b) else "0" for b in obs["removed_nodes"])
    ei = obs["edge_index"]
    if ei.ndim == 2:
        cols = " ".join(f"{int(ei[0, k])}>{int(ei[1, k])}" for k in range(ei.shape[1]))
    else:
        cols = "" if ei.size == 0 else "bad-shape" + str(ei.shape)
    feats = []
    for key, arr in obs.items():
        if key in ("removed_nodes", "edge_index"):
            continue
        name = {"operations": "o", "machines": "m", "jobs": "j"}[key]
        feats.append(name + "=" + ";".join(",".join(fmt_val(v) for v in arr[:, c]) for c in range(arr.shape[1])))
    return f"rm {rm} | ei {cols} | {' '.join(feats)}"


def fmt_space(env) -> str:
    a = env.action_space
    o = env.observation_space
    nj = int(a.nvec[0])
    nm = int(a.nvec[1]) + int(a.start[1])          # values start .. start + nvec - 1
    if int(a.start[0]) != 0:
        nj = f"{nj}@{int(a.start[0])}"
    ei = o["edge_index"]
    nodes = o["removed_nodes"].n
    extra = ""
    if not (_np.all(ei.start == -1) and _np.all(ei.nvec == nodes + 1) and ei.shape[0] == 2):
        extra = " edge-space-mismatch"
    feats = " ".join(sorted(f"{ {'operations': 'o', 'machines': 'm', 'jobs': 'j'}[k]}={sp.shape[0]}x{sp.shape[1]}"
                            for k, sp in o.spaces.items() if k not in ("removed_nodes", "edge_index")))
    # gym.spaces.Dict sorts its keys; the model lists feature types in the composite's order, so sort both sides
    return f"space {nj} {nm} {nodes} {ei.shape[1]} {feats}{extra}"


class ImplEnv(ImplViz):
    def _feature_configs(self, specs, style):
        cfgs = []
        for k, (kind, fts) in enumerate(specs):
            kwargs = {} if fts == "-" else {"feature_types": [FT[c] for c in fts]}
            sel = (style + k) % 3
            if sel == 0:
                cfgs.append(_DOC(_fo.FeatureObserverType(kind), kwargs=kwargs))
            elif sel == 1:
                cfgs.append(_DOC(FKINDS[kind], kwargs=kwargs))
            elif not kwargs:
                cfgs.append(_fo.FeatureObserverType(kind) if k % 2 else kind)
            else:
                cfgs.append(_DOC(kind, kwargs=kwargs))
        return cfgs

    @staticmethod
    def _split(ts):
        groups, cur = [], []
        for t in ts:
            if t == ";":
                groups.append(cur)
                cur = []
            else:
                cur.append(t)
        groups.append(cur)
        return groups

    def _env_kwargs(self, head, feats, style=0):
        b, rm, rj, rw, pad = head
        if rm == "1" and rj == "1" and style % 2 == 0:
            # (the updater options are the library's defaults: half of the time they are left to the library's default argument)
            return dict(
                feature_observer_configs=self._feature_configs([(f[0], f[1]) for f in feats], style),
                reward_function_config=_DOC(REWARDS[rw]),
                ready_operations_filter=self._make_filter(),
                use_padding=pad == "1",
            ), BUILDERS[b]
        return dict(
            feature_observer_configs=self._feature_configs([(f[0], f[1]) for f in feats], style),
            reward_function_config=_DOC(REWARDS[rw]),
            graph_updater_config=_DOC(ResidualGraphUpdater, kwargs={"remove_completed_machine_nodes": rm == "1",
                                                                    "remove_completed_job_nodes": rj == "1"}),
            ready_operations_filter=self._make_filter(),
            use_padding=pad == "1",
        ), BUILDERS[b]

    def cmd_env(self, ts):
        groups = self._split(ts)
        kwargs, builder = self._env_kwargs(groups[0], groups[1:], style=len(ts))
        try:
            self.env = _SingleEnv(job_shop_graph=builder(self.instance), **kwargs)
        except Exception:  # pylint: disable=broad-except
            self.env = None
            return "raise"
        self.env_kind = "single"
        return fmt_space(self.env)

    def cmd_eobs(self, ts):
        try:
            self.last_obs = self.env.get_observation()
        except Exception:  # pylint: disable=broad-except
            return "raise"
        return fmt_obs(self.last_obs)

    def cmd_ereset(self, ts):
        try:
            self.last_obs, _ = self.env.reset()
        except Exception:  # pylint: disable=broad-except
            return "raise"
        return fmt_obs(self.last_obs)

    def _fmt_step(self, res):
        obs, reward, done, truncated, info = res
        self.last_obs = obs
        self.last_step = res
        av = lst(o.operation_id for o in info["available_operations"])
        # the reward is exact integer arithmetic on the schedule (never a float32 feature): shown in full whatever its size
        r_txt = str(reward) if isinstance(reward, int) and not isinstance(reward, bool) else fmt_val(reward)
        return f"{fmt_obs(obs)} || r {r_txt} d {fmt_bool_(done)} t {fmt_bool_(truncated)} av {av}"

    def cmd_esched(self, ts):
        if getattr(self, "env", None) is None:
            return "bad-op"
        return "sched " + " | ".join(" ".join(fmt_sop(x) for x in ms) for ms in self.env.dispatcher.schedule.schedule)

    def cmd_edisp(self, ts):
        """the environment's dispatcher used directly between two steps"""
        d = self.env.dispatcher
        op = d.instance.jobs[int(ts[0])][int(ts[1])]
        try:
            d.dispatch(op, None if ts[2] == "none" else int(ts[2]))
        except Exception:  # pylint: disable=broad-except
            return "raise"
        return "ok"

    def cmd_eswap(self, ts):
        """the environment's reward function replaced by one built the ordinary way"""
        cls = {"makespan_reward": MakespanReward, "idle_reward": IdleTimeReward}.get(ts[0])
        if cls is None:
            return "bad-op"
        try:
            obs = cls(self.env.dispatcher)
        except Exception:  # pylint: disable=broad-except
            return "raise"
        self.env.reward_function = obs
        return "ok"

    def cmd_edreset(self, ts):
        """`env.dispatcher.reset()` - not `env.reset()`"""
        self.env.dispatcher.reset()
        return "ok"

    def cmd_estep(self, ts):
        try:
            res = self.env.step((int(ts[0]), int(ts[1])))
        except Exception:  # pylint: disable=broad-except
            return "raise"
        return self._fmt_step(res)

    def cmd_menv(self, ts):
        groups = self._split(ts)
        j1, j2, m1, m2, d1, d2, al, rc, k1, k2 = [int(t) for t in groups[0]]
        draws = [int(t) for t in groups[-1]]
        # (the generator may carry an iteration limit - that is about iterating over it; an environment asks for instances one at a time,
        #  as often as it is reset)
        g = GeneralInstanceGenerator(num_jobs=(j1, j2), num_machines=(m1, m2), duration_range=(d1, d2),
                                     allow_less_jobs_than_machines=bool(al), allow_recirculation=bool(rc),
                                     machines_per_operation=(k1, k2), name_suffix="verif",
                                     iteration_limit=[None, 1, 2, 0][sum(draws[:7]) % 4])
        g.rng = ScriptedRng(draws)
        kwargs, builder = self._env_kwargs(groups[1], groups[2:-1], style=len(ts))
        self.menv_kwargs = kwargs
        self.menv_builder = builder
        try:
            self.menv = _MultiEnv(instance_generator=g, graph_initializer=builder, **kwargs)
        except Exception:  # pylint: disable=broad-except
            self.menv = None
            return "raise"
        return fmt_space(self.menv)

    def _fork_env(self, attr):
        """The episode goes on with a deep copy of the environment (a checkpoint / a search over continuations); the original is reset and
        stepped once, so that whatever the copy still shares with it shows.  The model does nothing."""
        import copy as _copy
        old = getattr(self, attr)
        if old is None:
            return "ok"
        try:
            new = _copy.deepcopy(old)
        except Exception as e:  # pylint: disable=broad-except
            return f"copy-raised {type(e).__name__}"
        setattr(self, attr, new)
        try:
            old.reset()
            acts = self.legal_actions(old.single_job_shop_graph_env if hasattr(old, "single_job_shop_graph_env") else old)
            if acts:
                old.step(acts[-1])
        except Exception:  # pylint: disable=broad-except
            pass        # (a refusing generator, a known finding of the multi environment: the original's own business)
        return "ok"

    def cmd_mother(self, ts):
        """Somewhere else in the process ANOTHER multi-instance environment is built with all-default options on a graph without job
        nodes, reset once and dropped: environments do not share anything that one of them may write to."""
        try:
            g = GeneralInstanceGenerator(num_jobs=(2, 3), num_machines=(2, 3), duration_range=(1, 5), seed=int(ts[0]) if ts else 0)
            other = _MultiEnv(instance_generator=g, feature_observer_configs=self._feature_configs([("is_ready", "-")], 0),
                              graph_initializer=BUILDERS["agent_task"])
            other.reset()
        except Exception as e:  # pylint: disable=broad-except
            return f"sibling-error another environment could not be built: {type(e).__name__}"
        return "ok"

    def cmd_efork(self, ts):
        return self._fork_env("env")

    def cmd_mfork(self, ts):
        return self._fork_env("menv")

    def cmd_mreset(self, ts):
        try:
            self.last_obs, _ = self.menv.reset()
        except Exception:  # pylint: disable=broad-except
            return "raise"
        return f"{fmt_instance(self.menv.instance)} || {fmt_obs(self.last_obs)}"

    def cmd_mswap(self, ts):
        """the multi-instance environment's reward function replaced by one built the ordinary way"""
        cls = {"makespan_reward": MakespanReward, "idle_reward": IdleTimeReward}.get(ts[0])
        if cls is None:
            return "bad-op"
        try:
            obs = cls(self.menv.dispatcher)
        except Exception:  # pylint: disable=broad-except
            return "raise"
        self.menv.reward_function = obs
        return "ok"

    def cmd_mstep(self, ts):
        try:
            res = self.menv.step((int(ts[0]), int(ts[1])))
        except Exception:  # pylint: disable=broad-except
            return "raise"
        return self._fmt_step(res)

    @staticmethod
    def legal_actions(env):
        d = env.dispatcher
        acts = []
        for j, job in enumerate(d.instance.jobs):
            k = d.job_next_operation_index[j]
            if k >= len(job):
                continue
            op = job[k]
            ms = [(j, m) for m in op.machines]
            acts += ([(j, -1)] + ms) if len(op.machines) == 1 else ms
        return acts

    def _auto(self, env, k):
        acts = self.legal_actions(env)
        if not acts:
            return "no-legal-action"
        j, m = acts[k % len(acts)]
        self.last_action = (j, m)
        try:
            res = env.step((j, m))
        except Exception:  # pylint: disable=broad-except
            return f"act {j} {m} raise"
        return f"act {j} {m} {self._fmt_step(res)}"

    def cmd_edauto(self, ts):
        """the k-th legal decision dispatched on the environment's OWN dispatcher (an expert driving `env.dispatcher` directly)"""
        env = self.env
        acts = self.legal_actions(env)
        if not acts:
            return "no-legal-action"
        j, m = acts[int(ts[0]) % len(acts)]
        d = env.dispatcher
        op = d.instance.jobs[j][d.job_next_operation_index[j]]
        try:
            d.dispatch(op, op.machines[0] if m == -1 else m)
        except Exception:  # pylint: disable=broad-except
            return "raise"
        return "ok"

    def cmd_mbad(self, ts):
        """the k-th ILLEGAL decision in canonical order (jobs 0 … J, machine ids -2 … b); must be rejected"""
        k, b = int(ts[0]), int(ts[1])
        env = self.menv
        legal = set(self.legal_actions(env))
        J = len(env.dispatcher.instance.jobs)
        cands = [(j, m) for j in range(J + 1) for m in range(-2, b + 1) if (j, m) not in legal]
        j, m = cands[k % len(cands)]
        try:
            res = env.step((j, m))
        except Exception:  # pylint: disable=broad-except
            return f"bad {j} {m} raise"
        return f"bad {j} {m} {self._fmt_step(res)}"

    def cmd_eauto(self, ts):
        return self._auto(self.env, int(ts[0]))

    def cmd_mauto(self, ts):
        return self._auto(self.menv, int(ts[0]))


# ----------------------------------------------------------------------------------- CP-SAT solver (C03)
from job_shop_lib.constraint_programming import ORToolsSolver as _ORToolsSolver  # noqa: E402
from job_shop_lib.exceptions import NoSolutionFoundError as _NoSolution  # noqa: E402

_INT_MIN = -(2 ** 63)
_INT_MAX = 2 ** 63 - 1


def fmt_cp_proto(proto) -> str:
    """Canonical text of a CpModelProto (variable names dropped)."""
    doms = [tuple(v.domain) for v in proto.variables]
    if doms and all(d == doms[0] and len(d) == 2 for d in doms):
        out = [f"vars {len(doms)} dom {doms[0][0]} {doms[0][1]}"]
    else:
        out = ["vars " + " ".join("..".join(map(str, d)) for d in doms)]

    def expr(e):
        # a linear expression that is a plain variable, or a constant
        if len(e.vars) == 1 and e.coeffs[0] == 1 and e.offset == 0:
            return str(e.vars[0])
        if len(e.vars) == 0:
            return f"const{e.offset}"
        return "expr(" + ",".join(f"{c}*{x}" for c, x in zip(e.coeffs, e.vars)) + f"+{e.offset})"

    for c in proto.constraints:
        kind = c.WhichOneof("constraint")
        enf = f" if {list(c.enforcement_literal)}" if c.enforcement_literal else ""
        if kind == "linear":
            terms = " ".join(f"{co}*{x}" for co, x in zip(c.linear.coeffs, c.linear.vars))
            dom = list(c.linear.domain)
            if len(dom) != 2:
                out.append(f"lin {terms} in {dom}{enf}")
            else:
                lo = "-inf" if dom[0] == _INT_MIN else str(dom[0])
                hi = "inf" if dom[1] == _INT_MAX else str(dom[1])
                out.append(f"lin {terms} in {lo} {hi}{enf}")
        elif kind == "interval":
            size = c.interval.size
            sz = str(size.offset) if len(size.vars) == 0 else expr(size)
            out.append(f"itv {expr(c.interval.start)} {sz} {expr(c.interval.end)}{enf}")
        elif kind == "no_overlap":
            out.append("noov " + " ".join(str(i) for i in c.no_overlap.intervals) + enf)
        elif kind == "lin_max":
            out.append(f"linmax {expr(c.lin_max.target)} : " + " ".join(expr(e) for e in c.lin_max.exprs) + enf)
        else:
            out.append(f"other:{kind}")
    obj = proto.objective
    if len(obj.vars) == 1 and obj.coeffs[0] == 1 and obj.offset == 0 and obj.scaling_factor in (0, 1):
        out.append(f"min {obj.vars[0]}")
    else:
        out.append(f"objective {list(obj.vars)} {list(obj.coeffs)} {obj.offset} {obj.scaling_factor}")
    return " | ".join(out)


class ImplCp(ImplEnv):
    """`cpnew` makes a solver object; `cpsolve` solves the current instance with it (the same object across
    instances of one scenario); `cpmodel` prints the model it built."""

    def cmd_cpnew(self, ts):
        self.cp = _ORToolsSolver()
        self.cp_values = None
        return "ok"

    def model_line(self, line):
        if line.startswith("cpsolve") and getattr(self, "cp_values", None) is not None:
            return "cpsched " + " ".join(map(str, self.cp_values))
        return line

    def cmd_cpsolve(self, ts):
        if getattr(self, "cp", None) is None:
            self.cp = _ORToolsSolver()
        self.cp_values = None
        self.cp_result = None
        try:
            sched = self.cp(self.instance) if ts == ["call"] else self.cp.solve(self.instance)
        except _NoSolution:
            return "no-solution"
        except Exception as e:  # pylint: disable=broad-except
            self.cp_error = e
            return f"raise {type(e).__name__}"
        self.cp_result = sched
        self.cp_values = list(self.cp.solver.ResponseProto().solution)
        body = " | ".join(" ".join(fmt_sop(x) for x in ms) for ms in sched.schedule)
        return f"ok {body} ; reported {sched.metadata.get('makespan')} ; makespan {sched.makespan()}"

    def cmd_cpmodel(self, ts):
        if getattr(self, "cp", None) is None:
            return "bad-op"
        # the solver parameters the wrapper set (they are part of what is handed to CP-SAT, not of the proto)
        params = " ; ".join(l.strip() for l in str(self.cp.solver.parameters).splitlines() if l.strip())
        return fmt_cp_proto(self.cp.model.Proto()) + " | params " + params

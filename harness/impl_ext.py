"""Extensions of the interpreter used by individual properties (observers, rules, ...)."""
from __future__ import annotations

import jsl
from impl import Impl, lst


class ImplExt(Impl):
    def _new_dispatcher(self):
        super()._new_dispatcher()
        self.unsched_observer = None

    def cmd_q(self, ts):
        if ts[0] == "unsched_observer":
            if self.unsched_observer is None:
                self.unsched_observer = self.dispatcher.create_or_get_observer(jsl.UnscheduledOperationsObserver)
            return lst(o.operation_id for o in self.unsched_observer.unscheduled_operations)
        return super().cmd_q(ts)

"""Entry point: ./check <property id> [--tier quick|thorough] [--replay file]."""
import importlib
import os
import sys

HERE = os.path.dirname(os.path.abspath(__file__))
sys.path.insert(0, HERE)
sys.path.insert(0, os.path.join(HERE, "props"))


def main() -> int:
    if len(sys.argv) < 2:
        print("usage: check <property id> [--tier quick|thorough] [--replay file]")
        return 2
    pid = sys.argv[1]
    import framework
    try:
        mod = importlib.import_module(pid)
    except ModuleNotFoundError:
        print(f"no check for property {pid}")
        return 2
    try:
        return framework.main(mod.Check(), sys.argv[2:])
    except Exception as e:  # pylint: disable=broad-except
        import traceback
        traceback.print_exc()
        print(f"check error: {type(e).__name__}: {e}")
        return 2


if __name__ == "__main__":
    sys.exit(main())

"""C13 — dense rewards add up to the sparse objective."""
import random

import gen
import oracles
import slices
from framework import PropertyCheck, Scenario
from impl import instance_line


class Check(PropertyCheck):
    ID = "C13"
    LEAN_MODULE = "JobShopProofs.RewardWorld"
    THEOREMS = ["JS.C13_makespan_sum", "JS.C13_idle_sum", "JS.makespan_dispatch", "JS.C13_world"]
    RULE = ("random instance (flexible machine choices, zero durations, recirculation) x random history with invalid "
            "requests and resets, MakespanReward and IdleTimeReward subscribed from the start (in random order, possibly "
            "with other observers); rewards compared with the Lean model after every event; oracle on the real observers: "
            "one reward per accepted dispatch, each <= 0, running sum = -makespan resp. -(sum over machines of last end "
            "minus work done) recomputed from the schedule; non-trivial = >=3 accepted dispatches and at least one "
            "dispatch that did not extend the makespan or left an idle gap")
    ASSUMPTIONS = ["instances are valid", "reward observers are created on the fresh dispatcher (or reset with it)"]
    QUICK_N = 300

    def make_impl(self, scenario):
        from impl_ext import ImplWorld
        return ImplWorld(scenario.meta.get("filter_style", "callable"))

    def generate(self, rng, n, tier):
        for _ in range(n):
            yield self.scenario(rng, tier)

    def scenario(self, rng: random.Random, tier) -> Scenario:
        family, jobs = gen.gen_instance(rng, max_jobs=4, max_ops=4 if tier == "quick" else 6)
        if rng.random() < 0.06:
            # exact integer arithmetic: durations beyond 2**53 (where floats stop being exact)
            big = 2 ** rng.choice([53, 54, 60])
            jobs = [[(ms, d if rng.random() < 0.6 else big + rng.randint(0, 3)) for ms, d in job] for job in jobs]
            family = "huge"
        f = gen.gen_filter(rng)
        lines = ["new", instance_line(jobs), gen.filter_line(f)]
        kinds = ["makespan_reward", "idle_reward"] + rng.sample(["history", "recorder", "unscheduled"], rng.randint(0, 2))
        rng.shuffle(kinds)
        for idx, k in enumerate(kinds):
            if rng.random() < 0.25:
                # constructed with subscribe=False and subscribed by hand afterwards: still one reward per dispatch
                lines += ["obsn " + k, f"resub {idx}"]
            else:
                lines.append("obs " + k)
        tr = gen.Tracker(jobs)
        M = slices.num_machines_of(jobs)
        n_acc = 0
        while not tr.done():
            r = rng.random()
            if r < 0.1:
                bad = gen.gen_invalid_request(rng, tr, M)
                if bad:
                    lines += [f"disp {bad[0]} {bad[1]} {bad[2]}", "wsnap"]
            elif r < 0.13:
                lines += ["reset", "wsnap"]
                tr.reset()
            j, p, m = gen.gen_valid_request(rng, tr)
            tr.take(j)
            n_acc += 1
            lines += [f"disp {j} {p} {m}", "wsnap"]
        meta = {"family": family, "filter": "none" if f is None else "+".join(f) or "empty-composite",
                "flexible": gen.is_flexible(jobs), "zero_dur": gen.has_zero(jobs), "accepted": n_acc,
                "filter_style": rng.choice(["callable", "enum", "str"])}
        return Scenario(lines, meta)

    def nontrivial(self, scenario, outs):
        interesting = any(" 0 " in (" " + o.split("makespan_reward")[1].split("||")[0] + " ") for l, o in
                          zip(scenario.lines, outs) if l == "wsnap" and "makespan_reward" in o)
        return scenario.meta.get("accepted", 0) >= 3 and interesting

    def oracle(self, impl, scenario, index, line, out, ctx):
        res = []
        if line.startswith("inst"):
            ctx["n"] = 0
            return res
        if line == "reset":
            ctx["n"] = 0
        if line.startswith("disp") and out.startswith("ok"):
            ctx["n"] += 1
        if not (line.startswith("disp") or line == "reset"):
            return res
        d = impl.dispatcher
        lists = d.schedule.schedule
        mk = max((x.end_time for ms in lists for x in ms), default=0)
        idle = sum((ms[-1].end_time - sum(x.operation.duration for x in ms)) for ms in lists if ms)
        for i, kind in enumerate(impl.kinds):
            if kind not in ("makespan_reward", "idle_reward"):
                continue
            o = impl.heap[i]
            if len(o.rewards) != ctx["n"]:
                res.append(("count", f"{kind}: {len(o.rewards)} rewards after {ctx['n']} accepted dispatches (`{line}`)"))
            if any(r > 0 for r in o.rewards):
                res.append(("sign", f"{kind}: positive reward in {o.rewards}"))
            want = -mk if kind == "makespan_reward" else -idle
            if sum(o.rewards) != want:
                res.append((kind + "-sum", f"{kind}: sum(rewards)={sum(o.rewards)} (rewards={o.rewards}) but "
                            f"{'-makespan' if kind == 'makespan_reward' else '-total idle time'} = {want} after `{line}`"))
        return res

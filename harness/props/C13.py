"""C13 — dense rewards add up to the sparse objective."""
import random

import gen
import oracles
import slices
from framework import PropertyCheck, Scenario
from impl import instance_line


class Check(PropertyCheck):
    ID = "C13"
    LEAN_MODULE = "JobShopProofs.MultiEnvRewards"
    THEOREMS = ["JS.C13_makespan_sum", "JS.C13_idle_sum", "JS.makespan_dispatch", "JS.C13_world", "JS.C13_late_reward", "JS.C13_swapped_reward", "JS.C13_env", "JS.C13_multi_env", "JS.C13_multi_env_general", "JS.C18_multi_step_reward"]
    RULE = ("random instance (flexible machine choices, zero durations, recirculation) x random history with invalid "
            "requests and resets, MakespanReward and IdleTimeReward subscribed from the start (in random order, possibly "
            "with other observers); rewards compared with the Lean model after every event; oracle on the real observers: "
            "one reward per accepted dispatch, each <= 0, running sum = -makespan resp. -(sum over machines of last end "
            "minus work done) recomputed from the schedule; non-trivial = >=3 accepted dispatches and at least one "
            "dispatch that did not extend the makespan or left an idle gap")
    ASSUMPTIONS = ["instances are valid", "reward observers are created on the fresh dispatcher (or reset with it)"]
    QUICK_N = 300

    def make_impl(self, scenario):
        if scenario.meta.get("kind") in ("env", "multi"):
            from impl_ext import ImplEnv
            return ImplEnv(filter_style=scenario.meta.get("filter_style", "callable"))
        from impl_ext import ImplWorld
        return ImplWorld(scenario.meta.get("filter_style", "callable"))

    def generate(self, rng, n, tier):
        for i in range(n):
            if i % 12 == 11:
                yield self.multi_scenario(rng)
                continue
            if i % 12 == 8:
                yield Scenario(["new", f"mark selfunsub {rng.randint(0, 10**6)}"], {"kind": "selfunsub", "family": "selfunsub", "accepted": 3})
                continue
            if i % 12 == 7:
                yield Scenario(["new", f"mark raiser {rng.randint(0, 10**6)}"], {"kind": "raiser", "family": "raiser", "accepted": 3})
                continue
            yield self.env_scenario(rng) if i % 6 == 5 else self.scenario(rng, tier)

    def multi_scenario(self, rng: random.Random) -> Scenario:
        """The multi-instance environment: every episode has its own dispatcher; its reward function may be replaced at the
        start of an episode; the reward of a step is the reward emitted for that step by the CURRENT reward function."""
        j1, m1 = rng.randint(1, 3), rng.randint(1, 3)
        j2, m2 = j1 + rng.randint(0, 1), m1 + rng.randint(0, 1)
        d1 = rng.randint(0, 3)
        params = " ".join(map(str, [j1, j2, m1, m2, d1, d1 + rng.randint(0, 6), 1, 0, 1, 1]))
        rw = rng.choice(["makespan", "idle"])
        b = rng.choice(["disjunctive", "agent_task", "agent_task_jobs", "complete_agent_task"])
        draws = [rng.randint(0, 60) for _ in range(400)]
        f = gen.gen_filter(rng)
        lines = ["new", gen.filter_line(f), "menv " + " ; ".join([params, f"{b} 1 1 {rw} 1", "is_ready -", " ".join(map(str, draws))])]
        n_acc = 0
        for ep in range(rng.randint(2, 4)):
            lines.append("mreset")
            if rng.random() < 0.5:
                lines.append("mswap " + rng.choice(["makespan_reward", "idle_reward"]))
            for _ in range(rng.randint(1, j2 * m2)):
                lines.append(f"mauto {rng.randint(0, 50)}")
                n_acc += 1
        return Scenario(lines, {"kind": "multi", "family": "generated", "reward": rw, "accepted": n_acc,
                                "filter": "none" if f is None else "+".join(f) or "empty-composite", "flexible": False,
                                "filter_style": rng.choice(["callable", "enum", "str"])})

    def env_scenario(self, rng: random.Random) -> Scenario:
        """The last clause: the reward an environment step returns is the reward emitted for THAT step - also when the
        environment's dispatcher is used directly between steps (a warm start), and in later episodes."""
        family, jobs = gen.gen_instance(rng, max_jobs=4, max_ops=3)
        f = gen.gen_filter(rng)
        b = rng.choice(["disjunctive", "agent_task", "agent_task_jobs", "complete_agent_task"])
        rw = rng.choice(["makespan", "idle"])
        lines = ["new", instance_line(jobs), gen.filter_line(f), f"env {b} 1 1 {rw} 1 ; is_ready - ; duration -", "ereset"]
        tr = gen.Tracker(jobs)
        n_acc = 0
        for ep in range(rng.choice([1, 2])):
            while not tr.done():
                j, p, m = gen.gen_valid_request(rng, tr)
                tr.take(j)
                n_acc += 1
                if rng.random() < 0.3:
                    lines.append(f"edisp {j} {p} {m}")
                else:
                    ms, _ = jobs[j][p]
                    lines.append(f"estep {j} {-1 if m == 'none' else m}")
            lines.append("ereset")
            tr.reset()
            if rng.random() < 0.4:
                # the environment's reward function is replaced between episodes (by one built the ordinary way)
                lines.append("eswap " + rng.choice(["makespan_reward", "idle_reward"]))
                if rng.random() < 0.7:
                    ep_extra = True
                    while not tr.done():
                        j, p, m = gen.gen_valid_request(rng, tr)
                        tr.take(j)
                        n_acc += 1
                        lines.append(f"edisp {j} {p} {m}" if rng.random() < 0.2 else f"estep {j} {-1 if m == 'none' else m}")
                    lines.append("ereset")
                    tr.reset()
        return Scenario(lines, {"kind": "env", "family": family, "reward": rw, "accepted": n_acc,
                                "filter": "none" if f is None else "+".join(f) or "empty-composite",
                                "flexible": gen.is_flexible(jobs), "filter_style": rng.choice(["callable", "enum", "str"])})

    def scenario(self, rng: random.Random, tier) -> Scenario:
        family, jobs = gen.gen_instance(rng, max_jobs=4, max_ops=4 if tier == "quick" else 6)
        if rng.random() < 0.06:
            # exact integer arithmetic: durations beyond 2**53 (where floats stop being exact)
            big = 2 ** rng.choice([53, 54, 60])
            jobs = [[(ms, d if rng.random() < 0.6 else big + rng.randint(0, 3)) for ms, d in job] for job in jobs]
            family = "huge"
        f = gen.gen_filter(rng)
        lines = ["new", instance_line(jobs), gen.filter_line(f)]
        kinds = ["makespan_reward", "idle_reward"] + rng.sample(["history", "recorder", "unscheduled"], rng.randint(0, 2))
        rng.shuffle(kinds)
        for idx, k in enumerate(kinds):
            if rng.random() < 0.25:
                # constructed with subscribe=False and subscribed by hand afterwards: still one reward per dispatch
                lines += ["obsn " + k, f"resub {idx}"]
            else:
                lines.append("obs " + k)
        tr = gen.Tracker(jobs)
        M = slices.num_machines_of(jobs)
        n_acc = 0
        late_kind = None
        if rng.random() < 0.15:
            # one of the two reward observers is created LATE (in the middle of the first episode): judged from the next reset on
            late_kind = rng.choice(["makespan_reward", "idle_reward"])
            for pos, l in enumerate(list(lines)):
                if l in ("obs " + late_kind, "obsn " + late_kind):
                    del lines[pos:pos + (2 if l.startswith("obsn") else 1)]
                    kinds.remove(late_kind)
                    break
            # (ids of the `resub` lines that follow refer to positions in `kinds`: rebuild them)
            lines[:] = [l for l in lines if not l.startswith(("obs", "resub"))]
            for idx, k in enumerate(kinds):
                lines.append("obs " + k)
        late_at = rng.randint(1, max(1, gen.num_ops(jobs) - 1)) if late_kind else None
        while not tr.done():
            if late_kind and n_acc == late_at:
                kinds.append(late_kind)
                if rng.random() < 0.5:
                    lines += ["obs " + late_kind, "wsnap", "reset", "wsnap"]
                    tr.reset()
                    late_kind = None
                    continue
                # ... or the episode simply goes on: the late-comer is judged on what it has seen (or, should it choose to catch up
                # with the schedule it found, on the whole episode)
                lines += ["obs " + late_kind, "wsnap"]
                late_kind = None
            r = rng.random()
            if r < 0.1:
                bad = gen.gen_invalid_request(rng, tr, M)
                if bad:
                    lines += [f"disp {bad[0]} {bad[1]} {bad[2]}", "wsnap"]
            elif r < 0.13:
                who = [idx for idx, k in enumerate(kinds) if k in ("makespan_reward", "idle_reward")]
                if who and rng.random() < 0.3:
                    # a reward observer sits out a reset (unsubscribed, the dispatcher is reset, it is subscribed again) and the caller
                    # resets once more before going on: every reset resets whoever is subscribed, also when nothing was dispatched since
                    w_ = rng.choice(who)
                    lines += [f"unsub {w_}", "reset", f"resub {w_}", "reset", "wsnap"]
                else:
                    lines += ["reset", "wsnap"]
                tr.reset()
                if rng.random() < 0.4:
                    # one reward observer is retired and a new one (built the ordinary way) takes its place on the reset dispatcher:
                    # the same number of subscribers as before, other individuals
                    victim = rng.randrange(len(kinds))
                    if kinds[victim] in ("makespan_reward", "idle_reward"):
                        # (code that looks the reward observer up by its base class, before the swap and after it)
                        lines += ["cogb", f"unsub {victim}", "obs " + kinds[victim], "cogb", "wsnap"]
                        kinds.append(kinds[victim])
                        kinds[victim] = "retired"
            if rng.random() < 0.04:
                # the episode goes on with a copy of the dispatcher and its observers (a checkpoint restored; sometimes the checkpoint
                # lists the observers before their dispatcher); the original lives on and does something else
                lines += [rng.choice(["fork", "fork deepcopy heapfirst", "fork pickle", "fork pickle heapfirst"]), "wsnap"]
            j, p, m = gen.gen_valid_request(rng, tr)
            tr.take(j)
            n_acc += 1
            lines += [f"disp {j} {p} {m}", "wsnap"]
        meta = {"family": family, "filter": "none" if f is None else "+".join(f) or "empty-composite",
                "flexible": gen.is_flexible(jobs), "zero_dur": gen.has_zero(jobs), "accepted": n_acc,
                "filter_style": rng.choice(["callable", "enum", "str"])}
        return Scenario(lines, meta)

    def nontrivial(self, scenario, outs):
        if scenario.meta.get("kind") in ("env", "multi"):
            return scenario.meta.get("accepted", 0) >= 3
        interesting = any(" 0 " in (" " + o.split("makespan_reward")[1].split("||")[0] + " ") for l, o in
                          zip(scenario.lines, outs) if l == "wsnap" and "makespan_reward" in o)
        return scenario.meta.get("accepted", 0) >= 3 and interesting

    def oracle(self, impl, scenario, index, line, out, ctx):
        res = []
        if line.startswith("mark selfunsub"):
            import oracles as _o
            return _o.self_unsub_episode(int(line.split()[2]))["C13"]
        if line.startswith("mark raiser"):
            import oracles
            return oracles.raiser_episode(int(line.split()[2]))["C13"]
        if scenario.meta.get("kind") == "multi":
            if line.startswith("mauto") and not out.endswith("raise") and out.startswith("act "):
                _, reward, _, _, _ = impl.last_step
                rf = impl.menv.reward_function
                emitted = rf.rewards
                if not emitted or reward != emitted[-1]:
                    res.append(("step-reward", f"`{line}` returned reward {reward}, the reward emitted for that step is "
                                f"{emitted[-1] if emitted else None} (all rewards of the episode: {emitted})"))
                lists = impl.menv.dispatcher.schedule.schedule
                n = sum(len(ms) for ms in lists)
                mk = max((x.end_time for ms in lists for x in ms), default=0)
                idle = sum((ms[-1].end_time - sum(x.operation.duration for x in ms)) for ms in lists if ms)
                want = -mk if type(rf).__name__ == "MakespanReward" else -idle
                if len(emitted) != n or sum(emitted) != want or any(r > 0 for r in emitted):
                    res.append(("env-sum", f"after `{line}`: {type(rf).__name__} rewards {emitted} for {n} dispatches, expected sum {want}"))
            return res
        if scenario.meta.get("kind") == "env":
            if line.startswith("estep") and out != "raise":
                _, reward, _, _, _ = impl.last_step
                emitted = impl.env.reward_function.rewards
                if not emitted or reward != emitted[-1]:
                    res.append(("step-reward", f"`{line}` returned reward {reward}, the reward emitted for that step is "
                                f"{emitted[-1] if emitted else None} (all rewards of the episode: {emitted})"))
                lists = impl.env.dispatcher.schedule.schedule
                n = sum(len(ms) for ms in lists)
                mk = max((x.end_time for ms in lists for x in ms), default=0)
                idle = sum((ms[-1].end_time - sum(x.operation.duration for x in ms)) for ms in lists if ms)
                want = -mk if type(impl.env.reward_function).__name__ == "MakespanReward" else -idle
                if len(emitted) != n or sum(emitted) != want or any(r > 0 for r in emitted):
                    res.append(("env-sum", f"after `{line}`: rewards {emitted} for {n} dispatches, expected sum {want}"))
            return res
        if line.startswith("inst"):
            ctx["n"] = 0
            return res
        if line == "cogb" and getattr(impl, "last_cogb", None) is not None:
            got = impl.last_cogb
            if got[0] == "raised":
                res.append(("lookup", f"create_or_get_observer(RewardObserver) raised {got[1]} while a reward observer is subscribed"))
            elif not got[2]:
                res.append(("lookup", "create_or_get_observer(RewardObserver) handed out an observer that is not subscribed (it receives no "
                            "rewards any more)"))
            elif not got[1]:
                res.append(("lookup", "create_or_get_observer(RewardObserver) did not return the first subscribed reward observer"))
        if line == "reset":
            ctx["n"] = 0
            ctx["late"] = {}
        if line.startswith("disp") and out.startswith("ok"):
            ctx["n"] += 1
        d = impl.dispatcher
        if d is None:
            return res
        lists = d.schedule.schedule
        mk = max((x.end_time for ms in lists for x in ms), default=0)
        idle = sum((ms[-1].end_time - sum(x.operation.duration for x in ms)) for ms in lists if ms)
        late_now = False
        if line.startswith(("obs ", "obsn ")) and ctx.get("n", 0) > 0 and out.isdigit():
            # created in the middle of an episode: what the schedule looked like then
            ctx.setdefault("late", {})[int(out)] = (ctx["n"], mk, idle)
            late_now = True
        if not (line.startswith("disp") or line == "reset" or late_now):
            return res
        for i, kind in enumerate(impl.kinds):
            if kind not in ("makespan_reward", "idle_reward"):
                continue
            if i < len(getattr(impl, "sub_state", [])) and not impl.sub_state[i]:
                continue            # retired (unsubscribed) observers are not notified any more: nothing to add up
            o = impl.heap[i]
            if any(r > 0 for r in o.rewards):
                res.append(("sign", f"{kind}: positive reward in {o.rewards}"))
            if i in ctx.get("late", {}):
                # a late-comer: one reward per dispatch it has seen, adding up to minus what the objective grew by since it came - or,
                # if it caught up with the schedule it found, one per dispatch of the episode adding up to the whole objective
                n0, mk0, idle0 = ctx["late"][i]
                seen = (ctx["n"] - n0, -(mk - mk0) if kind == "makespan_reward" else -(idle - idle0))
                whole = (ctx["n"], -mk if kind == "makespan_reward" else -idle)
                if (len(o.rewards), sum(o.rewards)) not in (seen, whole):
                    res.append(("late", f"{kind} created after {n0} dispatches: rewards {o.rewards} after {ctx['n']} dispatches; expected "
                                f"{seen[0]} rewards adding up to {seen[1]} (or, caught up, {whole[0]} adding up to {whole[1]})"))
                continue
            if len(o.rewards) != ctx["n"]:
                res.append(("count", f"{kind}: {len(o.rewards)} rewards after {ctx['n']} accepted dispatches (`{line}`)"))
            want = -mk if kind == "makespan_reward" else -idle
            if sum(o.rewards) != want:
                res.append((kind + "-sum", f"{kind}: sum(rewards)={sum(o.rewards)} (rewards={o.rewards}) but "
                            f"{'-makespan' if kind == 'makespan_reward' else '-total idle time'} = {want} after `{line}`"))
        return res

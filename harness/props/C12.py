"""C12 — reset makes everything indistinguishable from new."""
import random

import gen
import slices
from framework import PropertyCheck, Scenario
from impl import instance_line

ALL_KINDS = ["is_ready", "earliest_start_time", "duration", "is_scheduled", "position_in_job",
             "remaining_operations", "is_completed", "unscheduled", "history", "makespan_reward", "idle_reward"]
SUPPORTED = {"position_in_job": "o", "remaining_operations": "mj"}
NO_FTS = {"unscheduled", "history", "makespan_reward", "idle_reward"}


class Check(PropertyCheck):
    ID = "C12"
    LEAN_MODULE = "JobShopProofs.EnvEpisodes"
    THEOREMS = ["JS.C12_dispatcher", "JS.C12_reset_isolated", "JS.C12_reset_history_rewards", "JS.C12_trace_after_reset",
                "JS.finv_reset", "JS.C12_fresh_fixpoint", "JS.C12_reset_forgets", "JS.C12_world",
                "JS.Env.make_is_run", "JS.C12_env_reset_fresh", "JS.C12_env_episodes_equal"]
    RULE = ("random instance x filter x random set and creation order of the built-in observers (seven feature observers "
            "with random feature-type subsets, helpers created lazily or eagerly beforehand, unscheduled, history, both "
            "rewards, composite); a first episode of random length (possibly partial, possibly only zero-duration "
            "operations), reset, then one or two further episodes; after the reset and after every later event the whole "
            "world (every observer's arrays, counters, deques, rewards, history; dispatcher state) is compared with the Lean "
            "model and with a FRESH set of real objects that replays only the events after the last reset; "
            "non-trivial = >=2 accepted dispatches before the reset, >=2 after, >=3 observers")
    ASSUMPTIONS = ["instances are valid", "observers stay subscribed; the composite is created after its parts"]
    QUICK_N = 200

    def make_impl(self, scenario):
        if scenario.meta.get("kind") in ("env", "multi"):
            from impl_ext import ImplEnv
            return ImplEnv(filter_style=scenario.meta.get("filter_style", "callable"))
        from impl_ext import ImplGraph
        return ImplGraph(scenario.meta.get("filter_style", "callable"))

    def generate(self, rng, n, tier):
        for i in range(n):
            if i % 10 == 9:
                yield self.env_scenario(rng)
                continue
            if i == 6:
                yield Scenario(["new", "mark float32 0"], {"kind": "raiser", "before": 2, "after": 2, "observers": 3})
                continue
            if i % 20 == 14:
                # an episode a user observer aborts by raising; the caller resets at once (seeds divisible by 3 do)
                yield Scenario(["new", f"mark raiser {3 * rng.randint(0, 10**5)}"], {"kind": "raiser", "before": 2, "after": 2, "observers": 3})
                continue
            if i % 20 == 4:
                # the multi-instance environment: every reset() starts an episode on a newly generated instance, as a freshly built
                # single environment on that instance would (compared with the model; the generator may carry an iteration limit,
                # which is none of reset()'s business)
                import C18
                sc = C18.Check().multi_scenario(rng)
                sc.meta.update({"kind": "multi", "before": 2, "after": 2, "observers": 3})
                yield sc
                continue
            yield self.scenario(rng, tier)

    def env_scenario(self, rng: random.Random) -> Scenario:
        """The environment: after `env.reset()` AND after a reset of its dispatcher alone (`env.dispatcher.reset()`), every later step
        returns what a freshly built environment returns for the same decisions - also when nothing is observed in between."""
        family, jobs = gen.gen_instance(rng, rng.choice(["classic", "irregular", "recirc", "flexible", "ties"]), max_jobs=3, max_machines=3,
                                        max_ops=3)
        f = gen.gen_filter(rng)
        b = rng.choice(["disjunctive", "agent_task", "agent_task_jobs", "complete_agent_task"])
        feats = rng.sample(["is_ready -", "duration -", "is_scheduled -", "remaining_operations -", "is_completed -", "position_in_job -",
                            "earliest_start_time -"], rng.randint(1, 3))
        lines = ["new", instance_line(jobs), gen.filter_line(f),
                 f"env {b} 1 1 {rng.choice(['makespan', 'idle'])} 1 ; " + " ; ".join(feats), "mark setup-done", "ereset"]
        total = gen.num_ops(jobs)
        before = after = 0
        for ep in range(rng.randint(2, 3)):
            # (an episode may be empty: resets back to back, also right after the constructor's first reset)
            direct = rng.random() < 0.3       # this episode is driven through env.dispatcher directly (no env.step at all)
            for _ in range(total if rng.random() < 0.4 else 0 if rng.random() < 0.25 else rng.randint(1, total)):
                lines.append(f"{'edauto' if direct else 'eauto'} {rng.randint(0, 50)}")
                before, after = (before + 1, after) if ep == 0 else (before, after + 1)
            lines.append("ereset" if direct else rng.choice(["ereset", "edreset", "edreset"]))
            while rng.random() < 0.3:
                lines.append(rng.choice(["ereset", "ereset", "edreset"]))
        lines.append(f"eauto {rng.randint(0, 50)}")
        return Scenario(lines, {"kind": "env", "family": family, "filter": "none" if f is None else "+".join(f) or "empty-composite",
                                "flexible": gen.is_flexible(jobs), "zero_dur": gen.has_zero(jobs), "before": before, "after": after,
                                "observers": 3, "filter_style": rng.choice(["callable", "enum", "str"])})

    def scenario(self, rng: random.Random, tier) -> Scenario:
        family, jobs = gen.gen_instance(rng, max_jobs=4, max_ops=3 if tier == "quick" else 4)
        f = gen.gen_filter(rng)
        if gen.has_zero(jobs):
            f = None if rng.random() < 0.7 else f
        lines = ["new", instance_line(jobs), gen.filter_line(f)]
        kinds = rng.sample(ALL_KINDS, rng.randint(2, 8))
        for k in kinds:
            if k in NO_FTS:
                lines.append(f"fobs {k} -")
            else:
                sup = SUPPORTED.get(k, "omj")
                fts = "-" if rng.random() < 0.5 else "".join(rng.sample(sup, rng.randint(1, len(sup))))
                lines.append(f"fobs {k} {fts}")
        if rng.random() < 0.7:
            lines.append("fcomp all")
        if rng.random() < 0.4:
            # the graph updater is one of the built-in observers the property names
            b_ = rng.choice(['disjunctive', 'agent_task', 'agent_task_jobs', 'complete_agent_task'])
            if rng.random() < 0.3:
                # the owner of the graph pruned it before handing it over (source/sink of the disjunctive graph, the global node,
                # some machine or job node): "fresh" means "as handed over"
                total_ = gen.num_ops(jobs)
                extra_ = [total_ + k for k in rng.sample(range(0, 3), rng.randint(1, 2))]
                lines.append(f"fresx {b_} {rng.choice([0, 1])} {rng.choice([0, 1])} " + " ".join(map(str, extra_)))
            else:
                lines.append(f"fres {b_} {rng.choice([0, 1])} {rng.choice([0, 1])}")
        lines.append("mark setup-done")
        lines.append("fsnap")
        tr = gen.Tracker(jobs)
        total = gen.num_ops(jobs)
        before = after = 0
        n_eps = rng.randint(2, 3)
        quiet = rng.random() < 0.3
        for ep in range(n_eps):
            stop = total if rng.random() < 0.5 else rng.randint(0, total)
            k = 0
            while not tr.done() and k < stop:
                j, p, m = gen.gen_valid_request(rng, tr, rng.choice(["uniform", "one_job_first"]))
                tr.take(j)
                k += 1
                lines.append(f"disp {j} {p} {m}")
                if not (quiet and ep > 0 and rng.random() < 0.5):
                    lines += ["fsnap", "snap"]
                if ep == 0 and rng.random() < 0.03:
                    # an observer is unsubscribed in the first episode: the fresh world unsubscribes it at the same place
                    # (a composite keeps reading its members: a member that is no longer reset would make the composite stale - the
                    #  user's doing; with a composite present only observers outside it are unsubscribed)
                    has_comp = any(l.startswith("fcomp") for l in lines)
                    pool = ["history", "makespan_reward", "idle_reward"] + ([] if has_comp else
                                                                            ["is_ready", "earliest_start_time", "duration", "is_scheduled", "position_in_job"])
                    lines += ["funsubk " + rng.choice(pool), "fsnap"]
                if ep == 0 and rng.random() < 0.12:
                    # an observer created in the middle of the first episode: after the reset it too is like new
                    late = rng.choice(["remaining_operations -", "is_completed -", "is_completed mj", "duration -",
                                       "earliest_start_time -", "is_scheduled -", "position_in_job -", "unscheduled -",
                                       "makespan_reward -", "idle_reward -", "history -"])
                    lines += ["fobs " + late, "fsnap"]
                if ep == 0:
                    before += 1
                else:
                    after += 1
            if quiet and ep > 0 and lines[-1] != "snap":
                lines += ["fsnap", "snap"]
            if ep < n_eps - 1:
                # quiet scenarios: nobody looks at the observers between the reset and the next dispatches
                lines += ["reset"] if quiet else ["reset", "fsnap", "snap"]
                tr.reset()
        meta = {"family": family, "filter": "none" if f is None else "+".join(f) or "empty-composite",
                "flexible": gen.is_flexible(jobs), "zero_dur": gen.has_zero(jobs), "before": before, "after": after,
                "observers": len(kinds), "filter_style": rng.choice(["callable", "enum", "str"])}
        return Scenario(lines, meta)

    def nontrivial(self, scenario, outs):
        m = scenario.meta
        return m.get("before", 0) >= 2 and m.get("after", 0) >= 2 and m.get("observers", 0) >= 3

    def oracle(self, impl, scenario, index, line, out, ctx):
        """Shadow world: fresh real objects that only ever see the events after the last reset."""
        res = []
        if line.startswith("mark float32"):
            # durations beyond 2**24: a freshly built EarliestStartTimeObserver accumulates its float32 start times operation by
            # operation (rounding at every step), its reset() recomputes them from exact integers - the two differ (a recorded finding)
            import numpy as _np
            import jsl as _jsl
            from job_shop_lib.dispatching.feature_observers import EarliestStartTimeObserver
            inst_ = _jsl.JobShopInstance([[_jsl.Operation(0, 16777217), _jsl.Operation(1, 1), _jsl.Operation(0, 5)]], name="f32")
            d_ = _jsl.Dispatcher(inst_)
            o_ = EarliestStartTimeObserver(d_)
            fresh_ = {k: v.copy() for k, v in o_.features.items()}
            for op_ in inst_.jobs[0][:2]:
                d_.dispatch(op_, op_.machines[0])
            d_.reset()
            for k, v in o_.features.items():
                if not _np.array_equal(v, fresh_[k]):
                    return [("est-float32-reset-vs-fresh", f"job [16777217, 1, 5]: EarliestStartTimeObserver {k.name.lower()} after reset "
                             f"{v.ravel().tolist()}, freshly built {fresh_[k].ravel().tolist()}")]
            return res
        if line.startswith("mark raiser"):
            import oracles as _or
            return _or.raiser_episode(int(line.split()[2]))["C12"]
        if scenario.meta.get("kind") == "raiser":
            return res
        if scenario.meta.get("kind") == "multi":
            if line == "mreset" and out == "raise" and not scenario.meta.get("may_refuse") and not scenario.meta.get("recirc") \
                    and not scenario.meta.get("multi_machine"):
                res.append(("reset-raised", "MultiJobShopGraphEnv.reset() raised: no new episode although the generator can generate"))
            # every episode is like a first one: what reset() and the steps return is judged as the environment contract judges a
            # first episode (padding, mask, edge list, done) - nothing of an earlier, larger episode shows
            import C18
            if "c18" not in ctx:
                ctx["c18"] = (C18.Check(), {})
            chk, sub = ctx["c18"]
            for kind_, msg in chk.oracle(impl, scenario, index, line, out, sub):
                if kind_ == "multi-env-space-undersized":
                    continue        # (the recorded open finding of C18: reported there, under its own key)
                res.append(("episode-like-first:" + kind_, "a later episode of the multi-instance environment: " + msg))
            return res
        if scenario.meta.get("kind") == "env":
            from impl_ext import ImplEnv
            if line == "new":
                ctx["setup"], ctx["shadow"], ctx["setup_done"] = [], None, False
                return res
            if not ctx.get("setup_done"):
                ctx["setup"].append(line)
                ctx["setup_done"] = line == "mark setup-done"
                return res
            if line in ("ereset", "edreset"):
                # a freshly built environment (its dispatcher is fresh; `ereset` additionally returns the first observation)
                shadow = ImplEnv(filter_style=scenario.meta.get("filter_style", "callable"))
                for l in ["new"] + ctx["setup"]:
                    shadow.exec(l)
                ctx["shadow"] = shadow
                if line == "ereset":
                    want = shadow.exec("ereset")
                    if want != out:
                        res.append(("reset-vs-fresh:ereset", "the observation env.reset() returns differs from a freshly built environment's first observation"))
                return res
            shadow = ctx.get("shadow")
            if shadow is not None and line.startswith("eauto"):
                want = shadow.exec(line)
                if want != out:
                    a, b = out.split(" | "), want.split(" | ")
                    diff = next(((x, y) for x, y in zip(a, b) if x != y), (out, want))
                    res.append(("reset-vs-fresh:step", f"`{line}` after `{[l for l in scenario.lines[:index] if l in ('ereset', 'edreset')][-1]}`: the "
                                f"reset environment returns `{diff[0][:200]}`, a freshly built one `{diff[1][:200]}`"))
            return res
        from impl_ext import ImplGraph as ImplFeat
        if line == "new":
            ctx["setup"] = []
            ctx["shadow"] = None
            ctx["setup_done"] = False
            return res
        if not ctx.get("setup_done"):
            ctx["setup"].append(line)
            if line == "mark setup-done":
                ctx["setup_done"] = True
            return res
        if line.startswith(("fobs", "fcomp", "fres", "funsubk")) and not out.startswith("raise"):
            ctx["setup"].append(line)        # created later: the fresh world creates it at the same place in the order
        if line == "reset":
            shadow = ImplFeat(scenario.meta.get("filter_style", "callable"))
            for l in ["new"] + ctx["setup"]:
                shadow.exec(l)
            ctx["shadow"] = shadow
            return res
        shadow = ctx.get("shadow")
        if shadow is None:
            return res
        want = shadow.exec(line)
        if line == "fsnap":
            # observers the user unsubscribed are not reset by the dispatcher (nor notified): only the subscribed ones are compared
            def subscribed_only(txt):
                parts = txt.split(" || ")
                subs = set(parts[0].split()[1:])
                return " || ".join([parts[0]] + [p for p in parts[1:] if p.split(":", 1)[0] in subs])
            out, want = subscribed_only(out), subscribed_only(want)
        if want != out:
            kind = "after-reset" if scenario.lines[index - 1] == "reset" or scenario.lines[index - 2] == "reset" else "later"
            a, b = out.split(" || "), want.split(" || ")
            diff = next(((x, y) for x, y in zip(a, b) if x != y), (out, want))
            res.append((f"reset-vs-fresh:{line.split()[0]}",
                        f"`{line}` ({kind}): reset objects give `{diff[0]}`, fresh objects give `{diff[1]}`"))
        return res

"""C02 — start times are forced, bookkeeping matches the schedule, histories replay."""
import jsl
import gen
import oracles
import slices
from framework import PropertyCheck, Scenario


class Check(PropertyCheck):
    ID = "C02"
    LEAN_MODULE = "JobShopProofs.ObserversTransparent"
    THEOREMS = [
        "JS.C02_start_forced",
        "JS.C02_tracking",
        "JS.C02_reset_eq_init",
        "JS.C02_replay",
        "JS.C02_replay_from_reset", "JS.C02_world_tracking"]
    RULE = ("random instance (10 families) x random filter x random valid history with invalid requests and queries "
            "interleaved, then reset and re-dispatch of the accepted requests; snapshot compared with the Lean model "
            "after every request; oracle: start = max(job predecessor end, last end on machine) recomputed from the "
            "schedule before the dispatch, tracking vectors / count / makespan recomputed from the schedule alone, "
            "replay of the recorded (operation, machine) sequence on a fresh and on the reset dispatcher gives the "
            "identical schedule; non-trivial = >=3 accepted dispatches")
    ASSUMPTIONS = ["instances are valid (non-empty duplicate-free machine lists, durations >= 0)"]
    QUICK_N = 300

    def make_impl(self, scenario):
        if scenario.meta.get("observers"):
            from impl_ext import ImplEnv
            impl = ImplEnv(filter_style=scenario.meta.get("filter_style", "callable"))
        else:
            from impl import Impl
            impl = Impl(scenario.meta.get("filter_style", "callable"))
        return impl

    def generate(self, rng, n, tier):
        if tier == "thorough":
            # exhaustive small scope first (every instance <= 2 jobs x 2 operations, durations 0..2, every interleaving)
            self.extra_coverage = {"exhaustive_small_scope": True}
            yield from slices.exhaustive_small("snap")
        for _i in range(n):
            if _i % 15 == 14:
                yield slices.zero_first_scenario(rng)
                continue
            if _i % 15 == 6:
                yield slices.stale_ready_scenario(rng)
                continue
            if _i % 15 == 3:
                yield Scenario(["new", f"mark customfilter {rng.randint(0, 10**6)}"], {"family": "custom_filter", "accepted": 3, "style": "custom_filter"})
                continue
            if _i % 15 == 13:
                yield Scenario(["new", f"mark presolve {rng.randint(0, 10**6)}"], {"family": "presolve", "accepted": 3, "style": "presolve"})
                continue
            if _i % 15 == 11:
                yield Scenario(["new", f"mark selfunsub {rng.randint(0, 10**6)}"], {"family": "selfunsub", "accepted": 3, "style": "selfunsub"})
                continue
            if _i % 15 == 10:
                yield Scenario(["new", f"mark raiser {rng.randint(0, 10**6)}"], {"family": "raiser", "accepted": 3, "style": "raiser"})
                continue
            yield slices.dispatch_scenario(rng, observers=True, peeks=True, with_invalid=True, replay=True, queries=True,
                                           max_jobs=4 if tier == "quick" else 5,
                                           max_ops=4 if tier == "quick" else 6)

    def oracle(self, impl, scenario, index, line, out, ctx):
        res = []
        if line.startswith("mark presolve"):
            # a bare dispatcher (no observers) the caller started by hand is handed to a rule solver to finish: afterwards the dispatcher's
            # bookkeeping still is what ITS schedule implies, and that schedule is the one the solver returned
            import random as _random
            import jsl as _jsl
            from impl import build_instance
            from job_shop_lib.dispatching.rules import DispatchingRuleSolver
            r = _random.Random(int(line.split()[2]))
            _, jobs_ = gen.gen_instance(r, r.choice(["classic", "irregular", "recirc", "flexible"]), max_jobs=3, max_machines=3, max_ops=3)
            inst_ = build_instance(jobs_)
            d_ = _jsl.Dispatcher(inst_)
            tr_ = gen.Tracker(jobs_)
            for _ in range(r.randint(0, 2)):
                if tr_.done():
                    break
                j, p, m = gen.gen_valid_request(r, tr_)
                tr_.take(j)
                d_.dispatch(inst_.jobs[j][p], None if m == "none" else int(m))
            solver = DispatchingRuleSolver(r.choice(["most_work_remaining", "shortest_processing_time"]), ready_operations_filter=None)
            try:
                sched = solver.solve(inst_, d_)
            except Exception as e:  # pylint: disable=broad-except
                return [("tracking", f"solve(instance, dispatcher) on a hand-started bare dispatcher raised {e!r}")]
            t = oracles.derive_tracking(inst_, d_.schedule.schedule)
            out_ = []
            if list(d_.machine_next_available_time) != t["mach_next"] or list(d_.job_next_operation_index) != t["job_idx"] or \
                    list(d_.job_next_available_time) != t["job_next"]:
                out_.append(("tracking", f"after solve(instance, dispatcher): the dispatcher's tracking (job index {list(d_.job_next_operation_index)}) "
                             f"is not what its own schedule implies ({t['job_idx']}; {t['count']} operations in dispatcher.schedule)"))
            if oracles.dump_schedule(sched.schedule) != oracles.dump_schedule(d_.schedule.schedule):
                out_.append(("tracking", "after solve(instance, dispatcher): the returned schedule is not the dispatcher's schedule"))
            return out_
        if line.startswith("mark selfunsub"):
            import oracles as _o
            return _o.self_unsub_episode(int(line.split()[2]))["C02"]
        if line.startswith("mark raiser"):
            return oracles.raiser_episode(int(line.split()[2]))["C02"]
        if line.startswith("mark customfilter"):
            return oracles.custom_filter_episode(int(line.split()[2]))["C02"]
        d = impl.dispatcher
        if line.startswith("inst"):
            ctx["hobs"] = None
            ctx["kept"] = None
        setup = ("new", "inst", "filter", "fobs", "fres")
        nxt = scenario.lines[index + 1] if index + 1 < len(scenario.lines) else ""
        if ctx.get("hobs") is None and d is not None and getattr(d, "instance", None) is not None and \
                line.startswith(setup[1:]) and not nxt.startswith(setup):
            # a history observer of our own (subscribed after the scenario's own observers, before the first event): its record
            # is "the recorded history" the property speaks of
            ctx["hobs"] = jsl.HistoryObserver(d)
            ctx["held"] = ctx["hobs"].history
            ctx["held_copy"] = list(ctx["held"])
        if ctx.get("kept") is not None and index == len(scenario.lines) - 1:
            # the history a caller KEPT from an earlier episode (the list object and its entries) still says what happened then
            kept, copy_ = ctx["kept"]
            now_ = [(x.operation.operation_id, x.machine_id, x.start_time) for x in kept]
            if now_ != copy_:
                res.append(("recorded-history-destroyed", f"the history kept from an earlier episode changed while later episodes ran: was "
                            f"{copy_}, is now {now_}"))
        if line == "reset" and ctx.get("hobs") is not None and ctx.get("kept") is None and len(ctx.get("held") or []) >= 2:
            kept_list = list(ctx["held"])           # the caller's own list of the entries recorded before this reset
            ctx["kept"] = (kept_list, [(x.operation.operation_id, x.machine_id, x.start_time) for x in kept_list])
        if line == "reset" and ctx.get("hobs") is not None:
            # the list a caller took from the observer before the reset is still the recorded history
            if [(x.operation.operation_id, x.machine_id) for x in ctx["held"]] != \
                    [(x.operation.operation_id, x.machine_id) for x in ctx["held_copy"]]:
                res.append(("recorded-history-destroyed", f"the history recorded before reset() ({len(ctx['held_copy'])} "
                            f"entries, taken from HistoryObserver.history) has {len(ctx['held'])} entries after reset(): "
                            "it cannot be re-dispatched"))
            ctx["held"] = ctx["hobs"].history
            ctx["held_copy"] = list(ctx["held"])
        if line.startswith("inst") or line == "reset":
            if line == "reset" and ctx.get("history"):
                ctx["before_reset"] = (ctx["last_dump"], list(ctx["history"]))
            ctx["history"] = []
            ctx["before"] = oracles.dump_schedule(d.schedule.schedule)
            ctx["before_lists"] = [list(ms) for ms in d.schedule.schedule]
            ctx["last_dump"] = ctx["before"]
            if line == "reset":
                tr = oracles.derive_tracking(impl.instance, d.schedule.schedule)
                if any(d.schedule.schedule) or d.machine_next_available_time != tr["mach_next"] or \
                        d.job_next_operation_index != tr["job_idx"] or d.job_next_available_time != tr["job_next"]:
                    res.append(("reset", "state after reset() differs from a fresh dispatcher"))
            return res
        if not line.startswith("disp"):
            return res
        ts = line.split()
        j, p = int(ts[1]), int(ts[2])
        op = impl.instance.jobs[j][p]
        now = oracles.dump_schedule(d.schedule.schedule)
        if out.startswith("ok"):
            x = impl.find_sop(op.operation_id)
            m = x.machine_id
            expected = oracles.forced_start(impl.instance, ctx["before_lists"], op, m)
            if x.start_time != expected:
                res.append(("start", f"`{line}`: operation {op.operation_id} on machine {m} started at {x.start_time}, "
                            f"forced start max(job_ready, machine_free) = {expected}"))
            # exactly one entry appended, on machine m
            exp_dump = [list(ms) for ms in ctx["before"]]
            exp_dump[m] = exp_dump[m] + [(op.operation_id, x.start_time, m)]
            if now != exp_dump:
                res.append(("append", f"`{line}`: schedule changed other than by appending the operation to machine {m}"))
            ctx["history"].append((op, m))
        else:
            if now != ctx["before"]:
                res.append(("rejected-changed", f"rejected `{line}` changed the schedule"))
        tr = oracles.derive_tracking(impl.instance, d.schedule.schedule)
        if list(d.machine_next_available_time) != tr["mach_next"]:
            res.append(("tracking", f"after `{line}`: machine_next_available_time={d.machine_next_available_time} "
                        f"but the schedule implies {tr['mach_next']}"))
        if list(d.job_next_operation_index) != tr["job_idx"]:
            res.append(("tracking", f"after `{line}`: job_next_operation_index={d.job_next_operation_index} "
                        f"but the schedule implies {tr['job_idx']}"))
        if list(d.job_next_available_time) != tr["job_next"]:
            res.append(("tracking", f"after `{line}`: job_next_available_time={d.job_next_available_time} "
                        f"but the schedule implies {tr['job_next']}"))
        if d.schedule.num_scheduled_operations != tr["count"]:
            res.append(("tracking", f"after `{line}`: num_scheduled_operations={d.schedule.num_scheduled_operations} "
                        f"but the schedule has {tr['count']} entries"))
        if d.schedule.makespan() != tr["makespan"]:
            res.append(("makespan", f"after `{line}`: makespan()={d.schedule.makespan()} but the latest end time in "
                        f"the schedule is {tr['makespan']}"))
        ctx["before"] = now
        ctx["before_lists"] = [list(ms) for ms in d.schedule.schedule]
        ctx["last_dump"] = now
        if ctx.get("hobs") is not None:
            ctx["held"] = ctx["hobs"].history
            ctx["held_copy"] = list(ctx["held"])
            got = [(x.operation.operation_id, x.machine_id) for x in ctx["held"]]
            want = [(o.operation_id, m) for o, m in ctx["history"]]
            if got != want:
                res.append(("history-record", f"HistoryObserver recorded {got}, accepted sequence is {want}"))
        # replay checks at the end of the scenario
        if index == len(scenario.lines) - 2 and ctx.get("before_reset"):
            dump0, hist0 = ctx["before_reset"]
            if now != dump0:
                res.append(("replay-reset", "re-dispatching the accepted requests after reset() gave a different schedule"))
            fresh = jsl.Dispatcher(impl.instance)
            try:
                for o, m in hist0:
                    fresh.dispatch(o, m)
                if oracles.dump_schedule(fresh.schedule.schedule) != dump0:
                    res.append(("replay-fresh", "re-dispatching the recorded history on a fresh dispatcher gave a "
                                "different schedule"))
            except Exception as e:  # pylint: disable=broad-except
                res.append(("replay-fresh", f"re-dispatching the recorded history on a fresh dispatcher raised {e!r}"))
        return res

"""C10 — observers see every dispatch once, in order, after it took effect."""
import random

import gen
import oracles
import slices
from framework import PropertyCheck, Scenario
from impl import instance_line

KINDS = ["history", "unscheduled", "makespan_reward", "idle_reward", "recorder", "recorder"]


class Check(PropertyCheck):
    ID = "C10"
    LEAN_MODULE = "JobShopProofs.Properties.C10All"
    THEOREMS = [
        "JS.C10_dispatch_notifies", "JS.C10_recorder_sees_post_state", "JS.C10_rejected_silent", "JS.C10_reset_once",
        "JS.C10_unsubscribe", "JS.C10_detached", "JS.C10_singleton", "JS.C10_create_or_get", "JS.C10_create_or_get_cond", "JS.C10_history", "JS.C10_world_history", "JS.C10_world_history_state",
        "JS.C10_world_unsubscribed_frozen_any", "JS.C10_world_nonsubscribed_frozen_any", "JS.C10_findObs_subscribed",
        "JS.Notify.C10_snapRound_notifies_snapshot", "JS.Notify.C10_snapRound_final", "JS.Notify.C10_liveRound_quiet", "JS.Notify.C10_liveRound_skips_next", "JS.Notify.C10_snapRound_oneShot", "JS.Notify.liveRound_oneShot_eq",
    ]
    RULE = ("random instance x random event list over {construct(history|unscheduled|makespan_reward|idle_reward|recorder; also with subscribe=False), "
            "create_or_get, unsubscribe, re-subscribe, valid and invalid dispatch, reset}; several recorder observers (a "
            "DispatcherObserver subclass of the harness that logs, inside update()/reset(), the scheduled operation and a "
            "snapshot of schedule, vectors, current_time() and unscheduled_operations()) share a global call trace; the whole "
            "world (subscriber list, every observer's state, the trace) is compared with the Lean model after every event; "
            "oracle: per dispatch the trace grows by exactly one entry per subscribed recorder in subscription order, "
            "each logged snapshot already contains the operation, rejected requests and unsubscribed observers log nothing, "
            "history == accepted sequence; non-trivial = >=3 accepted dispatches with >=2 observers subscribed")
    ASSUMPTIONS = ["instances are valid",
                   "calling Dispatcher.subscribe twice on one object is API misuse outside the event alphabet"]
    QUICK_N = 250

    def make_impl(self, scenario):
        from impl_ext import ImplEnv
        impl = ImplEnv(filter_style=scenario.meta.get("filter_style", "callable"))
        impl.subclass_mode = bool(scenario.meta.get("subclass"))
        return impl

    def generate(self, rng, n, tier):
        for i in range(n):
            if i % 20 == 13:
                yield Scenario(["new", f"mark selfunsub {rng.randint(0, 10**6)}"], {"accepted": 0})
                continue
            if i % 20 == 12:
                yield Scenario(["new", f"mark raiser {rng.randint(0, 10**6)}"], {"accepted": 0})
                continue
            if i % 20 == 7:
                yield Scenario(["new", f"mark twins {rng.randint(0, 10**6)}"], {"accepted": 0})
                continue
            if i % 40 == 39:
                yield Scenario(["new", f"mark cogsingleton {rng.randint(0, 10**6)}"], {"accepted": 0})
                continue
            yield self.scenario(rng, tier)

    def scenario(self, rng: random.Random, tier) -> Scenario:
        family, jobs = gen.gen_instance(rng, max_jobs=4, max_ops=3 if tier == "quick" else 5)
        f = gen.gen_filter(rng)
        lines = ["new", instance_line(jobs), gen.filter_line(f)]
        tr = gen.Tracker(jobs)
        M = slices.num_machines_of(jobs)
        n_obs = 0
        subscribed = set()
        n_acc = 0
        if rng.random() < 0.12:
            # a singleton is retired and replaced; the caller then unsubscribes the retired one AGAIN (an error, nothing happens) and tries
            # to construct a third: refused, the second one is subscribed
            k_ = rng.choice(["history", "unscheduled", "makespan_reward", "idle_reward"])
            lines += [f"obs {k_}", "unsub 0", f"obs {k_}", "unsub 0", f"obs {k_}", f"obsn2 {k_}", "wsnap"]
        for _ in range(rng.randint(0, 4)):
            lines.append("obs " + rng.choice(KINDS))
        for _ in range(rng.randint(0, 2)):
            lines.append(f"obs recorder {rng.randint(0, 2)}")
        if rng.random() < 0.4:
            lines.append("obsn " + rng.choice(KINDS))
        lines.append("wsnap")
        steps = 0
        while not tr.done() and steps < 60:
            steps += 1
            r = rng.random()
            if r < 0.06:
                lines.append("obs " + rng.choice(KINDS))
            elif r < 0.09:
                # constructed with subscribe=False (and, one time in two, subscribed by hand straight away - if the constructor
                # let it be: a second observer of a singleton type is refused whatever the flag says)
                lines.append(rng.choice(["obsn ", "obsn2 "]) + rng.choice(KINDS))
            elif r < 0.12:
                lines.append(f"obs recorder {rng.randint(0, 2)}")
            elif r < 0.15:
                lines.append(f"cogc recorder {rng.randint(0, 2)}")
            elif r < 0.17:
                # a keyword argument for the constructor, no condition: whoever of that class is subscribed is returned as it is
                lines.append(f"cogk recorder {rng.randint(0, 2)}")
            elif r < 0.20:
                lines.append("cog " + rng.choice(KINDS[:5]))
            elif r < 0.24:
                lines.append(f"unsub {rng.randint(0, 7)}")
            elif r < 0.30:
                lines.append(f"resub {rng.randint(0, 7)}")
            elif r < 0.34:
                lines.append("reset")
                tr.reset()
            elif r < 0.36:
                # a constructor that REFUSES its arguments (a feature type the observer does not support): it raises, and nobody
                # has been subscribed
                lines.append(rng.choice(["fobs remaining_operations o", "fobs position_in_job m", "fobs position_in_job mj",
                                         "fobs remaining_operations oj", "fobs position_in_job j"]))
            elif r < 0.44:
                bad = gen.gen_invalid_request(rng, tr, M)
                if bad:
                    lines.append(f"disp {bad[0]} {bad[1]} {bad[2]}")
            else:
                if rng.random() < 0.3:
                    # the user (or a rule / filter) looked at the dispatcher just before deciding
                    nops = gen.num_ops(jobs)
                    for _q in range(rng.randint(1, 4)):
                        lines.append(rng.choice([f"q earliest_start {rng.randrange(nops)}", "q available", "q current_time",
                                                 "q ongoing", "q unscheduled", "q raw_ready"]))
                j, p, m = gen.gen_valid_request(rng, tr)
                tr.take(j)
                n_acc += 1
                lines.append(f"disp {j} {p} {m}")
            lines.append("wsnap")
            lines.append("trace")
        if rng.random() < 0.25:
            # a history observer is retired with its record and kept; a whole further episode (other order) is played: the record stays
            hid = sum(1 for l in lines if l.startswith(("obs ", "obsn ", "obsn2 ", "cog")))     # (an upper bound is fine: unknown ids raise)
            lines += ["reset", "obs history", "wsnap"]
            tr.reset()
            for _ in range(rng.randint(1, gen.num_ops(jobs))):
                if tr.done():
                    break
                j, p, m = gen.gen_valid_request(rng, tr, "one_job_first")
                tr.take(j)
                lines.append(f"disp {j} {p} {m}")
            lines += [f"unsub {k}" for k in range(hid + 1)] + ["reset"]
            tr.reset()
            while not tr.done():
                j, p, m = gen.gen_valid_request(rng, tr, "last_job_first")
                tr.take(j)
                lines.append(f"disp {j} {p} {m}")
            lines.append("wsnap")
        meta = {"family": family, "filter": "none" if f is None else "+".join(f) or "empty-composite",
                "flexible": gen.is_flexible(jobs), "accepted": n_acc,
                # user subclasses of the library observers (found by create_or_get_observer(Base) through isinstance)
                "subclass": rng.random() < 0.3,
                "filter_style": rng.choice(["callable", "enum", "str"])}
        return Scenario(lines, meta)

    def nontrivial(self, scenario, outs):
        two = any(l == "wsnap" and len(o.split("||")[0].split()) >= 3 for l, o in zip(scenario.lines, outs))
        return scenario.meta.get("accepted", 0) >= 3 and two

    def cog_singleton_oracle(self, seed):
        """create_or_get_observer with a condition, on SINGLETON observer types: the result satisfies the condition (or the
        call raises) - never the first observer of the type regardless of the condition."""
        import jsl
        from job_shop_lib.reinforcement_learning import MakespanReward, IdleTimeReward, RewardObserver
        r = random.Random(seed)
        _, jobs = gen.gen_instance(r, "classic", max_jobs=3, max_machines=3, max_ops=3)
        from impl import build_instance
        inst = build_instance(jobs)
        d = jsl.Dispatcher(inst)
        first, second = r.sample([MakespanReward, IdleTimeReward], 2)
        a, b = first(d), second(d)
        h = jsl.HistoryObserver(d)
        d.dispatch(inst.jobs[0][0], inst.jobs[0][0].machines[0])
        res = []
        for want in (first, second):
            try:
                got = d.create_or_get_observer(RewardObserver, condition=lambda o, w=want: isinstance(o, w))
            except Exception:  # pylint: disable=broad-except
                continue
            if not isinstance(got, want):
                res.append(("create-or-get", f"create_or_get_observer(RewardObserver, condition=is a {want.__name__}) returned a "
                            f"{type(got).__name__} (subscribed: {first.__name__}, {second.__name__})"))
        try:
            got = d.create_or_get_observer(jsl.HistoryObserver, condition=lambda o: not o.history)
        except Exception:  # pylint: disable=broad-except
            got = None
        if got is not None and got.history:
            res.append(("create-or-get", "create_or_get_observer(HistoryObserver, condition=empty record) returned the observer "
                        "that has already recorded a dispatch"))
        return res

    def twin_observers_oracle(self, seed):
        """Subscribers are individuals: of two observers of the same class with the same configuration (and, for feature
        observers, equal feature arrays) exactly the one that was unsubscribed stops being notified - for every built-in
        observer class that may be subscribed twice, and for user subclasses."""
        import jsl
        from job_shop_lib.dispatching.feature_observers import (IsReadyObserver, DurationObserver, IsScheduledObserver,
                                                                  PositionInJobObserver, RemainingOperationsObserver,
                                                                  EarliestStartTimeObserver, IsCompletedObserver)
        r = random.Random(seed)
        _, jobs = gen.gen_instance(r, r.choice(["classic", "irregular", "flexible"]), max_jobs=3, max_machines=3, max_ops=3)
        from impl import build_instance
        inst = build_instance(jobs)
        d = jsl.Dispatcher(inst)
        base = r.choice([IsReadyObserver, DurationObserver, IsScheduledObserver, PositionInJobObserver,
                         RemainingOperationsObserver, EarliestStartTimeObserver, IsCompletedObserver])
        calls = []

        def update(self, scheduled_operation):
            calls.append((self.label, "U"))
            return base.update(self, scheduled_operation)

        def reset(self):
            calls.append((self.label, "R"))
            return base.reset(self)
        cls = type("Counting" + base.__name__, (base,), {"update": update, "reset": reset, "label": None})
        obs = []
        for label in "abc"[:r.randint(2, 3)]:
            o = cls(d)
            o.label = label
            obs.append(o)
        other = jsl.HistoryObserver(d)
        victim = r.randrange(1, len(obs))          # never the first of its kind
        tr = gen.Tracker(jobs)
        for _ in range(r.randint(0, 2)):
            if tr.done():
                break
            j, p, m = gen.gen_valid_request(r, tr)
            tr.take(j)
            d.dispatch(inst.jobs[j][p], None if m == "none" else int(m))
        before = list(d.subscribers)        # includes the helper observers some feature observers create for themselves
        d.unsubscribe(obs[victim])
        res = []
        want_subs = [o for o in before if o is not obs[victim]]
        if [id(o) for o in d.subscribers] != [id(o) for o in want_subs]:
            res.append(("unsubscribe", f"{base.__name__} x{len(obs)} + history subscribed, `{obs[victim].label}` unsubscribed: "
                        f"subscribers are now {[getattr(o, 'label', type(o).__name__) for o in d.subscribers]}"))
        # an observer that is NOT subscribed (built with subscribe=False) and the one just unsubscribed are handed to a composite:
        # being aggregated is not being subscribed - neither of them is notified by the dispatcher, directly or through the composite
        from job_shop_lib.dispatching.feature_observers import CompositeFeatureObserver
        detached = cls(d, subscribe=False)
        detached.label = "detached"
        comp_members = [o for k, o in enumerate(obs) if k != victim][:1] + [detached, obs[victim]]
        try:
            CompositeFeatureObserver(d, feature_observers=comp_members)
        except Exception:  # pylint: disable=broad-except
            pass
        calls.clear()
        if not tr.done():
            j, p, m = gen.gen_valid_request(r, tr)
            d.dispatch(inst.jobs[j][p], None if m == "none" else int(m))
        d.reset()
        labels = [o.label for k, o in enumerate(obs) if k != victim]
        want_calls = ([(l, "U") for l in labels] if not tr.done() else []) + [(l, "R") for l in labels]
        if calls != want_calls:
            res.append(("unsubscribe", f"{base.__name__} x{len(obs)} subscribed, `{obs[victim].label}` unsubscribed, one more built with "
                        f"subscribe=False (`detached`), a composite over subscribed and unsubscribed ones, then one dispatch and a reset: "
                        f"calls received {calls}, expected {want_calls}"))
        return res

    def oracle(self, impl, scenario, index, line, out, ctx):
        """Independent bookkeeping of who must have been called, from the event list alone."""
        import impl_ext
        res = []
        if line.startswith("mark cogsingleton"):
            return self.cog_singleton_oracle(int(line.split()[2]))
        if line.startswith("mark selfunsub"):
            import oracles as _o
            return _o.self_unsub_episode(int(line.split()[2]))["C10"]
        if line.startswith("mark raiser"):
            import oracles
            return oracles.raiser_episode(int(line.split()[2]))["C10"]
        if line.startswith("mark twins"):
            return self.twin_observers_oracle(int(line.split()[2]))
        d = impl.dispatcher
        if d is None:
            return res
        # what a subscriber saw when it asked the dispatcher from inside its callback (recorders with tag 2 do)
        for msg in getattr(impl, "inside_bad", [])[:2]:
            res.append(("inside-callback", f"after `{line}`: {msg}"))
        if getattr(impl, "inside_bad", None):
            impl.inside_bad.clear()
        if line.startswith("fobs") and out != "raise":
            res.append(("failed-constructor", f"`{line}` (a feature type this observer does not support) replied `{out}`: the constructor "
                        "must raise and leave the subscriber list as it was"))
        # the singleton guard is the constructor's: while an observer of a singleton type is subscribed, constructing another one is
        # refused - whatever the `subscribe` flag says.  (`Dispatcher.subscribe` itself checks nothing: re-subscribing a retired
        # observer by hand next to its successor is the caller's business and outside the property - DESIGN C10.)
        if line.split()[0] in ("obs", "obsn", "obsn2") and out.isdigit() and len(line.split()) >= 2:
            cls = impl_ext.KINDS.get(line.split()[1])
            if cls is not None and getattr(cls, "_is_singleton", False):
                mine = impl.heap[int(out)]
                others = [s_ for s_ in d.subscribers if type(s_) is cls and s_ is not mine]
                if others:
                    res.append(("singleton", f"`{line}` constructed a second {cls.__name__} while one is subscribed"))
        if line.startswith("inst"):
            ctx.update(trace_len=0, expected_hist={}, sub_since={})
            return res
        cmd = line.split()[0]
        # a history observer the caller unsubscribed keeps the record it had: nothing that happens afterwards (dispatches, resets, later
        # episodes that schedule the same operations elsewhere) reaches it
        frozen = ctx.setdefault("frozen", {})
        if cmd == "inst":
            frozen.clear()
        if cmd == "unsub" and out == "ok":
            k_ = int(line.split()[1])
            if k_ < len(impl.heap) and impl.kinds[k_] == "history":
                frozen[k_] = [(x.operation.operation_id, x.start_time, x.machine_id) for x in impl.heap[k_].history]
        if cmd == "resub" and out == "ok":
            frozen.pop(int(line.split()[1]), None)
        for k_, rec_ in frozen.items():
            now_ = [(x.operation.operation_id, x.start_time, x.machine_id) for x in impl.heap[k_].history]
            if now_ != rec_:
                res.append(("unsubscribed-changed", f"history observer {k_} was unsubscribed with the record {rec_}; after `{line}` it reads {now_}"))
                frozen[k_] = now_
        subs_now = [o for o in d.subscribers]
        # observers constructed with subscribe=False stay out of the subscriber list until subscribed by hand
        det = ctx.setdefault("detached", set())
        if cmd == "obsn" and out not in ("raise", "bad-op"):
            det.add(int(out))
        if cmd == "resub" and out == "ok":
            det.discard(int(line.split()[1]))
        if cmd == "inst":
            det.clear()
        for i in sorted(det):
            if i < len(impl.heap) and any(o is impl.heap[i] for o in subs_now):
                res.append(("detached-subscribed", f"observer {i} ({impl.kinds[i]}) was constructed with subscribe=False "
                            f"but is in dispatcher.subscribers after `{line}`"))
            if i < len(impl.heap) and impl.kinds[i] == "history" and impl.heap[i].history:
                res.append(("detached-notified", f"non-subscribed history observer {i} recorded "
                            f"{len(impl.heap[i].history)} dispatches"))
        before_ids = ctx.get("subs_before", [])
        trace = impl.trace
        new = trace[ctx["trace_len"]:]
        ctx["trace_len"] = len(trace)
        rec_ids_before = [i for i in before_ids if impl.kinds[i] == "recorder"]
        if cmd == "disp":
            if out.startswith("ok"):
                op_id = impl.instance.jobs[int(line.split()[1])][int(line.split()[2])].operation_id
                want = [f"{i}:U{op_id}" for i in rec_ids_before]
                if new != want:
                    res.append(("notify-order", f"`{line}` accepted with subscribed recorders {rec_ids_before}: "
                                f"calls observed {new}, expected {want} (each once, subscription order)"))
                for i in rec_ids_before:
                    entry = impl.heap[i].log[-1] if impl.heap[i].log else ""
                    if not entry.startswith("U ") or f"{op_id}:" not in entry.split("<")[1].split(";")[0]:
                        res.append(("post-state", f"recorder {i} was notified of operation {op_id} before the schedule "
                                    f"contained it: {entry}"))
                    elif str(op_id) in entry.split(";")[-1].strip(" >").split():
                        res.append(("post-state", f"recorder {i}: unscheduled_operations() still listed operation "
                                    f"{op_id} during the notification"))
                for i in before_ids:
                    if impl.kinds[i] == "history":
                        if i not in ctx["expected_hist"] and i in ctx.setdefault("dormant_hist", {}):
                            # re-subscribed: it keeps what it recorded while it was subscribed before
                            ctx["expected_hist"][i] = ctx["dormant_hist"].pop(i)
                        if i in ctx["expected_hist"]:
                            ctx["expected_hist"][i].append(op_id)
            elif new:
                res.append(("rejected-notified", f"rejected `{line}` produced observer calls {new}"))
        elif cmd == "reset":
            want = [f"{i}:R" for i in rec_ids_before]
            if new != want:
                res.append(("reset-once", f"reset with subscribed recorders {rec_ids_before}: calls {new}, expected {want}"))
            for i in before_ids:
                if impl.kinds[i] == "history":
                    ctx["expected_hist"][i] = []
                    ctx.setdefault("dormant_hist", {}).pop(i, None)
        elif new:
            res.append(("spurious", f"`{line}` produced observer calls {new}"))
        if cmd == "obs":
            kind = line.split()[1]
            cls = impl_ext.KINDS[kind]
            existed = any(isinstance(impl.heap[i], cls) for i in before_ids)
            singleton = kind != "recorder"
            if singleton and existed and out != "raise":
                res.append(("singleton", f"`{line}` succeeded although a {kind} observer is already subscribed"))
            if out == "raise" and len(subs_now) != len(before_ids):
                res.append(("singleton", f"failed `{line}` changed the subscriber list"))
        if cmd == "cogc":
            tag = int(line.split()[2])
            first = next((i for i in before_ids if impl.kinds[i] == "recorder" and impl.heap[i].tag == tag), None)
            if first is not None and out != str(first):
                res.append(("create-or-get", f"`{line}` returned {out}, but the subscribed recorder {first} matches"))
            if first is None and out != "raise" and int(out) in before_ids:
                res.append(("create-or-get", f"`{line}` returned the non-matching observer {out}"))
        if cmd == "cogk":
            # keyword arguments are for the constructor: without a condition the first subscribed observer of the class is returned
            first = next((i for i in before_ids if impl.kinds[i] == "recorder"), None)
            if first is not None and out != str(first):
                res.append(("create-or-get", f"`{line}` (a constructor keyword, no condition) returned {out}, but recorder {first} is "
                            f"subscribed (tag {impl.heap[first].tag})"))
        if cmd == "cog":
            kind = line.split()[1]
            cls = impl_ext.KINDS[kind]
            first = next((i for i in before_ids if isinstance(impl.heap[i], cls)), None)
            if first is not None and out != str(first):
                res.append(("create-or-get", f"`{line}` returned {out}, but observer {first} of that class is subscribed"))
        # history observers that have been subscribed since their construction / last reset
        cur_ids = []
        for s in subs_now:
            idx = next((i for i, o in enumerate(impl.heap) if o is s), None)
            if idx is not None:
                cur_ids.append(idx)
        # the subscriber list itself: subscription order as implied by the events alone
        want_order = list(getattr(impl, "sub_order", cur_ids))
        if cur_ids != want_order:
            res.append(("subscriber-order", f"after `{line}` dispatcher.subscribers holds observers {cur_ids}, "
                        f"subscription order is {want_order}"))
            cur_ids = want_order
        for i in list(ctx["expected_hist"]):
            if i not in cur_ids:
                # unsubscribed: nothing is claimed while it is away, but it keeps its record
                ctx.setdefault("dormant_hist", {})[i] = ctx["expected_hist"].pop(i)
        for i in cur_ids:
            if impl.kinds[i] == "history" and i not in ctx["expected_hist"] and cmd in ("obs", "cog") and out == str(i) \
                    and i not in before_ids and i == len(impl.heap) - 1 and not ctx.get("seen_" + str(i)):
                ctx["expected_hist"][i] = []
        for i, want in ctx["expected_hist"].items():
            got = [x.operation.operation_id for x in impl.heap[i].history]
            if got != want:
                res.append(("history", f"history observer {i} recorded {got}, dispatch sequence is {want}"))
        ctx["subs_before"] = cur_ids
        return res

"""C01 — every dispatch history yields a feasible schedule."""
import copy

import oracles
import slices
from framework import PropertyCheck, Scenario


class Check(PropertyCheck):
    ID = "C01"
    LEAN_MODULE = "JobShopProofs.ObserversTransparent"
    THEOREMS = [
        "JS.C01_feasible",
        "JS.C01_feasible_filtered",
        "JS.C01_complete_iff",
        "JS.C01_accepts_ready_eligible", "JS.C01_world_feasible"]
    RULE = ("random instance (10 families: classic, irregular, recirculation, flexible, zero durations, unused "
            "machine ids, single job/machine, ties) x random filter configuration x random valid dispatch history "
            "with invalid requests injected, in half of the scenarios followed by reset() and a second episode; full state snapshot compared with the Lean model after every request "
            "and the declarative feasibility oracle evaluated on dispatcher.schedule.schedule after every request; "
            "non-trivial = >=3 accepted dispatches; distinct = distinct scenario text")
    ASSUMPTIONS = ["instances are valid (non-empty duplicate-free machine lists, durations >= 0)"]

    def make_impl(self, scenario):
        if scenario.meta.get("observers"):
            from impl_ext import ImplEnv
            impl = ImplEnv(filter_style=scenario.meta.get("filter_style", "callable"))
        else:
            from impl import Impl
            impl = Impl(scenario.meta.get("filter_style", "callable"))
        return impl

    def generate(self, rng, n, tier):
        if tier == "thorough":
            # exhaustive small scope first (every instance <= 2 jobs x 2 operations, durations 0..2, every interleaving)
            self.extra_coverage = {"exhaustive_small_scope": True}
            yield from slices.exhaustive_small("snap")
        for _i in range(n):
            if _i % 15 == 14:
                yield slices.zero_first_scenario(rng)
                continue
            if _i % 15 == 6:
                yield slices.stale_ready_scenario(rng)
                continue
            if _i % 15 == 3:
                yield Scenario(["new", f"mark customfilter {rng.randint(0, 10**6)}"], {"family": "custom_filter", "accepted": 3, "style": "custom_filter"})
                continue
            if _i % 60 == 13:
                yield Scenario(["new", f"mark gcflex {rng.randint(0, 10**6)}"], {"family": "gcflex", "accepted": 3, "style": "gcflex"})
                continue
            if _i % 15 == 11:
                yield Scenario(["new", f"mark raiser {rng.randint(0, 10**6)}"], {"family": "raiser", "accepted": 3, "style": "raiser"})
                continue
            # every other scenario continues with a second episode after reset(): the clauses hold there as well
            yield slices.dispatch_scenario(rng, observers=True, peeks=True, with_invalid=True, max_jobs=4 if tier == "quick" else 5,
                                           max_ops=4 if tier == "quick" else 6, replay=rng.random() < 0.5,
                                           queries=rng.random() < 0.5)   # users look at the dispatcher between dispatches

    def oracle(self, impl, scenario, index, line, out, ctx):
        res = []
        if line.startswith("mark raiser"):
            return oracles.raiser_episode(int(line.split()[2]))["C01"]
        if line.startswith("mark customfilter"):
            return oracles.custom_filter_episode(int(line.split()[2]))["C01"]
        if line.startswith("mark gcflex"):
            return oracles.gc_flex_episode(int(line.split()[2]))["C01"]
        if line.startswith("inst"):
            ctx["accepted"] = 0
        if line.startswith("reset"):
            ctx["accepted"] = 0
        if line.startswith("disp"):
            d = impl.dispatcher
            if out.startswith("ok"):
                ctx["accepted"] += 1
            for e in oracles.feasible(impl.instance, d.schedule.schedule):
                res.append(("infeasible", f"after `{line}` -> {out}: {e}"))
            complete = ctx["accepted"] == impl.instance.num_operations
            if d.schedule.is_complete() != complete:
                res.append(("complete-iff", f"after {ctx['accepted']} accepted dispatches of "
                            f"{impl.instance.num_operations} operations is_complete()={d.schedule.is_complete()}"))
            n_sched = sum(len(ms) for ms in d.schedule.schedule)
            if n_sched != ctx["accepted"]:
                res.append(("count", f"{ctx['accepted']} accepted dispatches but {n_sched} scheduled operations"))
        return res

"""C05 — state queries agree with the schedule, whatever was asked before."""
import random

import gen
import oracles
import slices
from framework import PropertyCheck, Scenario
from impl import instance_line

PARAM_FREE = ["current_time", "available", "raw_ready", "unscheduled", "scheduled", "uncompleted", "completed",
              "available_machines", "available_jobs", "ongoing", "makespan", "is_complete", "num_scheduled"]


def ids(ops):
    return [o.operation_id for o in ops]



def observers_lines(rng, jobs):
    """One scenario in three: observers that READ the dispatcher from inside their callbacks are subscribed (a residual graph
    updater, feature observers): what they do with the query results must not disturb the queries."""
    if rng.random() >= 0.33 or max(d for job in jobs for _, d in job) >= 2 ** 24:
        return []
    out = [f"fres {rng.choice(['disjunctive', 'agent_task', 'agent_task_jobs', 'complete_agent_task'])} 1 1"]
    for k in rng.sample(["is_completed -", "is_scheduled -", "is_ready -", "earliest_start_time -", "duration -", "position_in_job -",
                         "remaining_operations -", "unscheduled -", "unscheduled -"], rng.randint(0, 4)):
        if ("fobs " + k) not in out:
            out.append("fobs " + k)
    if rng.random() < 0.5:
        rng.shuffle(out)          # the graph updater is not always the first subscriber
    return out

class Check(PropertyCheck):
    ID = "C05"
    LEAN_MODULE = "JobShopProofs.ObserversTransparent"
    THEOREMS = [
        "JS.C05_answers",
        "JS.C05_spec_ignores_memo",
        "JS.C05_no_stale",
        "JS.C05_scheduled_iff",
        "JS.C05_partition_sched",
        "JS.C05_ongoing_iff",
        "JS.C05_partition_ongoing",
        "JS.ask_ok",
        "JS.observers_transparent",
        "JS.C05_world_answers",
        "JS.C10_observers_do_not_disturb",
    ]
    RULE = ("random instance x random filter x random valid history; in every state a burst of 3-9 queries drawn with "
            "repetition and in random order from the 13 parameter-free and 7 parameterised queries (plus the "
            "UnscheduledOperationsObserver); every answer compared with the Lean model (which goes through its own memo "
            "table) and with a from-scratch recomputation from dispatcher.schedule.schedule + the instance that never "
            "touches the dispatcher's vectors or cache; partition laws checked on the real answers; non-trivial = >=3 "
            "accepted dispatches and >=6 queries")
    ASSUMPTIONS = ["instances are valid", "sets returned by the code are compared as sorted lists"]
    QUICK_N = 250

    def generate(self, rng, n, tier):
        if tier == "thorough":
            # exhaustive small scope first (every instance <= 2 jobs x 2 operations, durations 0..2, every interleaving)
            self.extra_coverage = {"exhaustive_small_scope": True}
            yield from slices.exhaustive_small("queries")
        for _i in range(n):
            if _i % 20 in (15, 18):
                yield Scenario(["new", f"mark customfilter {rng.randint(0, 10**6)}"], {"family": "custom_filter", "accepted": 3, "queries": 4})
                continue
            if _i % 20 == 7:
                # the caller installs another filter during an episode (right after a dispatch: nothing is memoised then) and resets: the first
                # state of the next episode answers under the filter installed NOW - also when it was asked before under the old one
                _, zj = gen.gen_instance(rng, rng.choice(["classic", "irregular", "recirc"]), max_jobs=4, max_machines=3, max_ops=3)
                zj = [[(job[0][0], 0)] + list(job[1:]) for job in zj]       # every job opens with a zero-duration operation
                fa, fb = rng.choice([(None, ["dom"]), (["dom"], None), (["nidle"], ["dom", "nidle"]), (["dom"], ["nio"])])
                zl = ["new", instance_line(zj), gen.filter_line(fa), "q available", "q available_jobs", "q available_machines", "q current_time"]
                ztr = gen.Tracker(zj)
                for _ in range(rng.randint(1, 3)):
                    if ztr.done():
                        break
                    j, p, m = gen.gen_valid_request(rng, ztr)
                    ztr.take(j)
                    zl.append(f"disp {j} {p} {m}")
                zl += ["refilt" + gen.filter_line(fb)[6:], "reset", "q available", "q available_jobs", "q available_machines", "q current_time"]
                yield Scenario(zl, {"family": "refilt_reset", "accepted": 3, "queries": 8, "zero_dur": True,
                                    "filter": "none" if fa is None else "+".join(fa), "filter_style": "callable"})
                continue
            if _i % 20 == 13:
                yield Scenario(["new", f"mark raiser {rng.randint(0, 10**6)}"], {"family": "raiser", "accepted": 3, "queries": 4})
                continue
            yield self.scenario(rng, tier)

    def scenario(self, rng: random.Random, tier) -> Scenario:
        family, jobs = gen.gen_instance(rng, max_jobs=4 if tier == "quick" else 5)
        if rng.random() < 0.05:
            jobs, family = gen.make_huge(rng, jobs), family + "+huge"
        f = gen.gen_filter(rng)
        if rng.random() < 0.12:
            # time is not monotone here: zero-duration operations in the middle of jobs under the dominated-operations filter
            # (while such an operation waits alone the clock shows its start; once it is dispatched the clock falls back)
            jobs = [[(ms, 0 if (p > 0 and rng.random() < 0.5) else d) for p, (ms, d) in enumerate(job)] for job in jobs]
            family += "+zero_mid"
            f = rng.choice([["dom"], ["dom"], ["dom", "nidle"], ["nim", "dom"]])
        lines = ["new", instance_line(jobs), gen.filter_line(f)]
        lines += observers_lines(rng, jobs)
        tr = gen.Tracker(jobs)
        M = slices.num_machines_of(jobs)
        total = gen.num_ops(jobs)
        nq = 0
        scheduled_ids = []
        base = [0]
        for job in jobs:
            base.append(base[-1] + len(job))

        def burst():
            nonlocal nq
            for _ in range(rng.randint(3, 9)):
                r = rng.random()
                if r < 0.7:
                    lines.append("q " + rng.choice(PARAM_FREE))
                elif r < 0.78:
                    lines.append(f"q is_scheduled {rng.randrange(total)}")
                elif r < 0.84:
                    lines.append(f"q next_operation {rng.randrange(len(jobs))}")
                elif r < 0.9:
                    lines.append(f"q earliest_start {rng.randrange(total)}")
                elif r < 0.94 and scheduled_ids:
                    lines.append(f"q {rng.choice(['is_ongoing', 'remaining_duration'])} {rng.choice(scheduled_ids)}")
                elif r < 0.955:
                    k = rng.randint(0, 3)
                    lines.append("q min_start " + " ".join(str(rng.randrange(total)) for _ in range(k)))
                elif r < 0.985:
                    # other readers of the dispatcher between two queries: a dispatching rule asked for its choice, a
                    # filter applied by hand to the ready operations
                    tb = "tb:" + ",".join(rng.choice(["spt", "fcfs", "mor"]) for _ in range(rng.randint(1, 3)))
                    ready = [base[jj] + pp for jj, pp in tr.ready()]
                    opts = [f"rule {tb} {rng.randint(0, 9)}", "rule " + rng.choice(["spt", "fcfs", "mwkr", "mor"]) + " 0"]
                    if ready:
                        opts.append("flt " + rng.choice(gen.FILTER_NAMES) + " ; " + " ".join(map(str, ready)))
                    lines.append(rng.choice(opts))
                else:
                    lines.append("q unsched_observer")
                nq += 1

        burst()
        n_acc = 0
        while not tr.done():
            if rng.random() < 0.1:
                bad = gen.gen_invalid_request(rng, tr, M)
                if bad:
                    lines.append(f"disp {bad[0]} {bad[1]} {bad[2]}")
            if rng.random() < 0.05 and max(d for job in jobs for _, d in job) < 2 ** 24:
                # an observer is attached in the middle of the episode (some of them share helper observers with the ones
                # already there): attaching is not an event of the dispatcher
                lines.append("fobs " + rng.choice(["remaining_operations -", "is_completed -", "is_completed mj", "unscheduled -",
                                                   "duration -", "position_in_job -", "remaining_operations j"]))
                lines.append("q unsched_observer")
                burst()
            if rng.random() < 0.08:
                pj, pp, pm = gen.gen_valid_request(rng, tr)
                lines.append(f"peek {pj} {pp} {pm}")        # a look-ahead on a deep copy of the dispatcher
                burst()
            j, p, m = gen.gen_valid_request(rng, tr)
            tr.take(j)
            lines.append(f"disp {j} {p} {m}")
            scheduled_ids.append(base[j] + p)
            n_acc += 1
            burst()
            if rng.random() < (0.12 if any(l.startswith("fobs") for l in lines[:8]) else 0.05):
                lines.append("reset")
                tr.reset()
                scheduled_ids.clear()
                burst()
        meta = {"family": family, "filter": "none" if f is None else "+".join(f) or "empty-composite",
                "flexible": gen.is_flexible(jobs), "zero_dur": gen.has_zero(jobs), "queries": nq,
                "accepted": n_acc, "filter_style": rng.choice(["callable", "enum", "str", "lazy"])}
        return Scenario(lines, meta)

    def make_impl(self, scenario):
        from impl_ext import ImplEnv
        return ImplEnv(filter_style=scenario.meta.get("filter_style", "callable"))

    def nontrivial(self, scenario, outs):
        return scenario.meta.get("accepted", 0) >= 3 and scenario.meta.get("queries", 0) >= 6

    def oracle(self, impl, scenario, index, line, out, ctx):
        # the reference is recomputed from the instance and the DISPATCH HISTORY (accepted requests since the last
        # reset, taken from the events alone): forced start times, per-machine lists — never from the dispatcher's objects
        if line.startswith("mark customfilter"):
            return oracles.custom_filter_episode(int(line.split()[2]))["C05"]
        if line.startswith("mark raiser"):
            return oracles.raiser_episode(int(line.split()[2]))["C05"]
        if line.startswith("inst") or line == "reset" or line == "new":
            ctx["hist"] = []
            return []
        if line.startswith("disp ") and out.startswith("ok"):
            _, j, p, m = line.split()
            op = impl.instance.jobs[int(j)][int(p)]
            ctx.setdefault("hist", []).append((op, op.machines[0] if m == "none" else int(m)))
            return []
        if not line.startswith("q "):
            return []
        res = []
        from types import SimpleNamespace
        lists = [[] for _ in range(impl.instance.num_machines)]
        job_end = {}
        for op, m in ctx.get("hist", []):
            st = max(lists[m][-1].end_time if lists[m] else 0, job_end.get(op.job_id, 0))
            x = SimpleNamespace(operation=op, start_time=st, end_time=st + op.duration, machine_id=m, job_id=op.job_id,
                                position_in_job=op.position_in_job)
            lists[m].append(x)
            job_end[op.job_id] = x.end_time
        v = oracles.View(impl.instance, lists)
        ft = impl.filter_tokens
        ts = line.split()
        name, args = ts[1], ts[2:]
        from impl import lst, fmt_bool, fmt_sop
        exp = None
        if name == "current_time":
            exp = str(v.now(ft))
        elif name == "available":
            exp = lst(ids(v.available(ft)))
        elif name == "raw_ready":
            exp = lst(ids(v.raw_ready()))
        elif name in ("unscheduled", "unsched_observer"):
            exp = lst(ids(v.unscheduled()))
            if name == "unsched_observer" and getattr(impl, "unsched_observer", None) is not None:
                n_obs = impl.unsched_observer.num_unscheduled_operations
                if n_obs != len(v.unscheduled()):
                    res.append(("query:num_unscheduled", f"the unscheduled-operations observer reports num_unscheduled_operations = {n_obs}, "
                                f"recomputation from the schedule: {len(v.unscheduled())}"))
        elif name == "scheduled":
            exp = lst(ids(v.scheduled()))
        elif name == "completed":
            og = {x.operation.operation_id for x in v.ongoing(ft)}
            exp = lst(sorted(i for i in ids(v.scheduled()) if i not in og))
        elif name == "uncompleted":
            # unscheduled (id order) followed by the ongoing ones (any order)
            toks = out.strip("[] ").split()
            un = [str(i) for i in ids(v.unscheduled())]
            og = sorted(str(x.operation.operation_id) for x in v.ongoing(ft))
            if toks[:len(un)] != un or sorted(toks[len(un):]) != og:
                res.append(("query:uncompleted", f"`{line}` -> {out}; recomputation: unscheduled {un} followed by ongoing {og}"))
        elif name == "ongoing":
            got = sorted(out.strip("[] ").split())
            want = sorted(fmt_sop(x) for x in v.ongoing(ft))
            if got != want:
                res.append(("query:ongoing", f"`{line}` -> {out}; recomputation from the schedule: {want}"))
        elif name == "available_machines":
            exp = lst(sorted({m for o in v.available(ft) for m in o.machines}))
        elif name == "available_jobs":
            exp = lst(sorted({o.job_id for o in v.available(ft)}))
        elif name == "makespan":
            exp = str(v.makespan())
        elif name == "is_complete":
            exp = fmt_bool(len(v.sop) == impl.instance.num_operations)
        elif name == "num_scheduled":
            exp = str(len(v.sop))
        elif name == "is_scheduled":
            exp = fmt_bool(int(args[0]) in v.sop)
        elif name == "next_operation":
            j = int(args[0])
            job = impl.instance.jobs[j]
            exp = str(job[v.next_pos[j]].operation_id) if v.next_pos[j] < len(job) else "raise"
        elif name == "earliest_start":
            exp = str(v.earliest_start(impl.op(int(args[0]))))
        elif name == "min_start":
            exp = str(v.min_start([impl.op(int(a)) for a in args]))
        elif name == "is_ongoing":
            x = v.sop.get(int(args[0]))
            exp = "bad-op" if x is None else fmt_bool(x.start_time <= v.now(ft))
        elif name == "remaining_duration":
            x = v.sop.get(int(args[0]))
            exp = "bad-op" if x is None else str(x.end_time - max(x.start_time, v.now(ft)))
        if exp is not None and exp != out:
            res.append(("query:" + name, f"`{line}` -> {out}; recomputation from the schedule: {exp}"))
        return res

"""C20 — Gantt charts and animations show the schedule that was built."""
import random

import gen
import slices
from framework import PropertyCheck, Scenario
from impl import instance_line


class Check(PropertyCheck):
    ID = "C20"
    LEAN_MODULE = "JobShopProofs.FramesWorld"
    THEOREMS = ["JS.C20_bars", "JS.C20_bars_reachable", "JS.C20_ticks", "JS.frameKeyLe_iff", "JS.C20_load_order",
                "JS.C20_frame_k", "JS.C10_world_history", "JS.C20_world_frames", "JS.C20_world_frames_count"]
    RULE = ("random instances x random (partial or complete) dispatch histories: the real plot_gantt_chart is run "
            "(Agg backend) and the polygons matplotlib drew, their colours mapped back to jobs through the legend, the "
            "x ticks and the x limit are compared with the model; frame names from the real _save_frame (savefig "
            "intercepted) and the load order of the real _load_images over a scrambled directory listing (os.listdir "
            "and imread intercepted) are compared with the model for frame counts up to 1500; create_gantt_chart_frames "
            "runs end to end on recorded histories and the bars of the k-th loaded frame are compared with the model's "
            "bars after k dispatches; oracle (independent of the model): bars = scheduled operations read from "
            "dispatcher.schedule, legend = sorted jobs present, last tick = xlim = makespan or the requested limit, "
            "frames load as 1..n, frame k has exactly the first k history entries; non-trivial = some operation scheduled "
            "or >= 100 frames")
    ASSUMPTIONS = ["matplotlib renders what broken_barh/legend/set_xticks were given (read back from the Axes, not from pixels)",
                   "savefig/os.listdir/imread are intercepted: file-system and PNG encoding are outside the model"]
    QUICK_N = 120

    def make_impl(self, scenario):
        from impl_ext import ImplViz
        return ImplViz()

    def real_gif_oracle(self, seed):
        """The real pipeline, nothing replaced: an instance with many jobs (two-digit job labels), a recorded history, PNG frames
        rendered by matplotlib, the GIF assembled and written by imageio, then read back.  The GIF has one frame per dispatched
        operation, and every frame file is, pixel for pixel, the chart of the first k operations drawn independently."""
        import os
        import shutil
        import tempfile
        import warnings
        import numpy as np
        import imageio
        import matplotlib.pyplot as plt
        import jsl
        from impl import build_instance
        from job_shop_lib.visualization import create_gantt_chart_gif, get_partial_gantt_chart_plotter
        r = random.Random(seed)
        J, M = r.choice([3, 9, 11, 12, 13]), 2
        jobs = [[([m], r.randint(1, 4)) for m in r.sample(range(M), M)] for _ in range(J)]
        inst = build_instance(jobs, name=f"real_{seed}")
        d = jsl.Dispatcher(inst)
        hist = jsl.HistoryObserver(d)
        order = [j for j in range(J) for _ in range(M - 1)]
        r.shuffle(order)
        first = list(range(J))
        if r.random() < 0.5:
            r.shuffle(first)        # (otherwise: the jobs appear in the legend one after the other, the widest labels last)
        order = first + order
        for j in order:
            op = inst.jobs[j][d.job_next_operation_index[j]]
            d.dispatch(op, op.machines[0])
        history = list(hist.history)
        tmp = tempfile.mkdtemp(prefix="verif_realgif_")
        res = []
        try:
            with warnings.catch_warnings():
                warnings.simplefilter("ignore")
                try:
                    create_gantt_chart_gif(inst, gif_path=os.path.join(tmp, "x.gif"), frames_dir=os.path.join(tmp, "f"),
                                           remove_frames=False, schedule_history=history)
                except Exception as e:  # pylint: disable=broad-except
                    return [("gif-failed", f"create_gantt_chart_gif raised {type(e).__name__} ({str(e)[:80]}) for a history of {len(history)} "
                             f"operations of an instance with {J} jobs on {M} machines")]
                frames = imageio.mimread(os.path.join(tmp, "x.gif"), memtest=False)
                if len(frames) != len(history):
                    res.append(("frame-count", f"the GIF has {len(frames)} frames for a history of {len(history)}"))
                names = sorted(os.listdir(os.path.join(tmp, "f")), key=lambda n: (len(n), n))
                if len(names) != len(history):
                    res.append(("frame-count", f"{len(names)} frame files for a history of {len(history)}"))
                plotter = get_partial_gantt_chart_plotter()
                makespan = max(x.end_time for x in history)
                for k in sorted(set([1, 2, len(history) // 2, len(history) - 1, len(history)]) - {0}):
                    if k > len(names):
                        continue
                    twin = jsl.Dispatcher(inst)
                    for x in history[:k]:
                        twin.dispatch(x.operation, x.machine_id)
                    fig = plotter(twin.schedule, makespan, twin.available_operations(), twin.current_time())
                    ref = os.path.join(tmp, f"ref_{k}.png")
                    fig.savefig(ref, bbox_inches="tight")
                    plt.close(fig)
                    a, b = imageio.imread(os.path.join(tmp, "f", names[k - 1])), imageio.imread(ref)
                    if a.shape != b.shape or not np.array_equal(a, b):
                        res.append(("frame-content", f"frame {k} of {len(history)} is not the chart of the first {k} dispatched operations "
                                    f"(shapes {a.shape} / {b.shape})"))
                # a second, SHORTER history written through the same frames directory (kept: remove_frames=False): its GIF has its own
                # frames only, nothing of the earlier, longer one
                if seed % 2 == 1 and len(history) >= 4:
                    short = history[: len(history) // 2]
                    create_gantt_chart_gif(inst, gif_path=os.path.join(tmp, "y.gif"), frames_dir=os.path.join(tmp, "f"),
                                           remove_frames=False, schedule_history=short)
                    n_short = len(imageio.mimread(os.path.join(tmp, "y.gif"), memtest=False))
                    if n_short != len(short):
                        res.append(("stale-frames", f"a history of {len(short)} operations written through the frames directory of an earlier "
                                    f"history of {len(history)} gives a GIF of {n_short} frames"))
                # the video of the same history, written by the real writer and read back: one frame per dispatched operation
                if seed % 2 == 0:
                    from job_shop_lib.visualization import create_gantt_chart_video
                    try:
                        create_gantt_chart_video(inst, video_path=os.path.join(tmp, "x.mp4"), frames_dir=os.path.join(tmp, "vf"),
                                                 remove_frames=True, schedule_history=history)
                        n_video = sum(1 for _ in imageio.get_reader(os.path.join(tmp, "x.mp4")))
                    except Exception as e:  # pylint: disable=broad-except
                        res.append(("video-failed", f"create_gantt_chart_video raised {type(e).__name__} ({str(e)[:80]}) for a history of "
                                    f"{len(history)} operations of an instance with {J} jobs"))
                    else:
                        if n_video != len(history):
                            res.append(("frame-count", f"the video has {n_video} frames for a history of {len(history)}"))
                # the same through an environment's render(): two episodes, the GIF of the second one shows the second history
                if seed % 3 == 1:
                    from job_shop_lib.graphs import build_disjunctive_graph
                    from job_shop_lib.reinforcement_learning import SingleJobShopGraphEnv
                    from job_shop_lib.dispatching.feature_observers import FeatureObserverType
                    env = SingleJobShopGraphEnv(build_disjunctive_graph(inst), [FeatureObserverType.IS_READY], render_mode="save_gif",
                                                render_config={"gif_config": {"gif_path": os.path.join(tmp, "e.gif"),
                                                                              "frames_dir": os.path.join(tmp, "ef"), "remove_frames": False}})
                    try:
                        for ep in range(2):
                            env.reset()
                            done, second = False, []
                            while not done:
                                ready = env.dispatcher.available_operations()
                                op = ready[r.randrange(len(ready))]
                                second.append(op.operation_id)
                                _, _, done, _, _ = env.step((op.job_id, op.machines[0]))
                            env.render()
                        n_env = len(imageio.mimread(os.path.join(tmp, "e.gif"), memtest=False))
                        if n_env != len(second):
                            res.append(("frame-count", f"env.render(): the GIF of the second episode has {n_env} frames for {len(second)} steps"))
                        twin = jsl.Dispatcher(inst)
                        first_op = next(o for job in inst.jobs for o in job if o.operation_id == second[0])
                        twin.dispatch(first_op, first_op.machines[0])
                        fig = get_partial_gantt_chart_plotter()(twin.schedule, env.dispatcher.schedule.makespan(), twin.available_operations(),
                                                                twin.current_time())
                        ref = os.path.join(tmp, "eref.png")
                        fig.savefig(ref, bbox_inches="tight")
                        plt.close(fig)
                        names = sorted(os.listdir(os.path.join(tmp, "ef")), key=lambda n: (len(n), n))
                        a, b = imageio.imread(os.path.join(tmp, "ef", names[0])), imageio.imread(ref)
                        if a.shape != b.shape or not np.array_equal(a, b):
                            res.append(("frame-content", "env.render(): the first frame of the second episode is not the chart of its first step"))
                    except Exception as e:  # pylint: disable=broad-except
                        res.append(("gif-failed", f"env.render() (save_gif) raised {type(e).__name__}: {str(e)[:100]}"))
        finally:
            shutil.rmtree(tmp, ignore_errors=True)
        return res[:3]

    def generate(self, rng, n, tier):
        for i in range(n):
            if i in (9, 29):
                yield Scenario(["new", f"mark manyjobs {rng.randint(0, 10**6)}"], {"kind": "manyjobs", "count": 1})
                continue
            if i == 5:
                yield Scenario(["new", "mark mergedframes 0"], {"kind": "mergedframes", "count": 1})
                continue
            if i in ((7,) if tier == "quick" else (7, 47, 87, 127)):
                yield Scenario(["new", f"mark realgif {rng.randint(0, 10**6)}"], {"kind": "realgif", "count": 1})
                continue
            kind = i % 4
            if kind == 3:
                # frame naming and load order, small and large frame counts, scrambled listing
                cnt = rng.choice([1, 2, 9, 10, 11, 99, 100, 101, 120, 250, 999, 1000, 1001, 1500, rng.randint(1, 1500)])
                nums = list(range(1, cnt + 1))
                mode = rng.choice(["shuffle", "reverse", "lexicographic", "sorted"])
                if mode == "shuffle":
                    rng.shuffle(nums)
                elif mode == "reverse":
                    nums.reverse()
                elif mode == "lexicographic":
                    nums.sort(key=str)
                probes = [rng.choice(nums) for _ in range(3)] + [rng.randint(0, 12000)]
                lines = ["new"] + [f"fname {p}" for p in probes] + ["frames " + " ".join(map(str, nums))]
                yield Scenario(lines, {"kind": "frames", "count": cnt, "mode": mode})
                continue
            sc = slices.dispatch_scenario(rng, with_invalid=False, stop_early=True, max_jobs=5, max_machines=4, max_ops=4,
                                          flt=None, huge=False)  # matplotlib/numpy cannot hold ints >= 2**63
            lines = []
            hist = []
            for ln in sc.lines:
                if ln.startswith("snap") or ln.startswith("q "):
                    continue
                lines.append(ln)
                if ln.startswith("disp "):
                    hist.append(ln.split()[1:])
                    if rng.random() < 0.3:
                        if rng.random() < 0.4:
                            lines.append("stamp")      # the caller noted makespan / status in the live schedule's metadata (a dict of its own)
                        lines.append("bars")
            lines.append("bars")
            lines.append("q makespan")
            lines.append(f"ticks - {rng.choice([15, 15, 1, 2, 3, 7, 40])}")
            lines.append(f"ticks {rng.randint(0, 60)} {rng.choice([15, 1, 4, 9, 100])}")
            if kind == 2 and hist:
                # explicit machine for every entry (history replay passes machine ids)
                from impl import parse_instance
                jobs_ = parse_instance(next(l for l in lines if l.startswith("inst")).split()[1:])
                flat = []
                for j, p, m in hist:
                    flat += [j, p, str(jobs_[int(j)][int(p)][0][0]) if m == "none" else m]
                lines.append("animate " + " ".join(flat))
            meta = dict(sc.meta)
            meta.update({"kind": "chart" if kind != 2 else "animate", "count": len(hist)})
            yield Scenario(lines, meta)

    @staticmethod
    def solver_frames(impl):
        """Frames generated from a SOLVER (no recorded history given) whose rule is not deterministic (the built-in random rule):
        all frames belong to ONE run - each shows the previous frame's bars plus one, the last one is complete, and the time axis of
        every frame ends at that run's makespan."""
        import warnings
        import matplotlib.pyplot as plt
        from impl_ext import read_chart, _FakeFigure, _vid, _pgc
        from job_shop_lib.dispatching.rules import DispatchingRuleSolver
        inst = impl.instance
        if inst.num_operations < 3 or inst.num_operations > 12:
            return []
        shots = []

        def plot_function(schedule, makespan=None, available_operations=None, current_time=None):
            with warnings.catch_warnings():
                warnings.simplefilter("ignore")
                fig, ax = _pgc.plot_gantt_chart(schedule, xlim=makespan)
                bars, _, _, lim = read_chart(ax)
                plt.close(fig)
            ends = [x.end_time for ms in schedule.schedule for x in ms]
            shots.append((sorted(bars), int(lim[1] + 0.5), max(ends, default=0), schedule.is_complete()))
            return _FakeFigure([], None)
        old_close = _vid.plt.close
        _vid.plt.close = lambda *a, **k: None
        try:
            calls = [0]

            def stateful_rule(dispatcher):
                # a user rule with memory (round robin over the available operations): legal, and never the same run twice
                ops = dispatcher.available_operations()
                calls[0] += 1
                return ops[(calls[0] * 7 + calls[0] // 3) % len(ops)]
            _vid.create_gantt_chart_frames("D", inst, DispatchingRuleSolver(dispatching_rule=stateful_rule, machine_chooser="random"),
                                           plot_function)
        finally:
            _vid.plt.close = old_close
        res = []
        if len(shots) != inst.num_operations:
            return [("frame-count", f"{len(shots)} frames from a solver run over {inst.num_operations} operations")]
        from collections import Counter
        for k in range(1, len(shots)):
            if (Counter(shots[k - 1][0]) - Counter(shots[k][0])) or len(shots[k][0]) != k + 1:
                res.append(("frame-content", f"solver frames: frame {k + 1} shows {shots[k][0]}, which is not frame {k}'s bars "
                            f"{shots[k - 1][0]} plus one operation (frames of different runs?)"))
                return res
        final_mk = shots[-1][2]
        if not shots[-1][3] or any(s[1] != final_mk for s in shots):
            res.append(("frame-xlim", f"solver frames: time axes end at {sorted(set(s[1] for s in shots))}, the run shown ends at {final_mk} "
                        f"(complete: {shots[-1][3]})"))
        return res

    @staticmethod
    def plotter_reuse(impl, hist):
        """One plotter object (what a GanttChartCreator keeps) draws a frame of an animation (time axis fixed at the final
        makespan) and then a static chart of a shorter schedule: that chart's axis ends at ITS makespan, its bars are its
        operations."""
        import warnings
        import jsl
        import matplotlib.pyplot as plt
        from impl_ext import read_chart
        from job_shop_lib.visualization import get_partial_gantt_chart_plotter
        res = []
        if len(hist) < 2:
            return res
        d = jsl.Dispatcher(impl.instance)
        for j, p, m in hist:
            d.dispatch(impl.instance.jobs[j][p], m)
        final_mk = d.schedule.makespan()
        d.reset()
        for j, p, m in hist[:max(1, len(hist) // 2)]:
            d.dispatch(impl.instance.jobs[j][p], m)
        plotter = get_partial_gantt_chart_plotter()
        with warnings.catch_warnings():
            warnings.simplefilter("ignore")
            fig = plotter(d.schedule, makespan=final_mk + 3)
            ax = fig.axes[0]
            _, _, _, lim1 = read_chart(ax)
            plt.close(fig)
            fig = plotter(d.schedule)
            bars, _, _, lim2 = read_chart(fig.axes[0])
            plt.close(fig)
            # a requested limit stays the limit whatever is drawn afterwards: the current-time marker beyond it, a shaded span the
            # caller adds to the returned axes
            fig = plotter(d.schedule, makespan=final_mk + 3, current_time=final_mk + 9)
            ax3 = fig.axes[0]
            _, _, _, lim3 = read_chart(ax3)
            ax3.axvspan(0, final_mk + 20, alpha=0.1)
            _, _, _, lim4 = read_chart(ax3)
            plt.close(fig)
        for what3, lim in (("with the current-time marker beyond the requested limit", lim3), ("after the caller shaded a span on the axes", lim4)):
            if int(lim[1] + 0.5) != final_mk + 3 or abs(lim[0]) > 1e-9:
                res.append(("xlim", f"a chart drawn with the requested limit {final_mk + 3} {what3}: time axis is {lim[0]:g}..{lim[1]:g}"))
        want = sorted(f"{1 + 10 * so.machine_id}:{so.start_time}:{so.end_time - so.start_time}:{so.job_id}"
                      for ms in d.schedule.schedule for so in ms)
        if int(lim1[1] + 0.5) != final_mk + 3:
            res.append(("xlim", f"a frame drawn with the requested limit {final_mk + 3} ends at {lim1[1]}"))
        if int(lim2[1] + 0.5) != d.schedule.makespan():
            res.append(("xlim", f"a static chart drawn by a plotter that drew an animation frame before: time axis ends at "
                        f"{lim2[1]}, the schedule's makespan is {d.schedule.makespan()}"))
        if sorted(bars) != want:
            res.append(("bars", f"static chart after an animation frame: bars {sorted(bars)} differ from {want}"))
        return res

    def nontrivial(self, scenario, outs):
        return scenario.meta["count"] >= (100 if scenario.meta["kind"] == "frames" else 1)

    # ---------------------------------------------------------------- oracle on the real objects
    def oracle(self, impl, scenario, index, line, out, ctx):
        res = []
        if line.startswith("mark realgif"):
            return self.real_gif_oracle(int(line.split()[2]))
        if line.startswith("mark manyjobs"):
            # charts of instances with dozens of jobs: every bar still has the colour of ITS job's legend entry and of no other
            import warnings
            import matplotlib.pyplot as plt
            import jsl as _jsl
            from impl import build_instance
            from impl_ext import read_chart
            from job_shop_lib.dispatching.rules import DispatchingRuleSolver
            from job_shop_lib.visualization import plot_gantt_chart
            r_ = random.Random(int(line.split()[2]))
            J_ = r_.choice([22, 23, 26, 31, 39, 44, 50, 57])
            jobs_ = [[([m_], r_.randint(1, 4)) for m_ in r_.sample(range(3), 3)] for _ in range(J_)]
            inst_ = build_instance(jobs_)
            sched_ = DispatchingRuleSolver("most_work_remaining").solve(inst_)
            with warnings.catch_warnings():
                warnings.simplefilter("ignore")
                fig_, ax_ = plot_gantt_chart(sched_)
                bars_, legend_, _, _ = read_chart(ax_)
                plt.close(fig_)
            want_ = sorted(f"{1 + 10 * x.machine_id}:{x.start_time}:{x.end_time - x.start_time}:{x.job_id}" for ms in sched_.schedule for x in ms)
            out_ = []
            if sorted(bars_) != want_:
                odd = [b for b in bars_ if b not in want_][:3]
                out_.append(("bars", f"chart of a schedule with {J_} jobs: bars {odd} do not match the scheduled operations (a bar reads "
                             f"`ambiguous` when two legend entries share its colour)"))
            if sorted(legend_) != list(range(J_)):
                out_.append(("legend", f"chart of a schedule with {J_} jobs: legend jobs {sorted(legend_)[:8]}..."))
            return out_
        if line.startswith("mark mergedframes"):
            # zero-duration operations draw no visible bar: consecutive frames are the same picture, and the GIF writer (Pillow, through
            # imageio) merges identical consecutive frames - the GIF has fewer frames than the history has operations (a recorded finding)
            import os
            import shutil
            import tempfile
            import warnings
            import imageio
            import jsl as _jsl
            from job_shop_lib.visualization import create_gantt_chart_gif
            jobs_ = [[_jsl.Operation(0, 3), _jsl.Operation(1, 0), _jsl.Operation(0, 0)], [_jsl.Operation(1, 2), _jsl.Operation(0, 0)]]
            inst_ = _jsl.JobShopInstance(jobs_, name="z")
            d_ = _jsl.Dispatcher(inst_)
            h_ = _jsl.HistoryObserver(d_)
            for op_ in [jobs_[0][0], jobs_[1][0], jobs_[0][1], jobs_[1][1], jobs_[0][2]]:
                d_.dispatch(op_)
            tmp_ = tempfile.mkdtemp(prefix="verif_merged_")
            try:
                with warnings.catch_warnings():
                    warnings.simplefilter("ignore")
                    create_gantt_chart_gif(inst_, os.path.join(tmp_, "z.gif"), schedule_history=list(h_.history))
                    n_ = len(imageio.mimread(os.path.join(tmp_, "z.gif"), memtest=False))
            finally:
                shutil.rmtree(tmp_, ignore_errors=True)
            if n_ != 5:
                return [("gif-identical-frames-merged", f"a history of 5 operations (three of them of duration 0) gives a GIF of {n_} frames: "
                         "identical consecutive pictures are merged by the GIF writer")]
            return []
        if line == "bars" and out.startswith("held-chart-changed"):
            res.append(("held-chart", "a chart the caller still held changed when the next chart was drawn: it now shows "
                        + out[len("held-chart-changed "):]))
            return res
        if line == "bars":
            sched = impl.dispatcher.schedule.schedule
            want = sorted(f"{1 + 10 * so.machine_id}:{so.start_time}:{so.end_time - so.start_time}:{so.job_id}"
                          for ms in sched for so in ms)
            bars_txt, legend_txt = out.split(" ; legend ")
            got = sorted(bars_txt.strip("[] ").split()) if bars_txt != "[]" else []
            if got != want:
                res.append(("bars", f"bars drawn {got} differ from the scheduled operations {want}"))
            jobs = sorted({so.job_id for ms in sched for so in ms})
            legend = [int(t) for t in legend_txt.strip("[] ").split()] if legend_txt != "[]" else []
            if legend != jobs:
                res.append(("legend", f"legend lists jobs {legend}, jobs with a bar are {jobs}"))
        elif line.startswith("ticks "):
            arg = line.split()[1]
            want = impl.dispatcher.schedule.makespan() if arg == "-" else int(arg)
            toks = out.split()
            xlim = toks[1]
            ticks = [t for t in out.split(" ticks ")[1].strip("[] ").split()]
            if xlim != str(want):
                res.append(("xlim", f"x axis ends at {xlim}, expected {want}"))
            if not ticks or ticks[-1] != str(want):
                res.append(("last-tick", f"last tick {ticks[-1:] or None} is not {want}"))
            vals = [float(t) for t in ticks]
            if vals != sorted(vals) or any(v < 0 or v > want for v in vals):
                res.append(("ticks-range", f"ticks {ticks} not ascending within 0..{want}"))
        elif line.startswith("frames "):
            n = len(line.split()) - 1
            got = out.strip("[] ").split()
            if got != [str(k) for k in range(1, n + 1)]:
                bad = next((k for k, g in enumerate(got, start=1) if g != str(k)), None)
                res.append(("frame-order", f"{n} frames: the frame loaded at position {bad} is frame {got[bad - 1] if bad else '?'}"))
        elif line.startswith("animate "):
            xs = line.split()[1:]
            hist = [(int(xs[i]), int(xs[i + 1]), int(xs[i + 2])) for i in range(0, len(xs), 3)]
            frames = out.split(" ", 2)[2].split(" / ") if out.count(" ") >= 2 else []
            if len(frames) != len(hist):
                res.append(("frame-count", f"{len(frames)} frames for a history of {len(hist)}"))
                return res
            # independent reconstruction: start/end of the first k entries from precedence + machine order
            placed = []
            ends = []
            mf, jf = {}, {}
            for j, p, m in hist:
                st = max(mf.get(m, 0), jf.get(j, 0))
                mf[m] = jf[j] = st + impl.jobs[j][p][1]
                ends.append(st + impl.jobs[j][p][1])
            xlim = out.split()[1]
            if xlim != str(max(ends)):
                res.append(("frame-xlim", f"the frames' time axis ends at {xlim}, the recorded history's makespan is {max(ends)}"))
            mach_free, job_free = {}, {}
            for k, (j, p, m) in enumerate(hist, start=1):
                dur = impl.jobs[j][p][1]
                st = max(mach_free.get(m, 0), job_free.get(j, 0))
                mach_free[m] = job_free[j] = st + dur
                placed.append(f"{1 + 10 * m}:{st}:{dur}:{j}")
                got = sorted(frames[k - 1].strip("[] ").split()) if frames[k - 1] != "[]" else []
                if got != sorted(placed):
                    res.append(("frame-content", f"frame {k} shows {got}, the first {k} dispatched operations are {sorted(placed)}"))
                    break
            # the two supplementary exercises take turns (both draw real figures)
            self._anim = getattr(self, "_anim", 0) + 1
            res += self.plotter_reuse(impl, hist) if self._anim % 2 else self.solver_frames(impl)
        return res

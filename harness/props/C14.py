"""C14 — instances and schedules survive serialisation; views match; nobody mutates the instance."""
import random

import gen
import oracles
import slices
from framework import PropertyCheck, Scenario
from impl import instance_line


def acyclic(jobs, seqs):
    """Precedence graph of per-machine job sequences (non-flexible instance): job-chain edges plus consecutive
    entries of each machine sequence; the k-th occurrence of job j on machine m is the k-th operation of j on m."""
    occ = {}
    node_of = {}
    for m, seq in enumerate(seqs):
        cnt = {}
        for pos, j in enumerate(seq):
            k = cnt.get(j, 0)
            cnt[j] = k + 1
            ops_on_m = [p for p, (ms, _) in enumerate(jobs[j]) if ms[0] == m]
            if k >= len(ops_on_m):
                return None  # malformed
            node_of[(m, pos)] = (j, ops_on_m[k])
            occ[(j, ops_on_m[k])] = (m, pos)
    all_ops = [(j, p) for j, job in enumerate(jobs) for p in range(len(job))]
    if set(occ) != set(all_ops):
        return None
    succ = {v: [] for v in all_ops}
    for j, job in enumerate(jobs):
        for p in range(len(job) - 1):
            succ[(j, p)].append((j, p + 1))
    for m, seq in enumerate(seqs):
        for pos in range(len(seq) - 1):
            succ[node_of[(m, pos)]].append(node_of[(m, pos + 1)])
    indeg = {v: 0 for v in all_ops}
    for v in all_ops:
        for w in succ[v]:
            indeg[w] += 1
    stack = [v for v in all_ops if indeg[v] == 0]
    seen = 0
    while stack:
        v = stack.pop()
        seen += 1
        for w in succ[v]:
            indeg[w] -= 1
            if indeg[w] == 0:
                stack.append(w)
    return seen == len(all_ops)


class Check(PropertyCheck):
    ID = "C14"
    LEAN_MODULE = "JobShopProofs.ScheduleDict"
    THEOREMS = ["JS.C14_ids", "JS.C14_counts", "JS.C14_dict_roundtrip", "JS.C14_taillard_roundtrip",
                "JS.C14_machineLoads", "JS.C14_seq_result_reachable", "JS.C14_seq_terminates", "JS.C14_seq_rebuild", "JS.C14_seq_converse", "JS.hinv_run",
                "JS.C14_seq_result_is_history_state", "JS.C14_seq_accept_iff", "JS.C14_seq_outcomes",
                "JS.C14_schedule_dict_roundtrip", "JS.C14_schedule_json_roundtrip", "JS.C14_instance_json_roundtrip"]
    RULE = ("(instance slice) every instance family incl. irregular and flexible: all derived views (counts, duration and "
            "machine matrices, padded array, operations by machine, loads, maxima, job durations, total) printed by the "
            "real properties and compared with the Lean model and with from-definition recomputations; round-trip through "
            "to_dict + JSON + from_matrices and through a Taillard file written to a temp dir; (jobseq slice) non-flexible "
            "instances: dispatcher-built complete and partial schedules -> job sequences -> from_job_sequences must give "
            "the identical schedule (start times included) also via to_dict/from_dict; random per-machine permutations: "
            "accepted iff their precedence graph is acyclic, any accepted result feasible and complete; (immutability) "
            "instance dumped before/after dispatchers, solvers, observers, graph builders, environments ran on it; "
            "non-trivial = instance with >=2 jobs and unequal job lengths or flexible ops, or a job-sequence probe")
    ASSUMPTIONS = ["json.loads(json.dumps(d)) == d for these dictionaries", "instances are valid",
                   "job sequences naming unknown jobs or with wrong multiplicities are outside the quantifier"]
    QUICK_N = 300

    def make_impl(self, scenario):
        from impl_ext import ImplViews
        return ImplViews()

    def generate(self, rng, n, tier):
        # the benchmark instances shipped with the library go through the same dictionary form (load_benchmark_instance):
        # a few per quick run, all of them in the thorough tier
        import json as _json
        from importlib import resources as _res
        entries = _json.loads(_res.files("job_shop_lib.benchmarking").joinpath("benchmark_instances.json").read_text())
        names = sorted(entries)
        picked = names if tier == "thorough" else rng.sample(names, 6)
        for name in picked:
            lines = ["new", f"mark benchmark {name}"]
            e = entries[name]
            if sum(len(r) for r in e["duration_matrix"]) <= 300:
                # small enough to go through the model as well: views and both round trips of the same operations
                jobs = [[([m] if not isinstance(m, list) else m, d) for m, d in zip(mr, dr)]
                        for mr, dr in zip(e["machines_matrix"], e["duration_matrix"])]
                lines += [instance_line(jobs), "views", "dict", "taillard"]
            yield Scenario(lines, {"kind": "benchmark", "family": "benchmark"})
        for i in range(n):
            yield self.scenario(rng, i)

    @staticmethod
    def benchmark_oracle(name):
        """load_benchmark_instance(name) is the instance the JSON entry describes; its dictionary form is that entry again; using the
        instance (a rule solver runs on it) changes neither the instance nor what the next load returns."""
        import copy
        import json as _json
        from importlib import resources as _res
        import jsl
        from job_shop_lib.benchmarking import load_benchmark_instance, load_benchmark_json
        from job_shop_lib.dispatching.rules import DispatchingRuleSolver
        res = []
        entry = _json.loads(_res.files("job_shop_lib.benchmarking").joinpath("benchmark_instances.json").read_text())[name]
        inst = load_benchmark_instance(name)
        dm, mm = entry["duration_matrix"], entry["machines_matrix"]
        got_d = [[op.duration for op in job] for job in inst.jobs]
        got_m = [[list(op.machines) for op in job] for job in inst.jobs]
        want_m = [[c if isinstance(c, list) else [c] for c in row] for row in mm]
        if inst.name != name or got_d != dm or got_m != want_m:
            res.append(("benchmark-load", f"load_benchmark_instance({name!r}) does not have the operations / name of its JSON entry"))
        if inst.metadata != entry["metadata"]:
            res.append(("benchmark-load", f"load_benchmark_instance({name!r}).metadata differs from the JSON entry"))
        ids = [op.operation_id for job in inst.jobs for op in job]
        if ids != list(range(len(ids))) or inst.num_jobs != len(dm) or inst.num_machines != 1 + max(m for row in want_m for c in row for m in c):
            res.append(("view:ids", f"{name}: operation ids / counts do not match the matrices"))
        d = _json.loads(_json.dumps(inst.to_dict()))
        if d != {"name": name, "duration_matrix": dm, "machines_matrix": mm, "metadata": entry["metadata"]}:
            res.append(("roundtrip:dict", f"{name}: to_dict() is not the JSON entry it was loaded from"))
        back = jsl.JobShopInstance.from_matrices(**d)
        if oracles.dump_instance(back) != oracles.dump_instance(inst):
            res.append(("roundtrip:dict", f"{name}: from_matrices(**to_dict()) differs from the loaded instance"))
        before = (oracles.dump_instance(inst), copy.deepcopy(load_benchmark_json()[name]))
        DispatchingRuleSolver(dispatching_rule="most_work_remaining").solve(inst)
        again = load_benchmark_instance(name)
        if (oracles.dump_instance(inst), load_benchmark_json()[name]) != before or \
                oracles.dump_instance(again) != before[0]:
            res.append(("mutated", f"{name}: solving the loaded instance changed it, the cached JSON, or what the next load returns"))
        return res

    def scenario(self, rng: random.Random, i) -> Scenario:
        kind = ["instance", "jobseq", "jobseq", "immut"][i % 4]
        if kind == "instance":
            family, jobs = gen.gen_instance(rng, max_jobs=4, max_ops=4)
            if rng.random() < 0.12:
                # durations beyond 2**24 (and beyond 2**53): every view except the float32 padded array is exact integer
                # arithmetic
                big = rng.choice([2 ** 24 + 1, 50_000_001, 2 ** 31 + 7, 2 ** 53 + 1])
                jobs = [[(ms, d + (big if rng.random() < 0.6 else 0)) for ms, d in job] for job in jobs]
                family += "+huge"
            lines = ["new", instance_line(jobs), "views", "dict", "taillard"]
            return Scenario(lines, {"kind": kind, "family": family, "flexible": gen.is_flexible(jobs),
                                    "reuse_ops": rng.random() < 0.125})
        if kind == "immut":
            family, jobs = gen.gen_instance(rng, rng.choice(["classic", "irregular", "recirc", "zero", "flexible"]),
                                            max_jobs=3, max_ops=3)
            return Scenario(["new", instance_line(jobs), "mark immut"], {"kind": kind, "family": family})
        family, jobs = gen.gen_instance(rng, rng.choice(["classic", "irregular", "recirc", "zero", "gaps", "ties",
                                                         "single_machine"]), max_jobs=4, max_ops=4)
        lines = ["new", instance_line(jobs)]
        if rng.random() < 0.3:
            # the schedule that is serialised and rebuilt is not the dispatcher's first: an episode was abandoned before it
            lines += slices.abandoned_prelude(rng, jobs)
        tr = gen.Tracker(jobs)
        total = gen.num_ops(jobs)
        stop = total if rng.random() < 0.8 else rng.randint(0, total)
        n_acc = 0
        while n_acc < stop:
            j, p, m = gen.gen_valid_request(rng, tr)
            tr.take(j)
            lines.append(f"disp {j} {p} {m}")
            n_acc += 1
        lines += ["seqs", "rebuild", "mark fromdict"]
        # random permutations of each machine's operations
        M = slices.num_machines_of(jobs)
        for _ in range(rng.randint(1, 3)):
            seqs = []
            for m in range(M):
                js = [j for j, job in enumerate(jobs) for (ms, _) in job if ms[0] == m]
                rng.shuffle(js)
                seqs.append(js)
            lines.append("jobseq " + str(M) + " " + " ".join(str(len(s)) + (" " + " ".join(map(str, s)) if s else "")
                                                            for s in seqs))
        return Scenario(lines, {"kind": kind, "family": family, "complete": stop == total, "zero_dur": gen.has_zero(jobs)})

    def nontrivial(self, scenario, outs):
        return True

    def oracle(self, impl, scenario, index, line, out, ctx):
        res = []
        if line.startswith("mark benchmark"):
            return self.benchmark_oracle(line.split()[2])
        I = impl.instance
        if line.startswith("inst"):
            ctx["dump0"] = oracles.dump_instance(I)
            return res
        if I is None:
            return res
        if line == "views":
            ops = [op for job in I.jobs for op in job]
            if [op.operation_id for op in ops] != list(range(len(ops))):
                res.append(("ids", "operation ids are not dense job-major"))
            for j, job in enumerate(I.jobs):
                for p, op in enumerate(job):
                    if (op.job_id, op.position_in_job) != (j, p):
                        res.append(("ids", f"operation {op.operation_id} has job/position {(op.job_id, op.position_in_job)}"))
            M = 1 + max(m for op in ops for m in op.machines)
            checks = {
                "num_jobs": (I.num_jobs, len(I.jobs)), "num_machines": (I.num_machines, M),
                "num_operations": (I.num_operations, len(ops)),
                "is_flexible": (I.is_flexible, any(len(op.machines) > 1 for op in ops)),
                "durations_matrix": (I.durations_matrix, [[op.duration for op in job] for job in I.jobs]),
                "operations_by_machine": ([[o.operation_id for o in l] for l in I.operations_by_machine],
                                          [[op.operation_id for op in ops if m in op.machines] for m in range(M)]),
                "machine_loads": (list(I.machine_loads), [sum(op.duration for op in ops if m in op.machines) for m in range(M)]),
                "max_duration_per_machine": (list(I.max_duration_per_machine),
                                             [max([op.duration for op in ops if m in op.machines], default=0) for m in range(M)]),
                "job_durations": (list(I.job_durations), [sum(op.duration for op in job) for job in I.jobs]),
                "total_duration": (I.total_duration, sum(op.duration for op in ops)),
                "max_duration": (I.max_duration, max(op.duration for op in ops)),
                "max_duration_per_job": (list(I.max_duration_per_job), [max(op.duration for op in job) for job in I.jobs]),
            }
            for name, (got, want) in checks.items():
                if got != want:
                    res.append(("view:" + name, f"{name} = {got}, definition gives {want}"))
            arr = I.durations_matrix_array
            L = max(len(job) for job in I.jobs)
            if arr.shape != (len(I.jobs), L):
                res.append(("view:padded", f"durations_matrix_array shape {arr.shape}"))
        elif line == "dict" and out.startswith("raise stale-name"):
            res.append(("roundtrip:dict", f"after the instance was renamed, to_dict() still carries the name `{out[17:]}` (an earlier "
                        "to_dict() result, edited by its caller)"))
        elif line == "dict" and out.startswith("raise"):
            res.append(("roundtrip:dict", f"the dictionary round trip of a valid instance raised: {out}"))
        elif line in ("dict", "taillard") and out != "n/a":
            orig, back, d = impl.last_roundtrip
            a, b = oracles.dump_instance(orig), oracles.dump_instance(back)
            if a[1] != b[1]:
                res.append(("roundtrip:" + line, f"operations differ after the {line} round trip"))
            if line == "dict" and (back.name != orig.name or back.metadata != orig.metadata):
                res.append(("roundtrip:dict", "name or metadata lost in the dict round trip"))
            if line == "dict":
                # from_matrices with every machine entry given as a list (allowed for non-flexible instances too), and the
                # caller changing its own lists afterwards: the views are defined by the operations
                import jsl

                def views_of(inst):
                    keep, impl.instance = impl.instance, inst
                    try:
                        return impl.cmd_views([])
                    except Exception as e:  # pylint: disable=broad-except
                        return f"raise {type(e).__name__}: {e}"
                    finally:
                        impl.instance = keep
                dm = [[op.duration for op in job] for job in orig.jobs]
                mm = [[list(op.machines) for op in job] for job in orig.jobs]
                try:
                    inst2 = jsl.JobShopInstance.from_matrices(dm, mm, name=orig.name)
                except Exception as e:  # pylint: disable=broad-except
                    res.append(("from_matrices", f"from_matrices with list-valued machine entries raised {e!r}"))
                    inst2 = None
                if inst2 is not None:
                    v1, v2 = views_of(orig), views_of(inst2)
                    if v1 != v2:
                        res.append(("from_matrices", f"views of from_matrices(durations, list-valued machines) differ from "
                                    f"the views of the same operations: {v2[:160]} vs {v1[:160]}"))
                    inst3 = jsl.JobShopInstance.from_matrices(dm, mm, name=orig.name)
                    dm[0][0] += 7
                    mm[-1].append([0])       # (the innermost lists ARE the operations' machine lists: not touched)
                    dm[-1].append(3)
                    dm.append([1])
                    v3 = views_of(inst3)
                    if v3 != v1:
                        res.append(("from_matrices", "an instance built by from_matrices changed when the caller later "
                                    f"modified the lists it had passed: {v3[:160]} vs {v1[:160]}"))
            if line == "taillard" and (back.name != "verif_inst" or back.metadata != {"key": "value"}):
                res.append(("roundtrip:taillard", f"name/metadata after Taillard load: {back.name!r} {back.metadata!r}"))
            if line == "taillard" and getattr(impl, "taillard_named", None):
                given, got, meta, got_meta, same_ops = impl.taillard_named
                if got != given or got_meta != meta or not same_ops:
                    res.append(("roundtrip:taillard", f"from_taillard_file(path, name={given!r}, **{meta!r}) gave name {got!r}, metadata "
                                f"{got_meta!r}, same operations: {same_ops}"))
        elif line == "rebuild":
            # rebuilt schedules the caller still holds stay what they were when later ones are rebuilt (from the same instance)
            kept = ctx.setdefault("kept_rebuilt", [])
            for sch0, dump0 in kept:
                if oracles.dump_schedule(sch0.schedule) != dump0:
                    res.append(("rebuild-kept", "a schedule rebuilt earlier (and still held by the caller) changed when another one was rebuilt"))
                    break
            if getattr(impl, "last_rebuilt", None) is not None:
                import jsl as _jsl
                kept.append((impl.last_rebuilt, oracles.dump_schedule(impl.last_rebuilt.schedule)))
                # ... and two more rebuilds of OTHER schedules of the same instance object, results dropped
                for rule in ("shortest_processing_time", "most_work_remaining"):
                    try:
                        from job_shop_lib.dispatching.rules import DispatchingRuleSolver
                        other = DispatchingRuleSolver(rule).solve(impl.instance)
                        _jsl.Schedule.from_job_sequences(impl.instance, other.to_dict()["job_sequences"])
                    except Exception:  # pylint: disable=broad-except
                        pass
                for sch0, dump0 in kept:
                    if oracles.dump_schedule(sch0.schedule) != dump0:
                        res.append(("rebuild-kept", "a schedule rebuilt earlier (and still held by the caller) changed when another schedule of "
                                    "the same instance was rebuilt"))
                        break
            d = impl.dispatcher
            if d.schedule.is_complete():
                if not out.startswith("ok"):
                    res.append(("rebuild", f"from_job_sequences rejected the sequences of a dispatcher-built schedule: {out}"))
                elif oracles.dump_schedule(impl.last_rebuilt.schedule) != oracles.dump_schedule(d.schedule.schedule):
                    res.append(("rebuild", "schedule rebuilt from its job sequences differs (operations, machines or start times)"))
        elif line == "mark fromdict":
            import json
            import jsl
            d = impl.dispatcher
            if d.schedule.is_complete():
                dd = json.loads(json.dumps(d.schedule.to_dict()))
                try:
                    # a sibling instance first: same name, durations and metadata, machines rotated - loading its
                    # schedule must not influence loading ours
                    I0 = impl.instance
                    M0 = I0.num_machines
                    if not I0.is_flexible and M0 > 1:
                        sib = jsl.JobShopInstance(
                            [[jsl.Operation((op.machine_id + 1) % M0, op.duration) for op in job] for job in I0.jobs],
                            name=I0.name, **I0.metadata)
                        ds = jsl.Dispatcher(sib)
                        for x in sorted((x for ms in d.schedule.schedule for x in ms), key=lambda x: (x.start_time, x.operation.position_in_job)):
                            ds.dispatch(sib.jobs[x.operation.job_id][x.operation.position_in_job])
                        sd = json.loads(json.dumps(ds.schedule.to_dict()))
                        s_sib = jsl.Schedule.from_dict(**sd)
                        if oracles.dump_schedule(s_sib.schedule) != oracles.dump_schedule(ds.schedule.schedule):
                            res.append(("fromdict", "Schedule.from_dict(to_dict()) of the sibling instance differs"))
                    s2 = jsl.Schedule.from_dict(**dd)
                    if oracles.dump_schedule(s2.schedule) != oracles.dump_schedule(d.schedule.schedule):
                        res.append(("fromdict", "Schedule.from_dict(to_dict()) differs from the schedule"))
                except Exception as e:  # pylint: disable=broad-except
                    res.append(("fromdict", f"Schedule.from_dict(to_dict()) raised {e!r}"))
        elif line.startswith("jobseq"):
            xs = [int(t) for t in line.split()[1:]]
            n, i, seqs = xs[0], 1, []
            for _ in range(n):
                k = xs[i]
                seqs.append(xs[i + 1:i + 1 + k])
                i += k + 1
            ok = acyclic(impl.jobs, seqs)
            if ok is not None:
                if ok and not out.startswith("ok"):
                    res.append(("seq-rejected", f"`{line}`: sequences admit a schedule (acyclic) but were rejected: {out}"))
                if not ok and out != "raise":
                    res.append(("seq-accepted", f"`{line}`: cyclic sequences were not rejected with ValidationError: {out}"))
                if out.startswith("ok"):
                    s = impl.last_rebuilt
                    errs = oracles.feasible(impl.instance, s.schedule)
                    if errs or not s.is_complete():
                        res.append(("seq-infeasible", f"`{line}`: accepted but {errs[:1] or 'incomplete'}"))
                    if [[x.operation.job_id for x in ms] for ms in s.schedule] != seqs:
                        res.append(("seq-order", f"`{line}`: resulting schedule does not follow the given sequences"))
        elif line == "mark immut":
            views0 = oracles.dump_views(I)        # fills the instance's caches
            self.exercise(impl)
            views1 = oracles.dump_views(I)
            for k in views0:
                if views0[k] != views1[k]:
                    res.append(("mutated-view", f"the instance's view `{k}` changed while dispatchers, solvers, observers, "
                                f"graph builders and environments ran on it: {views0[k]} -> {views1[k]}"))
        if oracles.dump_instance(I) != ctx.get("dump0"):
            res.append(("mutated", f"the instance was modified by `{line}`"))
            ctx["dump0"] = oracles.dump_instance(I)
        return res

    def exercise(self, impl):
        """Runs dispatchers, solvers, observers, graph builders and environments on the instance."""
        import jsl
        from job_shop_lib.dispatching.rules import DispatchingRuleSolver
        from job_shop_lib.dispatching.feature_observers import FeatureObserverType, feature_observer_factory
        from job_shop_lib.graphs import (build_disjunctive_graph, build_agent_task_graph,
                                         build_complete_agent_task_graph, build_agent_task_graph_with_jobs)
        from job_shop_lib.reinforcement_learning import SingleJobShopGraphEnv
        I = impl.instance
        for rule in ("most_work_remaining", "shortest_processing_time", "first_come_first_served",
                     "most_operations_remaining"):
            DispatchingRuleSolver(rule)(I)
        if not I.is_flexible:
            from job_shop_lib.constraint_programming import ORToolsSolver
            ORToolsSolver().solve(I)
        d = jsl.Dispatcher(I, jsl.filter_dominated_operations)
        obs = [feature_observer_factory(t, dispatcher=d) for t in FeatureObserverType]
        while not d.schedule.is_complete():
            op = d.available_operations()[0]
            d.dispatch(op, op.machines[0])
        d.reset()
        # rejected requests (bad machine ids of every flavour, not-next operations) leave the instance alone as well
        for job in I.jobs:
            for bad in (-1, -2, I.num_machines, I.num_machines + 3) + tuple(m for m in range(I.num_machines) if m not in job[0].machines):
                try:
                    d.dispatch(job[0], bad)
                except Exception:  # pylint: disable=broad-except
                    pass
                else:
                    d.reset()
            if len(job) > 1:
                try:
                    d.dispatch(job[-1], job[-1].machines[0])
                except Exception:  # pylint: disable=broad-except
                    pass
                else:
                    d.reset()
        del obs
        for b in (build_disjunctive_graph, build_agent_task_graph, build_complete_agent_task_graph,
                  build_agent_task_graph_with_jobs):
            g = b(I)
            env = SingleJobShopGraphEnv(g, [FeatureObserverType.IS_READY, FeatureObserverType.DURATION])
            env.reset()
            done = False
            while not done:
                op = env.dispatcher.available_operations()[0]
                _, _, done, _, _ = env.step((op.job_id, op.machines[0]))
        # a graph assembled by hand in an unusual but legal order: other nodes first, the operation nodes afterwards
        from job_shop_lib import graphs as G
        g = G.JobShopGraph(I, add_operation_nodes=False)
        G.add_source_sink_nodes(g)
        G.add_machine_nodes(g)
        g.add_operation_nodes()
        try:
            G.add_operation_machine_edges(g)
        except Exception:  # pylint: disable=broad-except
            pass        # (node ids and operation ids differ in such a graph: helpers that assume otherwise are not our concern here)
        # instance transformations return NEW instances
        impl.cmd_xform([])
        # look-aheads on deep copies
        import copy
        d2 = jsl.Dispatcher(I)
        twin = copy.deepcopy(d2)
        twin.dispatch(twin.instance.jobs[0][0], twin.instance.jobs[0][0].machines[0])
        # observers attached LATE (to a dispatcher that already has a history), and the observer-based rule run on a dispatcher
        # the caller prepared with a partial schedule: they start from what they find - in arrays of their own
        from job_shop_lib.dispatching.rules import observer_based_most_work_remaining_rule
        d3 = jsl.Dispatcher(I)
        k = 0
        while not d3.schedule.is_complete():
            op = d3.available_operations()[-1]
            d3.dispatch(op, op.machines[-1])
            k += 1
            if k in (1, 3):
                late = [feature_observer_factory(t, dispatcher=d3) for t in FeatureObserverType]
                for o in late:
                    d3.unsubscribe(o)
                del late
            if k == 2 and not d3.schedule.is_complete():
                nxt = observer_based_most_work_remaining_rule(d3)
                d3.dispatch(nxt, nxt.machines[0])

"""C06 — time only moves forward."""
import random

import gen
import oracles
import slices
from framework import PropertyCheck, Scenario
from impl import instance_line



def observers_lines(rng, jobs):
    """One scenario in three: observers that READ the dispatcher from inside their callbacks are subscribed (a residual graph
    updater, feature observers): what they do with the query results must not disturb the queries."""
    if rng.random() >= 0.33 or max(d for job in jobs for _, d in job) >= 2 ** 24:
        return []
    out = [f"fres {rng.choice(['disjunctive', 'agent_task', 'agent_task_jobs', 'complete_agent_task'])} 1 1"]
    for k in rng.sample(["is_completed -", "is_scheduled -", "is_ready -", "earliest_start_time -", "duration -"], rng.randint(0, 3)):
        out.append("fobs " + k)
    return out

class Check(PropertyCheck):
    ID = "C06"
    LEAN_MODULE = "JobShopProofs.ObserversTransparent"
    THEOREMS = ["JS.C06_filter_now", "JS.C06_now_mono", "JS.C06_completed_mono", "JS.C06_final", "JS.C06_world_now_mono"]
    RULE = ("random instance x filter configuration x random history (zero-duration instances only without filter, as the "
            "property states); current_time() and completed_operations() sampled before and after every dispatch request "
            "(accepted and rejected); oracle on the real answers: time never decreases, completed only grows, "
            "final time = makespan, and with positive durations the time under the installed filter equals the "
            "no-filter time recomputed from the schedule; the same answers are compared with the Lean model; "
            "non-trivial = >=3 accepted dispatches and the time strictly increased at least once")
    ASSUMPTIONS = ["instances are valid", "monotonicity under filters is claimed for positive durations only (as in the property)"]
    QUICK_N = 300

    def make_impl(self, scenario):
        from impl_ext import ImplEnv
        return ImplEnv(filter_style=scenario.meta.get("filter_style", "callable"))

    def generate(self, rng, n, tier):
        if tier == "thorough":
            # exhaustive small scope first (every instance <= 2 jobs x 2 operations, durations 0..2, every interleaving)
            self.extra_coverage = {"exhaustive_small_scope": True}
            yield from slices.exhaustive_small("time")
        for _i in range(n):
            if _i % 100 == 17:
                yield self.long_machine_scenario(rng)
                continue
            if _i == 31:
                yield Scenario(["new", "mark degenerate 0"], {"family": "degenerate", "accepted": 0})
                continue
            if _i % 20 == 9:
                yield Scenario(["new", f"mark raiser {rng.randint(0, 10**6)}"], {"family": "raiser", "accepted": 0})
                continue
            yield self.scenario(rng, tier)

    def long_machine_scenario(self, rng: random.Random) -> Scenario:
        """One machine with several dozen short operations (more than any small-list shortcut would expect), queued while a long
        operation on another machine holds the clock: the clock and the completed set after every dispatch."""
        n = rng.randint(33, 40)
        unit = rng.choice([1, 1, 2])
        jobs = [[([0], unit)] for _ in range(n)] + [[([1], unit * (n - 1)), ([1], 1)]]
        order = list(range(n))
        if rng.random() < 0.5:
            rng.shuffle(order)
        lines = ["new", instance_line(jobs), gen.filter_line(None), "q current_time", "q completed", f"disp {n} 0 1", "q current_time", "q completed"]
        for j in order:
            lines += [f"disp {j} 0 0", "q current_time", "q completed"]
        lines += [f"disp {n} 1 1", "q current_time", "q completed", "q is_complete", "q makespan"]
        return Scenario(lines, {"family": "long_machine", "filter": "none", "flexible": False, "zero_dur": False, "accepted": n + 2,
                                "filter_style": "callable"})

    def scenario(self, rng: random.Random, tier) -> Scenario:
        family, jobs = gen.gen_instance(rng, max_jobs=5 if tier == "quick" else 6)
        f = gen.gen_filter(rng)
        if rng.random() < 0.08 and not gen.has_zero(jobs):
            # times far beyond 2**63 under the dominated-operations filter: the clock is integer arithmetic
            big = 2 ** rng.choice([53, 63, 64, 70])
            jobs = [[(ms, d + big) for ms, d in job] for job in jobs]
            family += "+huge"
            f = rng.choice([["dom"], ["dom", "nidle"], ["nio", "dom"]])
        if gen.has_zero(jobs):
            f = None
        lines = ["new", instance_line(jobs), gen.filter_line(f)] + observers_lines(rng, jobs) + ["q current_time", "q completed"]
        tr = gen.Tracker(jobs)
        M = slices.num_machines_of(jobs)
        n_acc = 0
        while not tr.done():
            if rng.random() < 0.15:
                bad = gen.gen_invalid_request(rng, tr, M)
                if bad:
                    lines += [f"disp {bad[0]} {bad[1]} {bad[2]}", "q current_time", "q completed"]
            if len(tr.ready()) == 1 and sum(len(job) - tr.idx[j] for j, job in enumerate(jobs)) == 1 and rng.random() < 0.5:
                # the very last operation is first requested on every machine it cannot run on (busy machines included): refused,
                # and the clock is not bothered by what the request would have meant
                lj, lp = tr.ready()[0]
                for bm in range(M):
                    if bm not in jobs[lj][lp][0]:
                        lines += [f"disp {lj} {lp} {bm}", "q current_time", "q completed"]
            if rng.random() < 0.04:
                lines += ["stamp", "q current_time", "q completed"]
            if rng.random() < 0.08:
                # a look-ahead on a copy of the dispatcher, which is then queried itself: the original's clock is its own
                pj, pp, pm = gen.gen_valid_request(rng, tr, "uniform")
                lines += [f"peek {pj} {pp} {pm}", "q current_time", "q completed"]
            j, p, m = gen.gen_valid_request(rng, tr, rng.choice(["uniform", "one_job_first"]))
            tr.take(j)
            n_acc += 1
            lines.append(f"disp {j} {p} {m}")
            if rng.random() < 0.35 and not tr.done():
                # read-only queries on arbitrary sub-lists of the ready operations, asked before the time is read:
                # they must not influence it
                offs = [sum(len(job) for job in jobs[:k]) for k in range(len(jobs))]
                ready = [offs[jj] + pp for jj, pp in tr.ready()]
                sub = rng.sample(ready, rng.randint(1, len(ready)))
                tb = "tb:" + ",".join(rng.choice(["spt", "fcfs", "mor"]) for _ in range(rng.randint(1, 3)))
                lines.append(rng.choice([f"q min_start {' '.join(map(str, sub))}", f"q earliest_start {sub[0]}",
                                         "flt dom ; " + " ".join(map(str, sub)), "flt nio ; " + " ".join(map(str, sub)),
                                         # a dispatching rule is asked for its choice (and nothing is dispatched on it)
                                         f"rule {tb} {rng.randint(0, 9)}", f"rule {tb} {rng.randint(0, 9)}",
                                         "rule " + rng.choice(["spt", "fcfs", "mwkr", "mor", "sb:spt", "sb:mor"]) + " 0"]))
            if rng.random() < 0.3:
                # the user looked at other (memoised) queries first: what they returned must not be used up
                lines += ["q " + q for q in rng.sample(["scheduled", "unscheduled", "uncompleted", "ongoing", "available"], rng.randint(1, 2))]
            lines += ["q current_time", "q completed"]
        lines += ["q is_complete", "q makespan"]
        if rng.random() < 0.35:
            # a second episode on the same dispatcher: time starts again at the beginning and moves forward again
            if rng.random() < 0.5:
                # (the caller noted the first episode's result in the schedule's metadata, as the library's solvers do)
                lines.append("stamp")
            lines += ["reset", "mark episode"]
            if rng.random() < 0.4:
                lines += ["q current_time", "q completed"]
            tr.reset()
            first = True
            quiet = rng.random() < 0.35      # nobody asks anything until the episode is over (or until some random moment)
            ask_from = rng.randint(1, gen.num_ops(jobs)) if quiet else 0
            k = 0
            while not tr.done():
                j, p, m = gen.gen_valid_request(rng, tr, rng.choice(["uniform", "last_job_first"]))
                tr.take(j)
                k += 1
                lines.append(f"disp {j} {p} {m}")
                if quiet and k < ask_from:
                    continue
                if not first or rng.random() < 0.5:
                    lines += ["q current_time", "q completed"]
                first = False
            lines += ["q current_time", "q completed", "q is_complete", "q makespan"]
        meta = {"family": family, "filter": "none" if f is None else "+".join(f) or "empty-composite",
                "flexible": gen.is_flexible(jobs), "zero_dur": gen.has_zero(jobs), "accepted": n_acc,
                "filter_style": rng.choice(["callable", "enum", "str", "lazy"])}
        return Scenario(lines, meta)

    def nontrivial(self, scenario, outs):
        times = [int(o) for l, o in zip(scenario.lines, outs) if l == "q current_time" and o.lstrip("-").isdigit()]
        return scenario.meta.get("accepted", 0) >= 3 and len(set(times)) >= 2

    def oracle(self, impl, scenario, index, line, out, ctx):
        res = []
        if line.startswith("mark raiser"):
            return oracles.raiser_episode(int(line.split()[2]))["C06"]
        if line.startswith("mark degenerate"):
            # an instance without operations: its schedule is complete from the start, the current time is the makespan 0 - under any filter
            import jsl as _jsl
            out_ = []
            for shape in ([], [[]], [[], []]):
                for flt in (None, _jsl.filter_dominated_operations, _jsl.filter_non_idle_machines):
                    try:
                        dd = _jsl.Dispatcher(_jsl.JobShopInstance([list(j) for j in shape]), ready_operations_filter=flt)
                        if dd.current_time() != 0 or dd.schedule.makespan() != 0 or list(dd.completed_operations()) or \
                                list(dd.uncompleted_operations()):
                            out_.append(("final", f"instance {shape}: current_time() = {dd.current_time()}, makespan {dd.schedule.makespan()}"))
                    except Exception as e:  # pylint: disable=broad-except
                        out_.append(("final", f"instance {shape} (no operations): the clock of its dispatcher raised {type(e).__name__}: {e}"))
            return out_[:2]
        d = impl.dispatcher
        if line == "mark episode":
            ctx.pop("t", None)
            ctx.pop("completed", None)
        if line == "q current_time":
            t = int(out)
            prev = ctx.get("t")
            if prev is not None and t < prev:
                res.append(("time-decreased", f"current time went from {prev} to {t} after `{scenario.lines[index - 1]}`"))
            ctx["t"] = t
            v = oracles.View(impl.instance, d.schedule.schedule)
            if not gen.has_zero(impl.jobs):
                base = v.now(None)
                if t != base:
                    res.append(("filter-changed-time", f"current_time()={t} under filter {impl.filter_tokens} but "
                                f"the no-filter time recomputed from the schedule is {base}"))
            if d.schedule.is_complete() and t != v.makespan():
                res.append(("final", f"schedule complete but current_time()={t} != makespan {v.makespan()}"))
        elif line == "q completed":
            cur = set(out.strip("[] ").split())
            prev = ctx.get("completed")
            if prev is not None and not prev <= cur:
                res.append(("completed-shrank", f"operations {sorted(prev - cur)} were completed and no longer are "
                            f"after `{scenario.lines[index - 2]}` / `{scenario.lines[index - 3]}`"))
            ctx["completed"] = cur
        return res

"""C03 — the CP-SAT solver returns feasible, truly optimal schedules."""
import itertools
import json
import os
import random

import gen
import jsl
import oracles
from framework import PropertyCheck, Scenario
from impl import instance_line, build_instance

RULES = ["shortest_processing_time", "first_come_first_served", "most_work_remaining", "most_operations_remaining", "random"]


def best_permutation_makespan(jobs):
    """The best makespan among the schedules of a flow shop (all jobs: the same route) that keep one job order on every machine."""
    import itertools
    best = None
    for perm in itertools.permutations(range(len(jobs))):
        mfree, jfree = {}, [0] * len(jobs)
        for p in range(len(jobs[0])):
            for j in perm:
                (ms, d) = jobs[j][p]
                st = max(mfree.get(ms[0], 0), jfree[j])
                mfree[ms[0]] = jfree[j] = st + d
        best = max(jfree) if best is None else min(best, max(jfree))
    return best


def brute_force_optimum(jobs):
    """Optimal makespan by exhaustive search over the semi-active schedules (every interleaving of the jobs); for a
    non-flexible instance these contain an optimal schedule.  Independent of the library: plain arithmetic."""
    n = len(jobs)
    best = [None]
    memo = {}

    def rec(idx, mfree, jfree):
        key = (idx, mfree, jfree)
        if key in memo:
            return memo[key]
        if all(idx[j] == len(jobs[j]) for j in range(n)):
            return max(jfree + (0,))
        res = None
        for j in range(n):
            p = idx[j]
            if p == len(jobs[j]):
                continue
            ms, d = jobs[j][p]
            m = ms[0]
            st = max(mfree[m], jfree[j])
            nm = list(mfree)
            nm[m] = st + d
            nj = list(jfree)
            nj[j] = st + d
            ni = list(idx)
            ni[j] += 1
            v = rec(tuple(ni), tuple(nm), tuple(nj))
            # the makespan of the completed schedule = max end over all ops: track through max of frees at the end
            res = v if res is None or v < res else res
        memo[key] = res
        return res

    M = 1 + max(m for job in jobs for ms, _ in job for m in ms)

    # makespan = max over machine free times at the end (every op ends on some machine)
    def rec2(idx, mfree, jfree):
        key = (idx, mfree, jfree)
        if key in memo:
            return memo[key]
        if all(idx[j] == len(jobs[j]) for j in range(n)):
            return max(mfree)
        res = None
        for j in range(n):
            p = idx[j]
            if p == len(jobs[j]):
                continue
            ms, d = jobs[j][p]
            m = ms[0]
            st = max(mfree[m], jfree[j])
            nm = list(mfree)
            nm[m] = st + d
            nj = list(jfree)
            nj[j] = st + d
            ni = list(idx)
            ni[j] += 1
            v = rec2(tuple(ni), tuple(nm), tuple(nj))
            res = v if res is None or v < res else res
        memo[key] = res
        return res

    return rec2(tuple([0] * n), tuple([0] * M), tuple([0] * n))


class Check(PropertyCheck):
    ID = "C03"
    LEAN_MODULE = "JobShopProofs.Properties.C03"
    THEOREMS = ["JS.C03_solution_feasible", "JS.C03_schedule_accepted", "JS.C03_schedule_complete",
                "JS.C03_feasible_is_solution", "JS.C03_solution_exists", "JS.C03_optimum", "JS.C03_le_dispatcher",
                "JS.C03_job_bound", "JS.C03_machine_bound"]
    RULE = ("random non-flexible instances (classic, irregular, recirculation incl. consecutive same-machine operations, "
            "zero durations, machine-id gaps, single machine/job, ties): the real ORToolsSolver solves them; the "
            "CpModelProto it built (solver.model after solve) is printed canonically and compared with the Lean model's "
            "constraint list; the solution values of ALL variables are handed to the Lean model, whose reconstruction "
            "(sort by (start,end), Schedule check, makespan) is compared with the returned schedule and metadata; one "
            "solver object solves 1-3 instances in a row (state independence: makespan/status equal to a fresh solver's); "
            "oracle independent of model: feasibility and completeness of the returned schedule, metadata makespan = "
            "schedule makespan, status optimal => equals the brute-force optimum (exhaustive semi-active search in plain "
            "Python), <= every dispatching rule's makespan, >= job-length and machine-load bounds, no NoSolutionFoundError "
            "without a time limit; a benchmark instance solved under a sub-second time limit (status feasible): reported = actual "
            "makespan, feasible, complete; near-identical jobs with durations 2**24..2**40 (exact optimum); build/solve/drop loops of same-shape same-total instances (each answer is about the instance passed); thorough tier: benchmark instances with recorded optima/bounds; non-trivial = >=2 jobs "
            "sharing a machine")
    ASSUMPTIONS = ["CP-SAT is sound and complete for the model it is given (solution satisfies every constraint; "
                   "OPTIMAL = no better solution; INFEASIBLE only without solutions)",
                   "constraint semantics as documented in cp_model.proto (NoOverlap: a sequence with end_i <= start_{i+1} "
                   "exists, zero-size intervals matter; interval: start + size = end; lin_max: target = max exprs)"]
    QUICK_N = 60

    def make_impl(self, scenario):
        from impl_ext import ImplCp
        return ImplCp()

    def generate(self, rng, n, tier):
        for i in range(n):
            k = rng.choice([1, 1, 2, 3])
            lines = ["new", "cpnew"]
            metas = []
            for _ in range(k):
                fam = rng.choice(["classic", "irregular", "recirc", "recirc", "zero", "zero", "gaps", "single_machine",
                                  "ties", "samemachine", "zero_mid", "flowshop"])
                if fam == "flowshop":
                    # all jobs share one machine route over 4-5 machines, and (rejection sampling) the optimum needs the jobs to
                    # overtake each other: no same-order ("permutation") schedule is optimal
                    M = rng.choice([4, 4, 5])
                    route = rng.sample(range(M), M)
                    jobs = None
                    for _try in range(80):
                        cand = [[([m], rng.choice([1, 1, 4, 5])) for m in route] for _j in range(2)]
                        if jobs is None or best_permutation_makespan(cand) > brute_force_optimum(cand):
                            jobs = cand
                            if _try:
                                break
                elif fam == "samemachine":
                    J, M = rng.randint(1, 3), rng.randint(1, 3)
                    jobs = []
                    for _j in range(J):
                        job = []
                        m = rng.randrange(M)
                        for _p in range(rng.randint(1, 4)):
                            if rng.random() < 0.5:
                                m = rng.randrange(M)       # otherwise: consecutive operations on the same machine
                            job.append(([m], rng.choice([0, 1, 2, 3, 5])))
                        jobs.append(job)
                elif fam == "zero_mid":
                    # zero-duration operations in the middle or at the end of a job, on machines other jobs keep busy
                    J, M = 3, rng.randint(2, 3)
                    jobs = [[([rng.randrange(M)], 0 if (p > 0 and rng.random() < 0.6) else rng.randint(2, 6))
                             for p in range(rng.randint(2, 3))] for _j in range(J)]
                else:
                    _, jobs = gen.gen_instance(rng, fam, max_jobs=3, max_machines=3, max_ops=3, max_dur=6)
                lines += [instance_line(jobs), "cpsolve" if rng.random() < 0.7 else "cpsolve call", "cpmodel"]
                metas.append(fam)
            yield Scenario(lines, {"families": "+".join(metas), "solves": k})
        # a time limit that stops the search before optimality is proven: the reported makespan must still be the
        # schedule's own (status "feasible")
        for name, secs in ([("la29", 0.4)] if tier == "quick" else [("la29", 0.4), ("ta41", 1.0), ("ft10", 0.3), ("abz7", 0.5)]):
            yield Scenario(["new", "cpnew", f"mark timelimit {name} {secs}"], {"families": "timelimit", "solves": 1})
        # durations of very different scale (makespan > 10^5): optimality must be exact, not "within a relative gap";
        # reference = the oracle's own CP-SAT model of the instance, default parameters
        for k in range(2 if tier == "quick" else 12):
            yield Scenario(["new", "cpnew", f"mark bigdur {rng.randint(0, 10**6)}"], {"families": "bigdur", "solves": 1})
        for k in range(4 if tier == "quick" else 30):
            yield Scenario(["new", "cpnew", f"mark stalemeta {rng.randint(0, 10**6)}"], {"families": "stalemeta", "solves": 1})
        for k in range(3 if tier == "quick" else 20):
            yield Scenario(["new", "cpnew", f"mark hugedur {rng.randint(0, 10**6)}"], {"families": "hugedur", "solves": 1})
        # durations between 2**24 and 2**40 (exact for CP-SAT, not for float32), jobs that are identical or differ by one unit
        for k in range(4 if tier == "quick" else 30):
            yield Scenario(["new", "cpnew", f"mark middur {rng.randint(0, 10**6)}"], {"families": "middur", "solves": 1})
        # a build / solve / drop loop (the way a benchmark study runs): same shape, same total processing time, every
        # instance garbage before the next one exists - each answer must be about the instance that was passed
        yield Scenario(["new", "cpnew", "mark cpsatrange 0"], {"families": "cpsatrange", "solves": 1})
        for k in range(4 if tier == "quick" else 10):
            yield Scenario(["new", "cpnew", f"mark degenerate {rng.randint(0, 10**6)}"], {"families": "degenerate", "solves": 1})
        for k in range(3 if tier == "quick" else 20):
            yield Scenario(["new", "cpnew", f"mark resolve {rng.randint(0, 10**6)}"], {"families": "resolve", "solves": 3})
        for k in range(3 if tier == "quick" else 25):
            yield Scenario(["new", "cpnew", f"mark gcloop {rng.randint(0, 10**6)}"], {"families": "gcloop", "solves": 10})
        if tier == "thorough":
            for name in ["ft06", "la01", "la05", "orb01"][: 4]:
                yield Scenario(["new", "cpnew", f"mark benchmark {name}"], {"families": "benchmark", "solves": 1})

    def nontrivial(self, scenario, outs):
        return any(o.startswith("ok ") for o in outs)

    def compare(self, line):
        return not line.startswith("mark")

    def oracle(self, impl, scenario, index, line, out, ctx):
        res = []
        if line.startswith("cpsolve"):
            jobs = impl.jobs
            if out == "no-solution":
                res.append(("no-solution", "NoSolutionFoundError raised without any time limit"))
                return res
            if not out.startswith("ok"):
                res.append(("solve-raised", f"solve raised: {out}"))
                return res
            sched = impl.cp_result
            res += self.check_schedule(impl.instance, jobs, sched)
            # state independence: a fresh solver object on the same instance
            fresh = jsl.ORToolsSolver() if hasattr(jsl, "ORToolsSolver") else None
            from impl_ext import _ORToolsSolver
            f = _ORToolsSolver().solve(impl.instance)
            if f.makespan() != sched.makespan() or f.metadata["status"] != sched.metadata["status"]:
                res.append(("state-dependence", f"reused solver object: makespan {sched.makespan()} status "
                            f"{sched.metadata['status']}; fresh solver: {f.makespan()} {f.metadata['status']}"))
        elif line.startswith("mark timelimit"):
            from job_shop_lib.benchmarking import load_benchmark_instance
            from impl_ext import _ORToolsSolver, _NoSolution
            name, secs = line.split()[2], float(line.split()[3])
            inst = load_benchmark_instance(name)
            try:
                sched = _ORToolsSolver(max_time_in_seconds=secs).solve(inst)
            except _NoSolution:
                return res          # allowed: the time limit prevented finding a solution
            jobs = [[(list(op.machines), op.duration) for op in job] for job in inst.jobs]
            ctx["timelimit_status"] = sched.metadata.get("status")
            res += self.check_schedule(inst, jobs, sched, brute=False)
            # a time limit belongs to the solver object it was given to: after a solve under a (tiny) limit, ANOTHER solver without a
            # limit still proves optimality (ft06: optimum 55, well beyond a millisecond of search)
            ft06 = load_benchmark_instance("ft06")
            try:
                _ORToolsSolver(max_time_in_seconds=0.001).solve(ft06)
            except _NoSolution:
                pass
            try:
                free = _ORToolsSolver().solve(ft06)
            except _NoSolution:
                res.append(("no-solution", "NoSolutionFoundError from a solver WITHOUT a time limit (ft06), after another solver object solved under one"))
                return res
            if free.metadata.get("status") != "optimal" or free.makespan() != 55:
                res.append(("limit-leaked", f"a solver without a time limit returned status {free.metadata.get('status')} / makespan {free.makespan()} "
                            "for ft06 (optimum 55) after another solver object solved under a 1 ms limit"))
        elif line.startswith("mark hugedur"):
            # durations beyond 2**53 (odd ones are not representable as doubles): the model is integer arithmetic
            from impl_ext import _ORToolsSolver, _NoSolution
            r = random.Random(int(line.split()[2]))
            big = 2 ** r.choice([53, 54, 55])
            jobs = [[([r.randrange(2)], big * r.randint(0, 1) + 2 * r.randint(1, 50) + 1) for _ in range(r.randint(1, 2))]
                    for _ in range(r.randint(2, 3))]
            if not any(d >= 2 ** 53 for job in jobs for _, d in job):
                jobs[0][0] = (jobs[0][0][0], big + 1)
            opt = brute_force_optimum(jobs)
            inst = build_instance(jobs)
            try:
                sched = _ORToolsSolver().solve(inst)
            except _NoSolution:
                res.append(("no-solution", f"NoSolutionFoundError without a time limit (instance {jobs})"))
                return res
            except Exception as e:  # pylint: disable=broad-except
                res.append(("solve-raised", f"solve raised {e!r} (instance {jobs})"))
                return res
            # beyond 2**53 CP-SAT's objective bookkeeping (doubles) is no longer exact: the hard constraints are - only
            # feasibility, completeness and the integer lower bounds are judged (optimality and the reported objective
            # are not: a two-unit slack at 2**54 was observed on the UNCHANGED code and is OR-tools', not the wrapper's)
            res += self.check_schedule(inst, jobs, sched, exact_objective=False)
            if sched.makespan() < opt:
                res.append(("below-optimum", f"makespan {sched.makespan()} below the exhaustive optimum {opt} (instance {jobs})"))
        elif line.startswith("mark middur"):
            from impl_ext import _ORToolsSolver, _NoSolution
            r = random.Random(int(line.split()[2]))
            B = 2 ** r.choice([24, 24, 25, 31, 40])
            M = r.randint(2, 3)
            route = [r.randrange(M) for _ in range(r.randint(2, 3))]
            base = [B * r.randint(0, 1) + r.randint(0, 3) for _ in route]
            if not any(d >= B for d in base):
                base[0] += B
            jobs = []
            for _j in range(r.randint(2, 3)):
                # the same route with durations equal or one unit apart; sometimes another route
                rt = route if r.random() < 0.8 else [r.randrange(M) for _ in route]
                jobs.append([([m], max(0, d + r.choice([0, 0, 1, -1]))) for m, d in zip(rt, base)])
            opt = brute_force_optimum(jobs)
            inst = build_instance(jobs)
            try:
                sched = _ORToolsSolver().solve(inst)
            except _NoSolution:
                res.append(("no-solution", f"NoSolutionFoundError without a time limit (instance {jobs})"))
                return res
            except Exception as e:  # pylint: disable=broad-except
                res.append(("solve-raised", f"solve raised {e!r} (instance {jobs})"))
                return res
            res += self.check_schedule(inst, jobs, sched)
            if sched.metadata.get("status") == "optimal" and sched.makespan() != opt:
                res.append(("not-optimal", f"status optimal with makespan {sched.makespan()}, exhaustive search finds {opt} "
                            f"(instance {jobs})"))
        elif line.startswith("mark gcloop"):
            import gc
            from impl_ext import _ORToolsSolver, _NoSolution
            r = random.Random(int(line.split()[2]))
            J, M, P = r.randint(2, 3), r.randint(2, 3), r.randint(2, 3)
            durs = [r.randint(1, 7) for _ in range(J * P)]
            one_solver = _ORToolsSolver() if r.random() < 0.4 else None
            for it in range(10):
                r.shuffle(durs)             # same multiset of durations (same total), other operations / other routing
                jobs = [[([r.randrange(M)], durs[j * P + p]) for p in range(P)] for j in range(J)]
                inst = build_instance(jobs)
                try:
                    sched = (one_solver or _ORToolsSolver()).solve(inst)
                except _NoSolution:
                    res.append(("no-solution", f"NoSolutionFoundError without a time limit (loop iteration {it}, instance {jobs})"))
                    break
                except Exception as e:  # pylint: disable=broad-except
                    res.append(("solve-raised", f"solve raised {e!r} (loop iteration {it}, instance {jobs})"))
                    break
                if sched.instance is not inst:
                    res.append(("other-instance", f"loop iteration {it}: the returned schedule is not for the instance passed"))
                bad = self.check_schedule(inst, jobs, sched)
                res += [(k, f"loop iteration {it}: {msg}") for k, msg in bad]
                if bad:
                    break
                del inst, sched
                gc.collect()
        elif line.startswith("mark cpsatrange"):
            # total processing time of 2**61 and beyond: CP-SAT's 64-bit model cannot hold the horizon, the model is rejected as invalid
            # and solve() raises the no-solution error although no time limit is set (a recorded open finding)
            from impl_ext import _ORToolsSolver, _NoSolution
            half = 2 ** 60
            jobs = [[([0], half)], [([0], half)]]
            inst = build_instance(jobs)
            try:
                sched = _ORToolsSolver().solve(inst)
            except _NoSolution:
                res.append(("cpsat-int-range", f"NoSolutionFoundError without a time limit for the instance {jobs} (total processing time 2**61; "
                            "the optimum is 2**61, found at once by any dispatching rule)"))
            else:
                res += self.check_schedule(inst, jobs, sched, brute=False)
        elif line.startswith("mark degenerate"):
            # instances without any operation (no jobs, or only empty jobs) are instances too: the empty schedule, makespan 0, at once
            import jsl as _jsl
            from impl_ext import _ORToolsSolver, _NoSolution
            r = random.Random(int(line.split()[2]))
            shape = r.choice([[], [[]], [[], []], "mixed", "mixed", "mixed"])
            if shape == "mixed":
                # (empty jobs next to ordinary ones - the library's own RemoveMachines transformation produces such instances)
                _, jobs_m = gen.gen_instance(r, r.choice(["classic", "irregular", "recirc"]), max_jobs=3, max_machines=3, max_ops=3, max_dur=6)
                jobs_m.insert(r.randrange(len(jobs_m) + 1), [])
                inst_m = build_instance(jobs_m)
                try:
                    sched_m = _ORToolsSolver().solve(inst_m)
                except Exception as e:  # pylint: disable=broad-except
                    return [("solve-raised", f"solve raised {e!r} for an instance with an empty job: {jobs_m}")]
                return self.check_schedule(inst_m, jobs_m, sched_m)
            try:
                inst = _jsl.JobShopInstance([list(j) for j in shape], name="degenerate")
            except Exception:  # pylint: disable=broad-except
                return res          # (if the library does not accept such an instance there is nothing to solve)
            try:
                sched = _ORToolsSolver().solve(inst)
            except _NoSolution:
                res.append(("no-solution", f"NoSolutionFoundError without a time limit for the instance {shape} (no operations: the empty "
                            "schedule is optimal)"))
            except Exception as e:  # pylint: disable=broad-except
                res.append(("solve-raised", f"solve raised {e!r} for the instance {shape}"))
            else:
                if sum(len(ms) for ms in sched.schedule) != 0 or sched.makespan() != 0 or sched.metadata.get("makespan") != 0:
                    res.append(("reported-makespan", f"instance {shape}: schedule {sched.schedule}, makespan {sched.makespan()}, "
                                f"metadata {sched.metadata.get('makespan')}"))
        elif line.startswith("mark resolve"):
            # the same solver object solves the same instance object again after the caller has taken the first result apart
            # (reset it, or dispatched something else into it): the second answer is a schedule of its own - complete, feasible, optimal
            from impl_ext import _ORToolsSolver
            r = random.Random(int(line.split()[2]))
            _, jobs = gen.gen_instance(r, r.choice(["classic", "irregular", "recirc", "ties"]), max_jobs=3, max_machines=3, max_ops=3, max_dur=6)
            inst = build_instance(jobs)
            solver = _ORToolsSolver()
            if r.random() < 0.4:
                # the same solver object first FAILED on another instance (a time limit far too tight for ft10), then the caller lifts
                # the limit (a public attribute): what the failed attempt left behind is none of the next instance's business
                from job_shop_lib.benchmarking import load_benchmark_instance
                from impl_ext import _NoSolution
                solver = _ORToolsSolver(max_time_in_seconds=0.0005)
                try:
                    solver.solve(load_benchmark_instance("ft10"))
                except _NoSolution:
                    pass
                solver.max_time_in_seconds = None
            try:
                first = solver.solve(inst)
                dump1 = oracles.dump_schedule(first.schedule)
                if r.random() < 0.5:
                    first.reset()
                else:
                    first.schedule[0].clear()
                second = solver(inst) if r.random() < 0.5 else solver.solve(inst)
            except Exception as e:  # pylint: disable=broad-except
                res.append(("solve-raised", f"solving the same instance twice raised {e!r} (instance {jobs})"))
            else:
                if second is first:
                    res.append(("aliased", "the second solve of the same instance handed out the very Schedule object of the first one"))
                res += [(k, f"second solve of the same instance by the same solver: {msg}") for k, msg in self.check_schedule(inst, jobs, second)]
                third = solver.solve(inst)
                if oracles.dump_schedule(second.schedule) != oracles.dump_schedule(third.schedule) and second.makespan() != third.makespan():
                    res.append(("not-optimal", "two solves of one instance by one solver report different optimal makespans"))
                del dump1
        elif line.startswith("mark stalemeta"):
            # free-form metadata (also keys that look like bounds, as the benchmark instances carry them) is not part of
            # the problem: a small instance with made-up `lower_bound` / `upper_bound` / `optimum` entries
            from impl_ext import _ORToolsSolver, _NoSolution
            r = random.Random(int(line.split()[2]))
            _, jobs = gen.gen_instance(r, r.choice(["classic", "recirc", "irregular"]), max_jobs=3, max_machines=3, max_ops=3,
                                       max_dur=6)
            opt = brute_force_optimum(jobs)
            total = sum(d for job in jobs for _, d in job)
            meta = r.choice([{"lower_bound": opt + r.randint(1, 9)}, {"upper_bound": max(0, opt - r.randint(1, 3))},
                             {"lower_bound": total + 5, "upper_bound": total + 9}, {"optimum": opt + 3},
                             {"lower_bound": opt + 2, "upper_bound": opt + 2, "optimum": opt + 2},
                             # (notes of an earlier heuristic run that happen to use the solver's own metadata keys)
                             {"makespan": opt + r.randint(1, 9), "status": "feasible"},
                             {"makespan": total, "status": "optimal", "elapsed_time": 99.0, "solved_by": "SomeHeuristic"}])
            inst = jsl.JobShopInstance([[jsl.Operation(ms[0], d) for ms, d in job] for job in jobs], name="stale", **meta)
            try:
                sched = _ORToolsSolver().solve(inst)
            except _NoSolution:
                res.append(("no-solution", f"NoSolutionFoundError without a time limit (metadata {meta}, instance {jobs})"))
                return res
            except Exception as e:  # pylint: disable=broad-except
                res.append(("solve-raised", f"solve raised {e!r} (metadata {meta}, instance {jobs})"))
                return res
            res += self.check_schedule(inst, jobs, sched)
            if sched.metadata.get("status") == "optimal" and sched.makespan() != opt:
                res.append(("not-optimal", f"status optimal with makespan {sched.makespan()}, exhaustive search finds {opt} "
                            f"(metadata {meta}, instance {jobs})"))
        elif line.startswith("mark bigdur"):
            import random as _r
            from impl_ext import _ORToolsSolver
            r = _r.Random(int(line.split()[2]))
            J, M = 8, 5
            jobs = [[([m], r.choice([r.randint(1, 30), r.randint(50000, 100000), r.randint(50000, 100000)]))
                     for m in r.sample(range(M), M)] for _ in range(J)]
            inst = build_instance(jobs)
            sched = _ORToolsSolver().solve(inst)
            res += self.check_schedule(inst, jobs, sched, brute=False)
            ref = self.reference_optimum(jobs)
            if sched.metadata.get("status") == "optimal" and ref is not None and sched.makespan() != ref:
                res.append(("not-optimal", f"status optimal with makespan {sched.makespan()}, an independent CP-SAT model "
                            f"of the same instance proves {ref} (instance {jobs})"))
        elif line.startswith("mark benchmark"):
            from job_shop_lib.benchmarking import load_benchmark_instance
            from impl_ext import _ORToolsSolver
            name = line.split()[2]
            inst = load_benchmark_instance(name)
            solver = _ORToolsSolver(max_time_in_seconds=60)
            sched = solver.solve(inst)
            jobs = [[(list(op.machines), op.duration) for op in job] for job in inst.jobs]
            res += self.check_schedule(inst, jobs, sched, brute=False)
            opt = inst.metadata.get("optimum")
            lb, ub = inst.metadata.get("lower_bound"), inst.metadata.get("upper_bound")
            mk = sched.makespan()
            if sched.metadata["status"] == "optimal" and opt is not None and mk != opt:
                res.append(("benchmark-optimum", f"{name}: status optimal with makespan {mk}, recorded optimum {opt}"))
            if lb is not None and mk < lb:
                res.append(("benchmark-bound", f"{name}: makespan {mk} below the recorded lower bound {lb}"))
        return res

    @staticmethod
    def reference_optimum(jobs):
        """The optimum according to a CP-SAT model written here (not the library's), default solver parameters."""
        from ortools.sat.python import cp_model
        m = cp_model.CpModel()
        H = sum(d for job in jobs for _, d in job)
        by_m = {}
        ends = []
        for j, job in enumerate(jobs):
            prev = None
            for p, (ms, d) in enumerate(job):
                s = m.NewIntVar(0, H, f"s{j}_{p}")
                e = m.NewIntVar(0, H, f"e{j}_{p}")
                by_m.setdefault(ms[0], []).append(m.NewIntervalVar(s, d, e, f"i{j}_{p}"))
                if prev is not None:
                    m.Add(prev <= s)
                prev = e
                ends.append(e)
        for ivs in by_m.values():
            m.AddNoOverlap(ivs)
        mk = m.NewIntVar(0, H, "mk")
        m.AddMaxEquality(mk, ends)
        m.Minimize(mk)
        solver = cp_model.CpSolver()
        solver.parameters.max_time_in_seconds = 20
        st = solver.Solve(m)
        return int(solver.ObjectiveValue()) if st == cp_model.OPTIMAL else None

    def check_schedule(self, instance, jobs, sched, brute=True, exact_objective=True):
        res = []
        S = sched.schedule
        problems = oracles.feasible(instance, S)
        for p in problems[:3]:
            res.append(("infeasible", f"returned schedule is not feasible: {p}"))
        n_ops = sum(len(j) for j in jobs)
        if sum(len(ms) for ms in S) != n_ops or not sched.is_complete():
            res.append(("incomplete", f"{sum(len(ms) for ms in S)} of {n_ops} operations scheduled"))
        ends = [x.end_time for ms in S for x in ms]
        true_mk = max(ends) if ends else 0
        if exact_objective and (sched.metadata.get("makespan") != true_mk or sched.makespan() != true_mk):
            res.append(("reported-makespan", f"metadata makespan {sched.metadata.get('makespan')}, Schedule.makespan() "
                        f"{sched.makespan()}, latest end time {true_mk}"))
        lb_job = max(sum(d for _, d in job) for job in jobs)
        M = 1 + max(m for job in jobs for ms, _ in job for m in ms)
        lb_mach = max(sum(d for job in jobs for ms, d in job if ms[0] == m) for m in range(M))
        if true_mk < max(lb_job, lb_mach):
            res.append(("below-lower-bound", f"makespan {true_mk} below the job-length/machine-load bound {max(lb_job, lb_mach)}"))
        if sched.metadata.get("status") == "optimal" and exact_objective:
            if brute and n_ops <= 10:
                opt = brute_force_optimum(jobs)
                if true_mk != opt:
                    res.append(("not-optimal", f"status optimal with makespan {true_mk}, exhaustive search finds {opt} "
                                f"(instance {jobs})"))
            from job_shop_lib.dispatching.rules import DispatchingRuleSolver
            for rule in RULES[:4]:
                r = DispatchingRuleSolver(dispatching_rule=rule).solve(instance)
                if r.makespan() < true_mk:
                    res.append(("rule-beats-optimal", f"status optimal with makespan {true_mk} but rule {rule} reaches "
                                f"{r.makespan()}"))
        return res

"""C07 — ready-operation filters prune soundly and never deadlock."""
import random

import gen
import oracles
import slices
from framework import PropertyCheck, Scenario
from impl import instance_line, lst


def is_sublist(a, b):
    it = iter(b)
    return all(any(x == y for y in it) for x in a)


class Check(PropertyCheck):
    ID = "C07"
    LEAN_MODULE = "JobShopProofs.Properties.C07"
    THEOREMS = [
        "JS.C07_sublist", "JS.C07_sublist_single", "JS.C07_nonempty", "JS.C07_comp",
        "JS.C07_criterion_nonIdle", "JS.C07_criterion_nonImmediateOps", "JS.C07_criterion_nonImmediateMachines",
        "JS.C07_criterion_dominated", "JS.C07_criterion_dominated_zero", "JS.C07_progress",
    ]
    RULE = ("random instance (10 families) x random history; in every reachable state each of the 4 filters and random "
            "compositions (built through create_composite_operation_filter from callables, enum members or strings) are "
            "applied to the raw ready list and to random non-empty sub-lists of it, and Dispatcher.available_operations() "
            "is queried; results compared (as ordered id lists) with the Lean model and with the documented criterion "
            "recomputed from the schedule alone; oracle also checks sub-list and non-emptiness; non-trivial = >=3 accepted "
            "dispatches and >=1 filter application that removed an operation")
    ASSUMPTIONS = ["instances are valid"]
    QUICK_N = 250

    def make_impl(self, scenario):
        from impl_ext import ImplExt
        return ImplExt(scenario.meta.get("filter_style", "callable"))

    def generate(self, rng, n, tier):
        for _ in range(n):
            yield self.scenario(rng, tier)

    def scenario(self, rng: random.Random, tier) -> Scenario:
        family, jobs = gen.gen_instance(rng, max_jobs=5 if tier == "quick" else 6, max_machines=4)
        if rng.random() < 0.05:
            jobs, family = gen.make_huge(rng, jobs), family + "+huge"
        f = gen.gen_filter(rng)
        lines = ["new", instance_line(jobs), gen.filter_line(f)]
        tr = gen.Tracker(jobs)
        base = [0]
        for job in jobs:
            base.append(base[-1] + len(job))

        def probes():
            ready = [base[j] + p for j, p in tr.ready()]
            lines.append("q available")
            if not ready:
                lines.append("flt " + rng.choice(gen.FILTER_NAMES) + " ;")
                return
            for name in gen.FILTER_NAMES:
                lines.append(f"flt {name} ; " + " ".join(map(str, ready)))
            for _ in range(rng.randint(1, 3)):
                k = rng.randint(0, 3)
                fs = [rng.choice(gen.FILTER_NAMES) for _ in range(k)]
                sub = [i for i in ready if rng.random() < 0.7] or [rng.choice(ready)]
                lines.append("flt " + " ".join(fs) + " ; " + " ".join(map(str, sub)))
            if gen.is_flexible(jobs) or rng.random() < 0.2:
                # every order of three (and all four) DISTINCT built-in filters, on the full ready list: a composition is its members
                # applied one after the other, none of them can be left out because another one is there
                import itertools
                perms = list(itertools.permutations(gen.FILTER_NAMES, 3)) + list(itertools.permutations(gen.FILTER_NAMES, 4))
                for fs in rng.sample(perms, 4):
                    lines.append("flt " + " ".join(fs) + " ; " + " ".join(map(str, ready)))

        probes()
        n_acc = 0
        n_eps = rng.choice([1, 1, 2, 3])        # later episodes on the same dispatcher, in a different order
        for ep in range(n_eps):
            while not tr.done():
                j, p, m = gen.gen_valid_request(rng, tr, rng.choice(["uniform", "one_job_first", "last_job_first"]))
                tr.take(j)
                lines.append(f"disp {j} {p} {m}")
                n_acc += 1
                probes()
                if ep < n_eps - 1 and rng.random() < 0.1:
                    break
            if ep < n_eps - 1:
                lines.append("reset")
                tr.reset()
                probes()
        meta = {"family": family, "filter": "none" if f is None else "+".join(f) or "empty-composite",
                "flexible": gen.is_flexible(jobs), "zero_dur": gen.has_zero(jobs), "accepted": n_acc,
                "filter_style": rng.choice(["callable", "enum", "str", "lazy"])}
        return Scenario(lines, meta)

    def nontrivial(self, scenario, outs):
        removed = False
        for line, out in zip(scenario.lines, outs):
            if line.startswith("flt "):
                n_in = len(line.split(";")[1].split())
                n_out = len(out.strip("[] ").split())
                if n_out < n_in:
                    removed = True
        return scenario.meta.get("accepted", 0) >= 3 and removed

    def distribution(self, scenario, outs, counters):
        super().distribution(scenario, outs, counters)
        for line, out in zip(scenario.lines, outs):
            if line.startswith("flt "):
                fs = line.split(";")[0].split()[1:]
                n_in = len(line.split(";")[1].split())
                n_out = len(out.strip("[] ").split())
                key = "flt." + ("+".join(fs) if len(fs) <= 1 else f"composite{len(fs)}") + (".removed" if n_out < n_in else ".kept_all")
                counters[key] = counters.get(key, 0) + 1

    def oracle(self, impl, scenario, index, line, out, ctx):
        if line == "q available" and impl.dispatcher is not None and index % 7 == 0:
            # a composite filter that was used as the FIRST member of another composite is still the filter it was
            import jsl as _jsl
            d_ = impl.dispatcher
            ready_ = d_.raw_ready_operations()
            if ready_:
                inner = _jsl.create_composite_operation_filter([_jsl.filter_non_idle_machines])
                before_ = [o.operation_id for o in inner(d_, list(ready_))]
                _jsl.create_composite_operation_filter([inner, _jsl.filter_non_immediate_operations, _jsl.filter_dominated_operations])
                after_ = [o.operation_id for o in inner(d_, list(ready_))]
                alone_ = [o.operation_id for o in _jsl.filter_non_idle_machines(d_, list(ready_))]
                if not (before_ == after_ == alone_):
                    return [("composite-reused", f"a composite over [non_idle_machines] returned {before_}; after it was used as the first member "
                             f"of another composite it returns {after_}; the filter alone gives {alone_}")]
        res = []
        d = impl.dispatcher
        if line.startswith("flt "):
            ts = line.split()
            k = ts.index(";")
            fs, in_ids = ts[1:k], [int(t) for t in ts[k + 1:]]
            got = [int(t) for t in out.strip("[] ").split()]
            v = oracles.View(impl.instance, d.schedule.schedule)
            ops = [impl.op(i) for i in in_ids]
            want = [o.operation_id for o in v.apply(fs, ops)]
            name = "+".join(fs) or "identity"
            if not is_sublist(got, in_ids):
                res.append(("sublist", f"`{line}` -> {out}: not a sub-list of its input"))
            if in_ids and not got:
                res.append(("empty", f"`{line}` -> {out}: empty result for a non-empty input"))
            if got != want:
                res.append(("criterion:" + (fs[0] if len(fs) == 1 else "composite"),
                            f"`{line}` -> {out}; the documented criterion ({name}) gives {lst(want)}"))
        elif line == "q available":
            v = oracles.View(impl.instance, d.schedule.schedule)
            want = [o.operation_id for o in v.available(impl.filter_tokens)]
            got = [int(t) for t in out.strip("[] ").split()]
            if got != want:
                res.append(("available", f"available_operations() -> {out}; criterion gives {lst(want)}"))
            if not d.schedule.is_complete() and not got:
                res.append(("deadlock", "schedule incomplete but available_operations() is empty"))
            raw = {o.operation_id for o in v.raw_ready()}
            if any(i not in raw for i in got):
                res.append(("foreign", f"available_operations() -> {out} contains operations that are not ready"))
        return res

"""C18 — the environments honour the Gymnasium contract."""
import numpy as np

import random

import gen
from framework import PropertyCheck, Scenario
from impl import instance_line

BUILDERS = ["disjunctive", "agent_task", "agent_task_jobs", "complete_agent_task"]
SUPPORTED = {"is_ready": "omj", "earliest_start_time": "omj", "duration": "omj", "is_scheduled": "omj",
             "position_in_job": "o", "remaining_operations": "mj", "is_completed": "omj"}


def gen_feats(rng, exact_only=False):
    names = sorted(SUPPORTED)
    if exact_only:
        # features that hold times or durations are float32: differences of values beyond 2**24 are not exact, nothing to compare
        names = [k for k in names if k in ("is_ready", "is_scheduled", "position_in_job", "remaining_operations", "is_completed")]
    kinds = rng.sample(names, rng.randint(1, min(4, len(names))))
    out = []
    for k in kinds:
        sup = SUPPORTED[k]
        if rng.random() < 0.4:
            out.append(f"{k} -")
        else:
            n = rng.randint(1, len(sup))
            out.append(f"{k} {''.join(rng.sample(sup, n))}")
    return out


def env_head(rng, pad=None):
    b = rng.choice(BUILDERS)
    rm, rj = rng.choice([0, 1, 1]), rng.choice([0, 1, 1])
    rw = rng.choice(["makespan", "makespan", "idle"])
    if pad is None:
        pad = 1 if rng.random() < 0.85 else 0
    return f"{b} {rm} {rj} {rw} {pad}", {"builder": b, "rm": rm, "rj": rj, "reward": rw, "pad": pad}


class Check(PropertyCheck):
    ID = "C18"
    LEAN_MODULE = "JobShopProofs.Properties.C18All"
    THEOREMS = ["JS.C18_observation_in_space", "JS.C18_step_returns_observation", "JS.C18_legal_action_in_space",
                "JS.C18_done_truncated", "JS.C18_step_reward", "JS.C18_step_reward_reachable", "JS.C18_padObs", "JS.C18_multi_reset_config", "JS.C18_multi_instance_in_ranges", "JS.C18_multi_fits_classic", "JS.C18_multi_step_reward", "JS.C18_multi_legal_action_classic", "JS.C18_multi_refused_reset", "JS.C18_multi_refusal_raises", "JS.C18_multi_refused_reset_gen",
                "JS.Env.make_envOK", "JS.compositeCols_shape", "JS.residualUpdate_sizeLe"]
    RULE = ("random instances (10 families incl. flexible, zero durations, machine-id gaps) x filter x env configuration "
            "(4 graph builders, residual-updater options, reward, padding on/off, 1-4 feature observer configs with "
            "random feature types, given as enum / class / string configs): the real SingleJobShopGraphEnv is "
            "constructed, reset and stepped with legal decisions chosen by index among all legal decisions (both sides "
            "enumerate them from their own state), illegal decisions injected (finished job, ineligible machine, -1 on a "
            "flexible operation), second episode after reset; the declared spaces and every observation/reward/done/"
            "truncated/info are compared with the model; MultiJobShopGraphEnv over GeneralInstanceGenerator with the "
            "scripted draw stream shared with the model: spaces, instances, padded observations over several resets; "
            "oracle (independent of the model): gymnasium's own observation_space.contains / action_space.contains for "
            "every observation and every legal decision, padding only at the end with -1 / True, mask and edge list "
            "equal env.job_shop_graph, done = schedule.is_complete(), truncated False, multi-env episode config = "
            "constructor config and instance within the generator's ranges; non-trivial = >=2 accepted steps")
    ASSUMPTIONS = ["gymnasium's spaces implement `contains` as documented", "feature values are integer-valued float32",
                   "generator draws: randint(a,b)=a+d%(b-a+1), choice(seq)=seq[d%len(seq)]"]
    QUICK_N = 120

    def make_impl(self, scenario):
        from impl_ext import ImplEnv
        return ImplEnv(filter_style=scenario.meta.get("filter_style", "callable"))

    def generate(self, rng, n, tier):
        for i in range(n):
            if i % 10 == 4:
                yield self.pair_scenario(rng)
            elif i % 20 == 9:
                meta = {"kind": "single", "family": "custom_graph", "flexible": False, "steps": 0, "filter": "none",
                        "n_feats": 0, "filter_style": "callable", "builder": "custom", "rm": 1, "rj": 1, "reward": "makespan", "pad": 1}
                yield Scenario(["new", f"mark customgraph {rng.randint(0, 10**6)}"], meta)
            elif i % 3 == 2:
                yield self.multi_scenario(rng)
            else:
                yield self.single_scenario(rng)

    def pair_scenario(self, rng):
        """Two environments in one process with the SAME configuration on two different instances whose graphs have the same
        numbers of nodes and edges (a J x M instance and its M x J transpose; or the same operations regrouped into other jobs):
        each environment's spaces are its own."""
        head, meta = env_head(rng)
        feats = gen_feats(rng)
        if rng.random() < 0.5:
            J, M = rng.choice([(2, 3), (3, 2), (2, 4), (4, 2), (3, 4)])
            a = [[([(p + j) % M], rng.randint(1, 5)) for p in range(M)] for j in range(J)]
            b = [[([(p + j) % J], rng.randint(1, 5)) for p in range(J)] for j in range(M)]
        else:
            # 2 jobs of 3 operations vs 3 jobs of 4 + 1 + 1 operations on 4 machines: 6 operations, the same number of
            # same-job pairs (3*2 + 3*2 = 4*3)
            ops = [([rng.randrange(4)], rng.randint(1, 5)) for _ in range(6)]
            ops[0], ops[1], ops[2], ops[3] = ([0], ops[0][1]), ([1], ops[1][1]), ([2], ops[2][1]), ([3], ops[3][1])
            a = [ops[:3], ops[3:]]
            b = [ops[:4], ops[4:5], ops[5:]]
        if rng.random() < 0.5:
            a, b = b, a
        lines = ["new"]
        steps = 0
        for jobs in (a, b):
            lines += [instance_line(jobs), gen.filter_line(None), "env " + " ; ".join([head] + feats), "eobs"]
            for _ in range(rng.randint(1, gen.num_ops(jobs))):
                lines.append(f"eauto {rng.randint(0, 50)}")
                steps += 1
            lines.append("ereset")
        meta.update({"kind": "single", "family": "pair_same_size", "flexible": False, "steps": steps, "filter": "none",
                     "n_feats": len(feats), "filter_style": "callable"})
        return Scenario(lines, meta)

    def single_scenario(self, rng):
        family, jobs = gen.gen_instance(rng, None, max_jobs=4, max_machines=4, max_ops=3)
        if rng.random() < 0.12:
            # durations beyond the exact range of float32 (feature values are shown as `big` on both sides); most of the time a
            # necessarily sequential instance (one machine or one job): its makespan is the exact integer sum of all durations
            if rng.random() < 0.75:
                family, jobs = gen.gen_instance(rng, rng.choice(["single_machine", "single_job"]), max_jobs=4, max_machines=4, max_ops=3)
            B = rng.choice([2 ** 24, 20_000_001, 2 ** 25 + 1, 3 * 10 ** 7 + 1])
            jobs = [[(ms, d + B + rng.randint(0, 98)) for ms, d in job] for job in jobs]
            family += "+big"
        f = gen.gen_filter(rng)
        head, meta = env_head(rng)
        feats = gen_feats(rng, exact_only=family.endswith("+big"))
        lines = ["new", instance_line(jobs), gen.filter_line(f), "env " + " ; ".join([head] + feats), "eobs"]
        total = gen.num_ops(jobs)
        M = 1 + max(m for job in jobs for ms, _ in job for m in ms)
        episodes = rng.choice([1, 2, 2])
        steps = 0
        for ep in range(episodes):
            k = total if rng.random() < 0.7 else rng.randint(0, total)
            for _ in range(k):
                if rng.random() < 0.15:
                    bad = rng.choice([f"estep {rng.randrange(len(jobs))} {M + rng.randint(0, 2)}",
                                      f"estep {rng.randrange(len(jobs))} {rng.randrange(M)}",
                                      f"estep {rng.randrange(len(jobs))} -1",
                                      f"estep {len(jobs) + rng.randint(0, 1)} -1",
                                      f"estep {rng.randrange(len(jobs))} -2"])
                    lines += ["mark injected", bad, "eobs"]
                if rng.random() < 0.04:
                    # the episode goes on with a deep copy of the environment (the original is reset and stepped elsewhere)
                    lines += ["efork", "eobs"]
                lines.append(f"eauto {rng.randint(0, 50)}")
                steps += 1
            if rng.random() < 0.3:
                lines.append(f"estep {rng.randrange(len(jobs))} -1")     # probably a finished job
            if ep + 1 < episodes or rng.random() < 0.5:
                # (sometimes only the environment's DISPATCHER is reset - and the next step follows without an observation in between)
                lines.append("ereset" if rng.random() < 0.75 else "edreset")
        meta.update({"kind": "single", "family": family, "flexible": gen.is_flexible(jobs), "steps": steps,
                     "filter": "none" if f is None else "+".join(f) or "empty", "n_feats": len(feats),
                     "filter_style": rng.choice(["callable", "enum", "str"])})
        return Scenario(lines, meta)

    def multi_scenario(self, rng, inject=0.12):
        j1 = rng.randint(1, 3)
        j2 = j1 + rng.randint(0, 2)
        m1 = rng.randint(1, 3)
        m2 = m1 + rng.randint(0, 2)
        d1 = rng.randint(0, 3)
        d2 = d1 + rng.randint(0, 6)
        al = 1 if rng.random() < 0.7 else 0
        if rng.random() < 0.15:
            # a generator that must sometimes refuse: fewer jobs than machines are not allowed, and the job range starts below the machine range
            al, j1, m1 = 0, rng.randint(1, 2), rng.randint(3, 4)
            m2 = m1 + rng.randint(0, 1)
            j2 = m2 + rng.randint(0, 1)
        elif not al:
            if rng.random() < 0.6:
                j1 = max(j1, m1)      # (otherwise: a job count below the machine range can be drawn - the generator must refuse, not shrink the shop)
            j2 = max(j2, j1, m2)      # the max-size instance must exist
        rc = rng.choice([0, 0, 1])
        if rng.random() < 0.75:
            k1 = k2 = 1
        else:
            k1 = rng.randint(1, min(2, m1))
            k2 = rng.randint(max(k1, 2), max(2, min(3, m1))) if m1 >= 2 else 1
            if k2 > m1:
                k1 = k2 = 1
        head, meta = env_head(rng, pad=1 if rng.random() < 0.9 else 0)
        many_same = rng.random() < 0.2
        if many_same:
            # sizes whose graphs can have equal numbers of nodes for different (jobs, machines) splits, classic instances
            (j1, j2), (m1, m2) = rng.choice([((2, 3), (3, 4)), ((2, 4), (2, 4)), ((3, 4), (3, 4))])
            al, rc, k1, k2 = 1, 0, 1, 1
        feats = gen_feats(rng)
        draws = [rng.randint(0, 60) for _ in range(400)]
        f = gen.gen_filter(rng)
        params = " ".join(map(str, [j1, j2, m1, m2, d1, d2, al, rc, k1, k2]))
        lines = ["new", gen.filter_line(f), "menv " + " ; ".join([params, head] + feats + [" ".join(map(str, draws))])]
        steps = 0
        many = many_same or rng.random() < 0.25       # many short (abandoned) episodes: what one episode leaves behind must not show in the next
        may_refuse = bool(not al and j1 < m1)
        # (a refusing generator keeps the draws it consumed before refusing: model `GenFail.draws`, theorems of GenRefusal.lean - so later
        # episodes of such scenarios are compared too)
        for ep in range(rng.randint(2, 6) if may_refuse else rng.randint(5, 10) if many else rng.randint(1, 3)):
            if ep and rng.random() < 0.3:
                lines.append(f"mother {rng.randint(0, 99)}")
            lines.append("mreset")
            for _ in range(rng.randint(0, 3) if many and rng.random() < 0.7 else rng.randint(0, j2 * m2)):
                if rng.random() < inject:
                    # an illegal decision (unknown / finished job, ineligible machine, a machine id that exists only in the
                    # padded action space): must raise and change nothing
                    lines += ["mark injected", f"mbad {rng.randint(0, 200)} {m2 + 1}"]
                if rng.random() < 0.04:
                    lines.append("mfork")
                if rng.random() < 0.03:
                    lines.append(f"mother {rng.randint(0, 99)}")
                lines.append(f"mauto {rng.randint(0, 50)}")
                steps += 1
        meta.update({"kind": "multi", "steps": steps, "recirc": rc, "may_refuse": bool(not al and j1 < m1), "multi_machine": int(k2 > 1), "allow_less": al,
                     "params": [j1, j2, m1, m2, d1, d2, al, rc, k1, k2], "n_feats": len(feats),
                     "filter": "none" if f is None else "+".join(f) or "empty",
                     "filter_style": rng.choice(["callable", "enum", "str"])})
        return Scenario(lines, meta)

    def nontrivial(self, scenario, outs):
        return sum(1 for o in outs if " || r " in o) >= 2

    # ---------------------------------------------------------------- oracle on the real objects
    def check_obs(self, env, single, obs, padded, what):
        """obs: the dict returned by the real env; env: the env whose spaces are declared; single: the current single env"""
        res = []
        # "the current graph" is the one the subscribed graph updater maintains (the environment's own accessor may be a stale alias)
        g = single.graph_updater.job_shop_graph
        if padded and not env.observation_space.contains(obs):
            detail = []
            for k, sp in env.observation_space.spaces.items():
                if k not in obs:
                    detail.append(f"{k} missing")
                elif not sp.contains(obs[k]):
                    detail.append(f"{k}: shape {getattr(obs[k], 'shape', None)} dtype {getattr(obs[k], 'dtype', None)} "
                                  f"not in {sp}")
            extra = [k for k in obs if k not in env.observation_space.spaces]
            res.append(("obs-not-in-space", f"{what}: observation outside the declared observation space: "
                        f"{'; '.join(detail)} {('extra keys ' + str(extra)) if extra else ''}"))
        rm = [bool(b) for b in obs["removed_nodes"]]
        # the graph itself (networkx), not the bookkeeping list kept beside it
        real_rm = [node.node_id not in g.graph for node in g.nodes]
        if real_rm != [bool(b) for b in g.removed_nodes]:
            res.append(("mask", f"{what}: the graph's removed_nodes list {[bool(b) for b in g.removed_nodes]} disagrees with "
                        f"the nodes actually in the graph {real_rm}"))
        if rm[:len(real_rm)] != real_rm:
            res.append(("mask", f"{what}: removed_nodes {rm[:len(real_rm)]} differs from the graph's {real_rm}"))
        if any(not b for b in rm[len(real_rm):]):
            res.append(("mask-padding", f"{what}: removed_nodes padding is not True"))
        ei = obs["edge_index"]
        real_edges = [(int(u), int(v)) for u, v in g.graph.edges()]
        if ei.ndim == 2:
            cols = [(int(ei[0, k]), int(ei[1, k])) for k in range(ei.shape[1])]
        else:
            cols = [] if ei.size == 0 else None
        if cols is None or cols[:len(real_edges)] != real_edges:
            res.append(("edges", f"{what}: edge_index {cols[:len(real_edges) + 2] if cols else ei.shape} differs from the "
                        f"graph's edges {real_edges[:len(real_edges) + 2]} (first entries shown)"))
        elif any(c != (-1, -1) for c in cols[len(real_edges):]):
            res.append(("edge-padding", f"{what}: edge_index padding is not -1 at the end"))
        for key, arr in obs.items():
            if key in ("removed_nodes", "edge_index"):
                continue
            src = {ft.value: m for ft, m in single.composite_observer.features.items()}[key]
            r, c = src.shape
            if arr.shape[0] < r or arr.shape[1] < c or not np.array_equal(arr[:r, :c], src):
                res.append(("features", f"{what}: {key} matrix differs from the composite observer's"))
            elif not (np.all(arr[r:, :] == -1) and np.all(arr[:, c:] == -1)):
                res.append(("feature-padding", f"{what}: {key} padding is not -1 at the end"))
        return res

    def check_actions(self, impl, env, single, what):
        res = []
        for j, m in impl.legal_actions(single):
            if not env.action_space.contains(np.array([j, m])):
                key = "action-space"
                if env is not single and single.action_space.contains(np.array([j, m])) and any(
                        a > b for a, b in zip(single.action_space.nvec, env.action_space.nvec)) and self.known_trigger:
                    # the episode's own action space holds it; the multi env's, declared from the sample instance, is smaller
                    key = "multi-env-space-undersized"
                res.append((key, f"{what}: legal decision (job {j}, machine {m}) is not in {env.action_space}"
                            + (f" declared from the sample instance (episode: {single.action_space})" if key != "action-space" else "")))
                break
        return res

    def custom_graph_oracle(self, seed):
        """A graph handed to the environment by a custom initializer that already removed nodes (source and sink of the
        disjunctive graph): the mask mirrors the graph in every episode."""
        import jsl
        from job_shop_lib.graphs import build_disjunctive_graph
        from job_shop_lib.reinforcement_learning import SingleJobShopGraphEnv
        r = random.Random(seed)
        _, jobs = gen.gen_instance(r, r.choice(["classic", "irregular", "recirc"]), max_jobs=3, max_machines=3, max_ops=3)
        from impl import build_instance
        if seed % 2 == 1:
            # a graph assembled from the public building blocks with the machine (and job) nodes added in DECREASING id order - a legal
            # graph: every entity has its node, the look-ups by id must find them wherever they sit
            from job_shop_lib import graphs as G
            from job_shop_lib.graphs import _build_agent_task_graph as GB
            inst_ = build_instance(jobs)
            g = G.JobShopGraph(inst_)
            for m_ in reversed(range(inst_.num_machines)):
                g.add_node(G.Node(G.NodeType.MACHINE, machine_id=m_))
            with_jobs = r.random() < 0.5
            if with_jobs:
                for j_ in reversed(range(inst_.num_jobs)):
                    g.add_node(G.Node(G.NodeType.JOB, job_id=j_))
            G.add_operation_machine_edges(g)
            if with_jobs:
                GB.add_operation_job_edges(g)
            which = ("machine nodes in decreasing order",) + (("job nodes in decreasing order",) if with_jobs else ())
        else:
            g = build_disjunctive_graph(build_instance(jobs))
            which = r.choice([("SOURCE", "SINK"), ("SOURCE",), ("SINK",), ("SOURCE", "SINK")])
            for node in list(g.nodes):
                if node.node_type.name in which:
                    g.remove_node(node.node_id)
        res = []
        from job_shop_lib.dispatching import DispatcherObserverConfig
        from job_shop_lib.dispatching.feature_observers import FeatureObserverType
        env = SingleJobShopGraphEnv(g, feature_observer_configs=[DispatcherObserverConfig(FeatureObserverType.IS_READY, kwargs={})])
        for ep in range(3):
            obs, _ = env.reset()
            steps = 0
            while True:
                graph = env.job_shop_graph
                real = [node.node_id not in graph.graph for node in graph.nodes]
                if [bool(b) for b in obs["removed_nodes"]][:len(real)] != real:
                    res.append(("mask", f"custom graph without {'/'.join(which).lower()}, episode {ep + 1} after {steps} steps: removed_nodes "
                                f"{[int(b) for b in obs['removed_nodes']]} but the nodes absent from the graph are {[int(b) for b in real]}"))
                    return res
                if not env.observation_space.contains(obs):
                    bad = [k for k in obs if not env.observation_space[k].contains(obs[k])]
                    res.append(("obs-not-in-space", f"custom graph without {'/'.join(which).lower()}, episode {ep + 1} after {steps} steps: "
                                f"observation outside the declared space (keys {bad}; edge_index max "
                                f"{int(obs['edge_index'].max())}, declared {env.observation_space['edge_index']})"))
                    return res
                d = env.dispatcher
                ready = [j for j, job in enumerate(d.instance.jobs) if d.job_next_operation_index[j] < len(job)]
                if not ready or (ep < 2 and steps >= 2 and seed % 2 == 0):
                    break
                try:
                    obs, _, done, _, _ = env.step((r.choice(ready), -1))
                except Exception as e:  # pylint: disable=broad-except
                    res.append(("raise-on-legal", f"custom graph ({'/'.join(which).lower()}), episode {ep + 1} after {steps} steps: a legal "
                                f"step raised {type(e).__name__}: {str(e)[:80]}"))
                    return res
                steps += 1
        return res

    def oracle(self, impl, scenario, index, line, out, ctx):
        res = []
        if line.startswith("mark customgraph"):
            return self.custom_graph_oracle(int(line.split()[2]))
        cmd = line.split()[0]
        pad = scenario.meta["pad"] == 1
        # the known finding (spaces declared from one sample instance) needs recirculation or several machines per
        # operation: only then can an in-range instance be larger than the sample
        self.known_trigger = bool(scenario.meta.get("recirc") or scenario.meta.get("multi_machine"))
        if cmd in ("env", "menv"):
            if out == "raise":
                res.append(("construct", f"constructing the environment raised for a valid configuration: {line[:200]}"))
            return res
        if cmd in ("eobs", "ereset", "estep", "eauto"):
            env = single = impl.env
            if env is None:
                return res
        elif cmd == "mbad":
            if out.startswith("bad ") and not out.endswith("raise"):
                res.append(("not-rejected", f"`{line}`: the illegal decision {out.split()[1:3]} was accepted"))
            return res
        elif cmd in ("mreset", "mstep", "mauto"):
            env = impl.menv
            if env is None:
                return res
            single = env.single_job_shop_graph_env
        else:
            return res
        legal = cmd in ("eauto", "mauto") or cmd in ("eobs", "ereset", "mreset")
        if out.endswith("raise") or out == "raise":
            if cmd == "mreset" and scenario.meta.get("may_refuse"):
                # fewer jobs than the smallest shop were drawn and the generator may not go below the machine range: it refuses (the model
                # refuses at exactly the same draws - compared by the correspondence); nothing to judge
                return res
            if legal:
                key = "raise-on-legal"
                why = ""
                if cmd in ("mreset", "mauto", "mstep"):
                    # diagnose: is the new episode's graph larger than the spaces declared from the "maximum size" instance?
                    try:
                        sp = env.observation_space
                        ssp = single.observation_space      # the episode's own (initial-graph) sizes
                        n_nodes, n_edges = ssp["removed_nodes"].n, ssp["edge_index"].shape[1]
                        bigger = [k for k in ssp.spaces if k in sp.spaces and any(
                            a > b for a, b in zip(ssp[k].shape, sp[k].shape))]
                        if (n_nodes > sp["removed_nodes"].n or n_edges > sp["edge_index"].shape[1] or bigger) \
                                and self.known_trigger:
                            key = "multi-env-space-undersized"
                            why = (f": the episode needs {n_nodes} nodes / {n_edges} edges / "
                                   f"{ {k: ssp[k].shape for k in bigger} }, the spaces declared at construction from "
                                   f"the sample instance hold {sp['removed_nodes'].n} nodes / {sp['edge_index'].shape[1]} "
                                   f"edges / { {k: sp[k].shape for k in bigger} } "
                                   f"(generator {scenario.meta['params']}, builder {scenario.meta['builder']})")
                    except Exception:  # pylint: disable=broad-except
                        pass
                res.append((key, f"{line}: raised although the call is legal{why}"))
            return res
        if out in ("no-legal-action", "bad-op"):
            return res
        obs = impl.last_obs
        res += self.check_obs(env, single, obs, pad, line)
        res += self.check_actions(impl, env, single, line)
        if cmd in ("estep", "eauto", "mstep", "mauto"):
            _, reward, done, truncated, info = impl.last_step
            if bool(done) != single.dispatcher.schedule.is_complete():
                res.append(("done", f"{line}: done={done} but schedule complete={single.dispatcher.schedule.is_complete()}"))
            if truncated:
                res.append(("truncated", f"{line}: truncation signalled"))
        if cmd == "mreset":
            res += self.check_multi_config(impl, env, single, scenario)
            # the instance of the new episode lies inside the generator's ranges
            j1, j2, m1, m2, d1, d2, al = scenario.meta["params"][:7]
            inst = single.instance
            J, Ms = len(inst.jobs), sorted({len(job) for job in inst.jobs})
            if not j1 <= J <= j2 or len(Ms) != 1 or not m1 <= Ms[0] <= m2 or (not al and J < Ms[0]) or \
                    any(not d1 <= op.duration <= d2 for job in inst.jobs for op in job):
                res.append(("instance-out-of-range", f"{line}: the episode's instance has {J} jobs x {Ms} operations per job (durations "
                            f"{sorted({op.duration for job in inst.jobs for op in job})}), the generator's ranges are jobs {j1}..{j2}, "
                            f"machines {m1}..{m2}, durations {d1}..{d2}, fewer jobs than machines allowed: {bool(al)}"))
        return res

    def check_multi_config(self, impl, env, single, scenario):
        res = []
        kw = impl.menv_kwargs
        gu = single.graph_updater
        from impl_ext import ResidualGraphUpdater as _RGU
        want = kw.get("graph_updater_config")
        # (no updater configuration given: the library's default - a residual graph updater that removes completed machine and job nodes)
        want_cls = want.class_type if want is not None else _RGU
        want_kwargs = want.kwargs if want is not None else {"remove_completed_machine_nodes": True, "remove_completed_job_nodes": True}
        if type(gu) is not want_cls:
            res.append(("multi-config", f"episode graph updater {type(gu).__name__} is not the configured one"))
        else:
            for k, v in want_kwargs.items():
                if getattr(gu, k) != v:
                    res.append(("multi-config", f"episode graph updater has {k}={getattr(gu, k)}, constructed with {v}"))
        if type(single.reward_function) is not kw["reward_function_config"].class_type:
            res.append(("multi-config", f"episode reward function {type(single.reward_function).__name__} differs"))
        if single.use_padding != kw["use_padding"]:
            res.append(("multi-config", "episode use_padding differs from the constructor's"))
        if single.dispatcher.ready_operations_filter is not kw["ready_operations_filter"]:
            res.append(("multi-config", "episode ready_operations_filter differs from the constructor's"))
        from impl_ext import FKINDS, _fo
        got = [(type(o), [ft.value for ft in o.features]) for o in single.composite_observer.feature_observers]
        wantf = []
        for cfg in kw["feature_observer_configs"]:
            ct = cfg.class_type if hasattr(cfg, "class_type") else cfg
            k = getattr(cfg, "kwargs", {})
            cls = ct if isinstance(ct, type) else FKINDS[_fo.FeatureObserverType(ct).value]
            wantf.append((cls, [ft.value for ft in k["feature_types"]] if "feature_types" in k else None))
        if len(got) != len(wantf) or any(g[0] is not w[0] or (w[1] is not None and g[1] != w[1]) for g, w in zip(got, wantf)):
            res.append(("multi-config", f"episode feature observers {got} differ from the configured {wantf}"))
        j1, j2, m1, m2, d1, d2, al, rc, k1, k2 = scenario.meta["params"]
        import importlib
        c19 = importlib.import_module("C19").Check
        for key, msg in c19.shape(None, env.instance, j1, j2, m1, m2, d1, d2, al, rc, k1, k2):
            res.append(("multi-instance-" + key, msg))
        return res

"""C16 — graph encodings are faithful to the instance and the schedule."""
import itertools
import random

import gen
import oracles
import slices
from framework import PropertyCheck, Scenario
from impl import instance_line

BUILDERS = ["disjunctive", "agent_task", "agent_task_jobs", "complete_agent_task"]


def parse_graph(out):
    nodes = out.split(" | ")[0].split()[1:]
    edges = {}
    etoks = out.split(" | edges")[1].split()
    for tok in etoks:
        uv, t = tok.split(":")
        u, v = uv.split(">")
        edges[(int(u), int(v))] = t
    return nodes, edges


def spec_graph(jobs, builder):
    """Nodes and typed edges as the documentation prescribes, from the instance alone."""
    ops = [(j, p) for j, job in enumerate(jobs) for p in range(len(job))]
    oid = {r: i for i, r in enumerate(ops)}
    M = 1 + max(m for job in jobs for ms, _ in job for m in ms)
    J = len(jobs)
    nodes = [f"o{i}" for i in range(len(ops))]
    edges = {}
    by_machine = [[oid[(j, p)] for (j, p) in ops if m in jobs[j][p][0]] for m in range(M)]
    by_job = [[oid[(j, p)] for p in range(len(jobs[j]))] for j in range(J)]
    if builder == "disjunctive":
        nodes += ["S", "T"]
        S, T = len(ops), len(ops) + 1
        for l in by_machine:
            for a, b in itertools.combinations(l, 2):
                edges[(a, b)] = "d"
                edges[(b, a)] = "d"
        for l in by_job:
            for a, b in zip(l, l[1:]):
                edges[(a, b)] = "c"     # a same-machine consecutive pair is conjunctive forward, disjunctive backward
            edges[(S, l[0])] = "c"
            edges[(l[-1], T)] = "c"
        return nodes, edges
    nodes += [f"m{m}" for m in range(M)]
    mnode = {m: len(ops) + m for m in range(M)}
    for m in range(M):
        for o in by_machine[m]:
            edges[(mnode[m], o)] = "u"
            edges[(o, mnode[m])] = "u"
    if builder in ("agent_task", "agent_task_jobs"):
        for a, b in itertools.permutations(range(M), 2):
            edges[(mnode[a], mnode[b])] = "u"
    if builder == "agent_task":
        for l in by_job:
            for a, b in itertools.permutations(l, 2):
                edges[(a, b)] = "u"
        return nodes, edges
    nodes += [f"j{j}" for j in range(J)]
    jnode = {j: len(ops) + M + j for j in range(J)}
    for j in range(J):
        for o in by_job[j]:
            edges[(jnode[j], o)] = "u"
            edges[(o, jnode[j])] = "u"
    if builder == "agent_task_jobs":
        for a, b in itertools.permutations(range(J), 2):
            edges[(jnode[a], jnode[b])] = "u"
        return nodes, edges
    nodes += ["g"]
    g = len(ops) + M + J
    for m in range(M):
        edges[(g, mnode[m])] = "u"
        edges[(mnode[m], g)] = "u"
    for j in range(J):
        edges[(g, jnode[j])] = "u"
        edges[(jnode[j], g)] = "u"
    return nodes, edges


class Check(PropertyCheck):
    ID = "C16"
    LEAN_MODULE = "JobShopProofs.Properties.C16All"
    THEOREMS = ["JS.C16_nodes", "JS.C16_conjunctive_typed", "JS.C16_solved_acyclic", "JS.C16_path_le_makespan", "JS.C16_critical_path",
                "JS.C16_disjunctive_edges", "JS.C16_agentTask_edges", "JS.C16_agentTaskJobs_edges", "JS.C16_completeAgentTask_edges",
                "JS.C16_edges_nodup", "JS.C16_edge_type_unique",
                "JS.C16_solved_edges", "JS.C16_solved_nodes", "JS.C16_solved_no_loop", "JS.C16_solved_edges_nodup"]
    RULE = ("every instance family (irregular, recirculation, flexible, unused machine ids, zero durations) x the four "
            "graph builders: node list and typed edge list (in DiGraph iteration order) of the real graph compared with the "
            "Lean model and, as sets, with the edges the documentation prescribes recomputed from the instance; then a random "
            "complete dispatcher-built schedule: solved disjunctive graph compared with the model, and for positive durations "
            "networkx says it is a DAG whose longest duration-weighted path equals the makespan; all graphs built in the "
            "scenario (two instances of different size in 40% of them) are re-inspected after every build (a build must not change an earlier graph); non-trivial = instance "
            "with >=2 jobs and >=2 machines")
    ASSUMPTIONS = ["instances are valid with no empty job", "networkx DiGraph semantics (insertion order, attribute overwrite)"]
    QUICK_N = 150

    def make_impl(self, scenario):
        from impl_ext import ImplGraph
        return ImplGraph()

    def generate(self, rng, n, tier):
        for _i in range(n):
            if _i % 5 == 4:
                yield Scenario(["new", f"mark customfilter {rng.randint(0, 10**6)}"], {"family": "custom_filter", "jobs": 2})
                continue
            family, jobs = gen.gen_instance(rng, max_jobs=4, max_ops=4 if tier == "quick" else 5)
            # one scenario in five: instance transformations (which return new instances) were applied to the instance before its
            # graphs are built
            lines = ["new", instance_line(jobs)] + (["xform"] if rng.random() < 0.2 else []) + ["graph " + b for b in BUILDERS]
            if rng.random() < 0.3:
                # the schedule whose graph is built is not the dispatcher's first: an episode was abandoned before it
                lines += slices.abandoned_prelude(rng, jobs)
            tr = gen.Tracker(jobs)
            refusals = rng.random() < 0.35
            while not tr.done():
                if refusals and rng.random() < 0.3:
                    # (a refused request on the way - a machine the operation cannot run on, an operation whose turn has not come:
                    #  the schedule that is built in the end knows nothing of it)
                    bad = gen.gen_invalid_request(rng, tr, slices.num_machines_of(jobs))
                    if bad:
                        lines.append(f"disp {bad[0]} {bad[1]} {bad[2]}")
                j, p, m = gen.gen_valid_request(rng, tr)
                tr.take(j)
                lines.append(f"disp {j} {p} {m}")
            lines.append("solved")
            if rng.random() < 0.5:
                # a second, different complete schedule of the SAME instance object: its solved graph is its own
                lines.append("reset")
                if rng.random() < 0.4:
                    lines += slices.abandoned_prelude(rng, jobs)
                tr.reset()
                while not tr.done():
                    j, p, m = gen.gen_valid_request(rng, tr, rng.choice(["uniform", "last_job_first"]))
                    tr.take(j)
                    lines.append(f"disp {j} {p} {m}")
                lines.append("solved")
            if rng.random() < 0.4:
                # a second, differently sized instance in the same process: its graphs must not disturb the first one's
                _, jobs2 = gen.gen_instance(rng, max_jobs=3, max_ops=3)
                lines += [instance_line(jobs2)] + ["graph " + b for b in rng.sample(BUILDERS, 2)] + ["graph disjunctive"]
            yield Scenario(lines, {"family": family, "flexible": gen.is_flexible(jobs), "zero_dur": gen.has_zero(jobs),
                                   "jobs": len(jobs)})

    def nontrivial(self, scenario, outs):
        return scenario.meta.get("jobs", 0) >= 2

    def oracle(self, impl, scenario, index, line, out, ctx):
        res = []
        if line.startswith("mark customfilter"):
            import oracles
            return oracles.custom_filter_episode(int(line.split()[2]))["C16"]
        if line.startswith("graph "):
            b = line.split()[1]
            nodes, edges = parse_graph(out)
            wn, we = spec_graph(impl.jobs, b)
            if nodes != wn:
                res.append(("nodes:" + b, f"{b}: nodes {nodes}, expected {wn}"))
            if edges != we:
                extra = sorted(set(edges) - set(we))[:3]
                missing = sorted(set(we) - set(edges))[:3]
                wrong = sorted(k for k in edges if k in we and edges[k] != we[k])[:3]
                res.append(("edges:" + b, f"{b}: extra edges {extra}, missing {missing}, wrongly typed {wrong}"))
            g = impl.last_graph
            for i, node in enumerate(g.nodes):
                if node.node_id != i:
                    res.append(("node-ids", f"{b}: node at position {i} has id {node.node_id}"))
        if line.startswith("graph ") or line == "solved":
            from impl_ext import graph_lookup_problems
            for msg in graph_lookup_problems(impl.last_graph)[:2]:
                res.append(("lookup", f"`{line}`: {msg}"))
            from impl_ext import ImplGraph, fmt_graph, graph_integrity
            for g0, out0, integ0, what in ImplGraph.GRAPH_LOG[:-1]:
                if fmt_graph(g0) != out0 or graph_integrity(g0) != integ0:
                    res.append(("earlier-graph-changed", f"after `{line}`: a {what} graph built earlier in this process "
                                f"changed: was `{integ0[:160]}` now `{graph_integrity(g0)[:160]}`"))
                    break
        if line == "solved":
            # the solved graph's definition: job chains with source/sink (conjunctive), then one disjunctive edge per pair
            # of operations that are consecutive on a machine in the schedule (DiGraph: the later insertion decides the type)
            nodes, edges = parse_graph(out)
            jobs = impl.jobs
            ops = [(j, p) for j, job in enumerate(jobs) for p in range(len(job))]
            oid = {r: i for i, r in enumerate(ops)}
            S, T = len(ops), len(ops) + 1
            want = {}
            for j, job in enumerate(jobs):
                ids = [oid[(j, p)] for p in range(len(job))]
                for a, b in zip(ids, ids[1:]):
                    want[(a, b)] = "c"
                if ids:
                    want[(S, ids[0])] = "c"
                    want[(ids[-1], T)] = "c"
            for ms in impl.dispatcher.schedule.schedule:
                for x, y in zip(ms, ms[1:]):
                    want[(x.operation.operation_id, y.operation.operation_id)] = "d"
            if edges != want:
                extra = sorted(set(edges) - set(want))[:3]
                missing = sorted(set(want) - set(edges))[:3]
                wrong = sorted(k for k in edges if k in want and edges[k] != want[k])[:3]
                res.append(("edges:solved", f"solved graph: extra edges {extra}, missing {missing}, wrongly typed {wrong}"))
            import networkx as nx
            g = impl.last_graph
            sched = impl.dispatcher.schedule
            G = g.graph
            if not gen.has_zero(impl.jobs):
                if not nx.is_directed_acyclic_graph(G):
                    res.append(("solved-cycle", "solved disjunctive graph has a cycle"))
                else:
                    H = nx.DiGraph()
                    for u, v in G.edges():
                        nu = g.nodes[u]
                        w = nu.operation.duration if nu.node_type.name == "OPERATION" else 0
                        H.add_edge(u, v, w=w)
                    lp = nx.dag_longest_path_length(H, weight="w")
                    if lp != sched.makespan():
                        res.append(("longest-path", f"longest duration-weighted path {lp} != makespan {sched.makespan()}"))
                    # the same machine sequences handed to a Schedule through its public `schedule` setter (a schedule that no
                    # dispatcher built): its solved graph's longest path never exceeds ITS makespan, which is the latest end time
                    if sched.is_complete():
                        import jsl
                        from job_shop_lib.graphs import build_solved_disjunctive_graph
                        s2 = jsl.Schedule(impl.instance)
                        s2.schedule = [list(ms) for ms in sched.schedule]
                        want_mk = max((x.end_time for ms in s2.schedule for x in ms), default=0)
                        g2 = build_solved_disjunctive_graph(s2)
                        H2 = nx.DiGraph()
                        for u, v in g2.graph.edges():
                            nu = g2.nodes[u]
                            H2.add_edge(u, v, w=nu.operation.duration if nu.node_type.name == "OPERATION" else 0)
                        lp2 = nx.dag_longest_path_length(H2, weight="w") if nx.is_directed_acyclic_graph(H2) else -1
                        if s2.makespan() != want_mk or lp2 > s2.makespan():
                            res.append(("longest-path", f"a schedule given its machine sequences through the `schedule` setter: makespan() = "
                                        f"{s2.makespan()}, latest end time {want_mk}, longest path of its solved graph {lp2}"))
        return res

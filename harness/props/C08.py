"""C08 — pruning dominated operations never loses the optimum."""
import inspect
import random

import gen
import jsl
import oracles
import slices
from framework import PropertyCheck, Scenario
from impl import instance_line, lst, build_instance


def best_makespan(instance, flt, observers=()):
    """Exhaustive search over the REAL dispatcher's tree of (available operation, eligible machine) choices,
    memoised on the dispatcher state; returns the best complete makespan."""
    d = jsl.Dispatcher(instance, ready_operations_filter=flt)
    if observers:
        # the dispatcher as the environments set it up: feature observers subscribed, in the given order
        from job_shop_lib.dispatching.feature_observers import feature_observer_factory
        for name in observers:
            feature_observer_factory(name, dispatcher=d)
    memo = {}

    def rec(history):
        d.reset()
        for op, m in history:
            d.dispatch(op, m)
        if d.schedule.is_complete():
            return d.schedule.makespan()
        key = (tuple(d.job_next_operation_index), tuple(d.machine_next_available_time),
               tuple(d.job_next_available_time))
        if key in memo:
            return memo[key]
        choices = [(op, m) for op in list(d.available_operations()) for m in op.machines]
        best = float("inf")      # no available operation in an incomplete state: a dead end
        for op, m in choices:
            v = rec(history + [(op, m)])
            if v < best:
                best = v
        memo[key] = best
        return best

    return rec([])


class Check(PropertyCheck):
    ID = "C08"
    LEAN_MODULE = "JobShopProofs.EnvOptimum"
    THEOREMS = ["JS.C08_pruned_reaches", "JS.C08_pruned_reaches_concrete", "JS.C08_min_eq", "JS.nonDom_iff_filter",
                "JS.asgOf_feasible", "JS.C08_env_reaches", "JS.C08_env_reaches_done", "JS.C08_env_min_iff", "JS.C08_env_run_feasible"]
    RULE = ("(a) correspondence: positive-duration instances (flexible, recirculation, irregular), dispatcher with the "
            "dominated-operations filter installed, filter applied to the raw ready list in every state of a random "
            "history and available_operations() queried, compared with the Lean model whose filter the theorem is about "
            "and with the documented criterion; (b) defaults probe: both environments and DispatchingRuleSolver install "
            "the filter by default; (c) supporting search on the real code (no theorem rests on it): exhaustive memoised "
            "search of the available_operations() tree with and without the filter on small instances, optimum must "
            "coincide - one scenario in five after the filter worked on another (zero-duration) instance in the same process, one scenario in three with feature observers subscribed as the environments do; non-trivial = instance where the filter removed >=1 operation in some state")
    ASSUMPTIONS = ["instances are valid with positive durations (as the property states)"]
    QUICK_N = 160

    def make_impl(self, scenario):
        from impl_ext import ImplEnv
        return ImplEnv(filter_style=scenario.meta.get("filter_style", "callable"))

    def generate(self, rng, n, tier):
        yield Scenario(["new", "mark defaults"], {"kind": "defaults"})
        n_search = 45 if tier == "quick" else 300
        if getattr(self, "in_search", False):
            n_search = n        # failing-input search: every instance is small enough for the optimum search
        for i in range(n):
            yield self.scenario(rng, tier, search=i < n_search)

    def scenario(self, rng: random.Random, tier, search) -> Scenario:
        fam = rng.choice(["classic", "irregular", "recirc", "recirc", "flexible", "ties", "single_machine"])
        if search and rng.random() < (0.5 if getattr(self, "in_search", False) else 0.15):
            # contention: a flexible operation that is alone on its machines now, while the successors of other jobs'
            # short first operations need those machines soon
            M = 3
            flex_ms = rng.sample(range(M), 2)
            other = [m for m in range(M) if m not in flex_ms][0]
            jobs = [[(flex_ms, rng.randint(3, 6))]]
            for _ in range(2):
                job = [([other], rng.randint(1, 2))]
                for _k in range(rng.randint(1, 2)):
                    job.append(([rng.choice(flex_ms + [other])], rng.randint(1, 10)))
                jobs.append(job)
            rng.shuffle(jobs)
            family = "flex_contention"
        elif search and rng.random() < (0.4 if getattr(self, "in_search", False) else 0.08):
            # a flexible operation whose machines are all busy for a moment (another job's short first operations), whose
            # short successor competes with a long operation of a third job
            ms = list(range(4))
            rng.shuffle(ms)
            a1, a2, mb, mc = ms
            job_z = [([a1], rng.randint(1, 3)), ([a2], rng.randint(1, 4))]
            if rng.random() < 0.6:
                job_z.append(([rng.choice([a1, a2])], rng.randint(5, 20)))
            job_x = [([a1, a2] if rng.random() < 0.5 else [a2, a1], rng.randint(1, 4)), ([mb], rng.randint(1, 3)),
                     ([mc], rng.randint(5, 20))]
            jobs = [job_z, job_x, [([mb], rng.randint(5, 12))]]
            rng.shuffle(jobs)
            family = "flex_blocked"
        elif search and rng.random() < (0.3 if getattr(self, "in_search", False) else 0.06):
            # a short single-operation first job (finished early), a flexible first operation of the last job, the other
            # operations competing for two machines
            jobs = [[([rng.randrange(2)], rng.randint(1, 4))],
                    [([rng.randrange(4)], rng.randint(1, 6)), ([rng.randrange(2)], rng.randint(1, 3))],
                    [(rng.sample(range(4), 2), rng.randint(1, 6))] +
                    [([rng.randrange(2)], rng.randint(1, 4)) for _ in range(rng.randint(2, 3))]]
            family = "flex_finished_job"
        elif search and rng.random() < (0.4 if getattr(self, "in_search", False) else 0.12):
            # two machines, jobs of different lengths, small durations: last operations of short jobs compete with operations
            # that still have a chain behind them (which of them must go first differs from instance to instance)
            lens = [1, 2, 3]
            rng.shuffle(lens)
            jobs = [[([rng.randrange(2)], rng.randint(1, 4)) for _ in range(n)] for n in lens]
            family = "final_vs_chain"
        elif search:
            family, jobs = gen.gen_instance(rng, fam, max_jobs=3, max_machines=3, max_ops=3, max_dur=5)
            if gen.num_ops(jobs) > 7 and gen.is_flexible(jobs):
                jobs = [job[:2] for job in jobs]
        else:
            family, jobs = gen.gen_instance(rng, fam, max_jobs=5, max_machines=4, max_ops=4)
        if rng.random() < 0.08:
            # times beyond 2**53: the filter's comparisons are integer comparisons
            big = 2 ** rng.choice([53, 53, 60])
            jobs = [[(ms, d + (big if rng.random() < 0.5 else 0)) for ms, d in job] for job in jobs]
            family += "+huge"
        lines = ["new", instance_line(jobs), "filter comp dom"]
        observers = []
        if "huge" not in family and rng.random() < 0.3:
            # feature observers subscribed, as the environments do: they read the dispatcher from inside their callbacks
            observers = rng.sample(["is_ready", "earliest_start_time", "is_scheduled", "duration", "remaining_operations"],
                                   rng.randint(1, 3))
            lines += [f"fobs {k} -" for k in observers]
        if search:
            lines.append("mark search")
        tr = gen.Tracker(jobs)
        base = [0]
        for job in jobs:
            base.append(base[-1] + len(job))
        order = []
        while not tr.done():
            ready = [base[j] + p for j, p in tr.ready()]
            lines.append("flt dom ; " + " ".join(map(str, ready)))
            lines.append("q available")
            j, p, m = gen.gen_valid_request(rng, tr)
            tr.take(j)
            order.append((j, p))
            lines.append(f"disp {j} {p} {m}")
        if gen.is_flexible(jobs) and rng.random() < 0.6:
            # the same dispatcher again: the same operations in the same order, on OTHER eligible machines where there are any
            lines.append("reset")
            for j, p in order:
                lines.append("q available")
                lines.append(f"disp {j} {p} {rng.choice(jobs[j][p][0])}")
            lines.append("q available")
        if rng.random() < 0.2:
            # earlier in the same process: the filter at work on ANOTHER instance, one with zero-duration operations (outside the
            # property's precondition itself, but nothing of it may leak into the instance under test)
            _, zjobs = gen.gen_instance(rng, "zero", max_jobs=3, max_machines=4, max_ops=3)
            pre = ["new", instance_line(zjobs), "filter comp dom", "q available"]
            ztr = gen.Tracker(zjobs)
            for _ in range(rng.randint(0, gen.num_ops(zjobs) - 1)):
                j, p, m = gen.gen_valid_request(rng, ztr)
                ztr.take(j)
                pre += [f"disp {j} {p} {m}", "q available"]
            lines = pre + lines
            family += "+after_zero"
        meta = {"family": family, "flexible": gen.is_flexible(jobs), "search": search, "ops": gen.num_ops(jobs), "observers": observers,
                "filter_style": rng.choice(["callable", "enum", "str"])}
        return Scenario(lines, meta)

    def nontrivial(self, scenario, outs):
        for line, out in zip(scenario.lines, outs):
            if line.startswith("flt "):
                if len(out.strip("[] ").split()) < len(line.split(";")[1].split()):
                    return True
        return False

    def oracle(self, impl, scenario, index, line, out, ctx):
        res = []
        if line == "mark defaults":
            from job_shop_lib.reinforcement_learning import SingleJobShopGraphEnv, MultiJobShopGraphEnv
            from job_shop_lib.dispatching.rules import DispatchingRuleSolver
            for cls in (SingleJobShopGraphEnv, MultiJobShopGraphEnv):
                dflt = inspect.signature(cls.__init__).parameters["ready_operations_filter"].default
                if dflt is not jsl.filter_dominated_operations:
                    res.append(("defaults", f"{cls.__name__} no longer installs filter_dominated_operations by default"))
            dflt = inspect.signature(DispatchingRuleSolver.__init__).parameters["ready_operations_filter"].default
            if jsl.ReadyOperationsFilterType.DOMINATED_OPERATIONS not in tuple(dflt):
                res.append(("defaults", "DispatchingRuleSolver's default filter no longer contains dominated_operations"))
            return res
        # NB: a filter result that differs from the criterion is C07's business; for C08 it is a correspondence
        # break (the theorem is about the model's filter) that triggers the search below on more instances.
        if line == "mark search":
            inst = build_instance(impl.jobs)
            obs = tuple(scenario.meta.get("observers", ()))
            with_f = best_makespan(inst, jsl.filter_dominated_operations, obs)
            without = best_makespan(inst, None)
            ctx["searched"] = True
            if with_f != without:
                res.append(("optimum-lost", f"best makespan over the filtered tree is {with_f}, over the full tree "
                            f"{without} (instance {impl.jobs}" + (f", feature observers {list(obs)} subscribed)" if obs else ")")))
        return res

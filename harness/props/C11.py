"""C11 — incremental features equal a from-scratch recomputation."""
import random

import gen
import oracles
import slices
from framework import PropertyCheck, Scenario
from impl import instance_line

FEATURE_KINDS = ["is_ready", "earliest_start_time", "duration", "is_scheduled", "position_in_job",
                 "remaining_operations", "is_completed"]
SUPPORTED = {"position_in_job": "o", "remaining_operations": "mj"}
COLNAME = {"is_ready": "IsReady", "earliest_start_time": "EarliestStartTime", "duration": "Duration",
           "is_scheduled": "IsScheduled", "position_in_job": "PositionInJob",
           "remaining_operations": "RemainingOperations", "is_completed": "IsCompleted"}


def parse_fsnap(out):
    """-> {id: (kind, {ft: [columns]})}"""
    res = {}
    for part in out.split(" || ")[1:]:
        head, _, rest = part.partition(" ")
        rest = rest.split(" names ")[0]          # a composite's column names follow its columns
        i, _, kind = head.partition(":")
        cols = {}
        for tok in rest.split():
            if "=" in tok and tok[0] in "omj":
                ft, _, val = tok.partition("=")
                cols[ft] = [[(None if v == "big" else float(v)) for v in c.split(",")] if c else [] for c in val.split(";")]
        res[int(i)] = (kind, cols)
    return res


class Check(PropertyCheck):
    ID = "C11"
    LEAN_MODULE = "JobShopProofs.Properties.C11All"
    THEOREMS = ["JS.C11_isReady", "JS.durationInit_jobs", "JS.durationUpdate_jobs", "JS.C11_duration_jobs",
                "JS.C11_remaining_jobs", "JS.C11_isScheduled_ops", "JS.C11_constructible", "JS.C11_composite", "JS.C11_composite_names", "JS.C11_duration_ops_stale",
                "JS.finv_run", "JS.C11_world", "JS.C11_world_isReady", "JS.C11_world_est_ops", "JS.C11_world_est_machines", "JS.C11_world_est_jobs",
                "JS.C11_world_duration_ops", "JS.C11_world_duration_jobs", "JS.C11_world_duration_machines", "JS.C11_world_isScheduled_ops",
                "JS.C11_world_isScheduled_machines", "JS.C11_world_isScheduled_jobs", "JS.C11_world_position", "JS.C11_world_remaining_jobs",
                "JS.C11_world_remaining_machines", "JS.C11_world_completed_ops", "JS.C11_world_completed_jobs", "JS.C11_world_completed_machines",
                "JS.C11_world_unscheduled", "JS.C11_est_is_earliest", "JS.C11_est_next_attained", "JS.C11_world_composite", "JS.C11_attach_leaves_others", "JS.C11_attach_frame", "JS.C11_world_attach"]
    RULE = ("random instance (all families; machine-level count features only checked on non-flexible ones; with a filter "
            "installed only positive durations, as the property states) x random subset and order of the seven feature "
            "observers, each with a random subset of its feature types, plus a composite over them, all created on the "
            "fresh dispatcher; random valid history; after every dispatch the full arrays of every observer (helpers "
            "included) are compared with the Lean model and, on the claimed domain (entities with work left), with a "
            "from-scratch recomputation from dispatcher.schedule.schedule; constructor probe of all seven observers on "
            "every instance; composite compared with the concatenation of its parts; non-trivial = >=3 accepted "
            "dispatches with >=3 feature observers")
    ASSUMPTIONS = ["instances are valid; feature values are exact integers in float32 (sum of durations < 2^24)",
                   "observers are created on the fresh dispatcher and stay subscribed"]
    QUICK_N = 200

    def make_impl(self, scenario):
        from impl_ext import ImplGraph
        return ImplGraph(scenario.meta.get("filter_style", "callable"))

    def generate(self, rng, n, tier):
        for _i in range(n):
            if _i == 2:
                yield Scenario(["new", f"mark float32 {rng.randint(0, 10**6)}"], {"family": "float32", "accepted": 3, "observers": 3})
                continue
            if _i % 15 == 8:
                yield Scenario(["new", f"mark customfilter {rng.randint(0, 10**6)}"], {"family": "custom_filter", "accepted": 3, "observers": 3})
                continue
            yield self.scenario(rng, tier)

    def scenario(self, rng: random.Random, tier) -> Scenario:
        family, jobs = gen.gen_instance(rng, max_jobs=4, max_ops=3 if tier == "quick" else 4)
        f = gen.gen_filter(rng)
        if gen.has_zero(jobs):
            f = None
        long_times = rng.random() < 0.08
        if long_times:
            # absolute times beyond 2**24 while the features (relative to the current time) stay small: every job
            # starts with an operation of exactly 2**24 ticks
            jobs = [[(job[0][0], 2 ** 24)] + [(ms, max(d, 1)) for ms, d in job[1:]] for job in jobs]
            family += "+long"
            f = None
        lines = ["new", instance_line(jobs), gen.filter_line(f), "mark probe"]
        kinds = rng.sample(FEATURE_KINDS, rng.randint(2, 7))
        if long_times:
            kinds = [k for k in kinds if k != "duration"] or ["earliest_start_time"]
            if "earliest_start_time" not in kinds:
                kinds.append("earliest_start_time")
        ids = []
        nid = 0
        have = {}
        for k in kinds:
            sup = SUPPORTED.get(k, "omj")
            if rng.random() < 0.5:
                fts = "-"
            else:
                fts = "".join(rng.sample(sup, rng.randint(1, len(sup))))
            if rng.random() < 0.06:
                # a constructor that refuses its arguments (a feature type the observer does not support) is tried first: the caller
                # catches the error and goes on - nobody was subscribed, the observers built afterwards work as ever
                lines.append(rng.choice(["fobs remaining_operations o", "fobs position_in_job m", "fobs position_in_job j",
                                         "fobs remaining_operations oj"]))
            lines.append(f"fobs {k} {fts}")
            have[k] = fts
        lines.append("fcomp all")
        if rng.random() < 0.4:
            lines.append("fcomp all")          # a composite that contains the first composite (a multi-column component)
        lines.append("fsnap")
        lines.append("fspec")
        setup = [l for l in lines if l.startswith(("fobs", "fcomp"))]
        tr = gen.Tracker(jobs)
        n_acc = 0
        resets_left = rng.choice([0, 0, 1, 2])      # truncated episodes: reset while operations are still running
        # the observer-based rule reads the observers (it must only READ); asked only when the two observers it looks up
        # (Duration and IsReady with job features) are among the subscribed ones, so that it creates none of its own
        ask_rule = (rng.random() < 0.6 and not long_times and all(k in have and (have[k] == "-" or "j" in have[k])
                                                                 for k in ("duration", "is_ready")))
        while not tr.done():
            if ask_rule and rng.random() < 0.7:
                lines.append("rule " + rng.choice(["omwkr", "omwkr", "omwkr", "mwkr"]))
            j, p, m = gen.gen_valid_request(rng, tr)
            tr.take(j)
            n_acc += 1
            lines += [f"disp {j} {p} {m}", "fsnap", "fspec"]
            if rng.random() < 0.07 and not long_times:
                # an observer (or a residual graph updater) is attached in the middle of the episode: those that share helper
                # observers with the ones already there must leave them as they are
                lines += [rng.choice(["fobs is_completed -", "fobs is_completed mj", "fobs remaining_operations -",
                                      "fobs position_in_job -", "fobs is_scheduled -", "fobs is_ready -", "fobs position_in_job -",
                                      f"fres {rng.choice(['agent_task', 'complete_agent_task', 'disjunctive'])} 1 1",
                                      "fobs unscheduled -"]), "fsnap", "fspec"]
            if rng.random() < 0.04:
                # the user unsubscribes one observer (never one that another observer uses as its helper): the others go on
                # (and never one the observer-based rule looks up, when that rule is among the readers)
                pool = ["earliest_start_time", "is_scheduled", "position_in_job"] + ([] if ask_rule else ["is_ready", "duration"])
                lines += ["funsubk " + rng.choice(pool), "fsnap"]
            if rng.random() < 0.05 and not ask_rule:
                # (not when the observer-based rule is among the readers: its scorer keeps per-dispatcher state and would - rightly -
                # treat the copy as a new dispatcher, which the model's `fork` = nothing does not describe)
                # the episode goes on with a copy of the dispatcher and its observers (the original lives on and does something else)
                lines += [rng.choice(["fork", "fork pickle"]), "fsnap", "fspec"]
            if resets_left and rng.random() < 0.15:
                resets_left -= 1
                lines += ["reset", "fsnap", "fspec"]
                tr.reset()
        if rng.random() < 0.3:
            # a second dispatcher with its own observers on the SAME instance object: nothing may leak through the instance
            lines += ["redisp"] + setup + ["fsnap"]
            tr.reset()
            while not tr.done():
                j, p, m = gen.gen_valid_request(rng, tr)
                tr.take(j)
                lines += [f"disp {j} {p} {m}", "fsnap"]
        meta = {"family": family, "filter": "none" if f is None else "+".join(f) or "empty-composite",
                "flexible": gen.is_flexible(jobs), "zero_dur": gen.has_zero(jobs), "accepted": n_acc,
                "observers": len(kinds), "filter_style": rng.choice(["callable", "enum", "str"])}
        return Scenario(lines, meta)

    def float32_oracle(self, seed):
        """Durations beyond 2**24 (feature matrices are float32): a machine's (job's) remaining work is kept by subtracting each
        dispatched duration from a sum that was rounded when it was formed, so after a large operation has been dispatched the small
        remainder is off (catastrophic cancellation) - while a recomputation from the unscheduled operations is exact."""
        import jsl
        from impl import build_instance
        from job_shop_lib.dispatching.feature_observers import DurationObserver, FeatureType
        r = random.Random(seed)
        big = 2 ** r.choice([25, 26]) + 2
        jobs = [[([1], 2), ([1], 5)], [([1], big), ([0], 2)]]
        inst = build_instance(jobs)
        d = jsl.Dispatcher(inst)
        obs = DurationObserver(d)
        res = []
        d.dispatch(inst.jobs[1][0], 1)          # the large operation: machine 1 keeps 2 + 5 = 7 units of unscheduled work
        got = float(obs.features[FeatureType.MACHINES][1][0])
        if got != 7.0:
            res.append(("duration-float32-cancellation", f"instance {jobs}: after the operation of duration {big} was dispatched the "
                        f"DurationObserver reports {got} units of unscheduled work on machine 1, a recomputation from the unscheduled "
                        f"operations gives 7"))
        return res

    def nontrivial(self, scenario, outs):
        return scenario.meta.get("accepted", 0) >= 3 and scenario.meta.get("observers", 0) >= 3

    def oracle(self, impl, scenario, index, line, out, ctx):
        res = []
        if line.startswith("mark float32"):
            return self.float32_oracle(int(line.split()[2]))
        if line.startswith("mark customfilter"):
            return oracles.custom_filter_episode(int(line.split()[2]))["C11"]
        if line == "mark probe":
            import jsl
            from impl_ext import FKINDS
            for k in FEATURE_KINDS:
                try:
                    FKINDS[k](jsl.Dispatcher(impl.instance))
                except Exception as e:  # pylint: disable=broad-except
                    res.append(("constructor", f"{k} observer cannot be constructed: {type(e).__name__}: {e}"))
            return res
        # observers attached in the MIDDLE of an episode start from what they can see then (the library does not back-fill them with the
        # history): their own values are judged from the next reset on; the observers that were there before are judged throughout
        if line.startswith(("inst", "redisp")) or line == "reset":
            ctx["late_from"], ctx["dispatched"] = None, 0
        elif line.startswith("disp"):
            ctx["dispatched"] = ctx.get("dispatched", 0) + 1
        elif line.startswith(("fobs", "fres", "fcomp", "rule", "scores")) and ctx.get("dispatched", 0) > 0 and ctx.get("late_from") is None:
            ctx["late_from"] = ctx.get("heap_size", 0)
        if line != "fsnap":
            return res
        if index % 4 == 0:
            # the other views of the same numbers: data frames of a composite (its matrices under its column names), the declared
            # dimensions and sizes of every feature observer, and the printable form
            import numpy as np
            from job_shop_lib.dispatching.feature_observers import FeatureObserver, CompositeFeatureObserver
            for k, o in enumerate(impl.fheap):
                if not isinstance(o, FeatureObserver):
                    continue
                try:
                    for t, arr in o.features.items():
                        # (`feature_sizes` is left alone: a composite reports the class default 1 whatever it concatenates - an
                        #  attribute no property speaks of)
                        if tuple(o.feature_dimensions[t]) != tuple(arr.shape):
                            res.append(("views", f"observer {k}: feature_dimensions of {t.value} says {o.feature_dimensions[t]}, "
                                        f"the matrix is {arr.shape}"))
                    if isinstance(o, CompositeFeatureObserver):
                        for t, df in o.features_as_dataframe.items():
                            if list(df.columns) != list(o.column_names[t]) or not np.array_equal(df.to_numpy(), o.features[t]):
                                res.append(("views", f"composite {k}: the data frame of {t.value} is not its matrix under its column names"))
                    str(o)
                except Exception as e:  # pylint: disable=broad-except
                    res.append(("views", f"observer {k}: a view of the features raised {type(e).__name__}: {e}"))
        d = impl.dispatcher
        I = impl.instance
        v = oracles.View(I, d.schedule.schedule)
        ft = impl.filter_tokens
        flexible = gen.is_flexible(impl.jobs)
        now = v.now(ft)
        avail = v.available(ft)
        ongoing = {x.operation.operation_id: x for x in v.ongoing(ft)}
        unsched = v.unscheduled()
        un_ids = {o.operation_id for o in unsched}
        ops = [op for job in I.jobs for op in job]
        M = I.num_machines
        # earliest start per spec
        est = {}
        for j, job in enumerate(I.jobs):
            prev = v.job_ready[j]
            for p in range(v.next_pos[j], len(job)):
                op = job[p]
                s = max(prev, min(v.mach_free[m] for m in op.machines))
                est[op.operation_id] = s
                prev = s + op.duration
        snap = parse_fsnap(out)
        # observers the user unsubscribed are no longer notified: their (frozen) arrays are not statements about the current state
        subscribed = {int(t) for t in out.split(" || ")[0].split()[1:]}
        snap = {oid: v for oid, v in snap.items() if oid in subscribed}
        ctx["heap_size"] = len(impl.fheap)
        if ctx.get("late_from") is not None:
            snap = {oid: v for oid, v in snap.items() if oid < ctx["late_from"]}

        def bad(kind, what, i, got, want):
            if got is None or abs(want) >= 2 ** 24:
                return          # float32 features are not exact from 2**24 on: outside the comparison
            site = f"{kind}:{what}"
            res.append((site, f"after `{scenario.lines[index - 1]}`: {kind} feature {what}[{i}] = {got}, recomputation "
                        f"from the schedule gives {want}"))

        for oid, (kind, cols) in snap.items():
            col = {k: (c[0] if c else []) for k, c in cols.items()}
            if kind == "is_ready":
                if "o" in col:
                    a = {o.operation_id for o in avail}
                    for i, val in enumerate(col["o"]):
                        if val != (1 if i in a else 0):
                            bad(kind, "operations", i, val, int(i in a))
                if "m" in col:
                    a = {m for o in avail for m in o.machines}
                    for i, val in enumerate(col["m"]):
                        if val != (1 if i in a else 0):
                            bad(kind, "machines", i, val, int(i in a))
                if "j" in col:
                    a = {o.job_id for o in avail}
                    for i, val in enumerate(col["j"]):
                        if val != (1 if i in a else 0):
                            bad(kind, "jobs", i, val, int(i in a))
            elif kind == "earliest_start_time":
                if "o" in col:
                    for i in un_ids:
                        if col["o"][i] != est[i] - now:
                            bad(kind, "operations", i, col["o"][i], est[i] - now)
                if "m" in col:
                    for m in range(M):
                        cand = [est[o.operation_id] for o in unsched if m in o.machines]
                        if cand and col["m"][m] != min(cand) - now:
                            bad(kind, "machines", m, col["m"][m], min(cand) - now)
                if "j" in col:
                    for j, job in enumerate(I.jobs):
                        if v.next_pos[j] < len(job):
                            want = est[job[v.next_pos[j]].operation_id] - now
                            if col["j"][j] != want:
                                bad(kind, "jobs", j, col["j"][j], want)
            elif kind == "duration":
                if "o" in col:
                    for op in ops:
                        i = op.operation_id
                        if i in un_ids:
                            if col["o"][i] != op.duration:
                                bad(kind, "operations", i, col["o"][i], op.duration)
                        elif i in ongoing:
                            x = ongoing[i]
                            want = x.end_time - max(x.start_time, now)
                            if col["o"][i] != want:
                                res.append(("duration-ongoing-stale",
                                            f"DurationObserver operations[{i}] = {col['o'][i]} for a running operation whose "
                                            f"remaining duration is {want} (not refreshed after its own dispatch)"))
                if "m" in col and not flexible:
                    for m in range(M):
                        want = sum(o.duration for o in unsched if m in o.machines)
                        if col["m"][m] != want:
                            bad(kind, "machines", m, col["m"][m], want)
                if "j" in col:
                    for j in range(len(I.jobs)):
                        want = sum(o.duration for o in unsched if o.job_id == j)
                        if col["j"][j] != want:
                            bad(kind, "jobs", j, col["j"][j], want)
            elif kind == "is_scheduled":
                if "o" in col:
                    for op in ops:
                        want = 0 if op.operation_id in un_ids else 1
                        if col["o"][op.operation_id] != want:
                            bad(kind, "operations", op.operation_id, col["o"][op.operation_id], want)
                if "m" in col and ctx.get("dispatched"):
                    for m in range(M):
                        want = sum(1 for x in ongoing.values() if x.machine_id == m)
                        if col["m"][m] != want:
                            bad(kind, "machines", m, col["m"][m], want)
                if "j" in col and ctx.get("dispatched"):
                    for j in range(len(I.jobs)):
                        want = sum(1 for x in ongoing.values() if x.operation.job_id == j)
                        if col["j"][j] != want:
                            bad(kind, "jobs", j, col["j"][j], want)
            elif kind == "position_in_job":
                if "o" in col:
                    for o in unsched:
                        want = o.position_in_job - v.next_pos[o.job_id]
                        if col["o"][o.operation_id] != want:
                            bad(kind, "operations", o.operation_id, col["o"][o.operation_id], want)
            elif kind == "remaining_operations":
                if "j" in col:
                    for j in range(len(I.jobs)):
                        want = sum(1 for o in unsched if o.job_id == j)
                        if col["j"][j] != want:
                            bad(kind, "jobs", j, col["j"][j], want)
                if "m" in col and not flexible:
                    for m in range(M):
                        want = sum(1 for o in unsched if m in o.machines)
                        if col["m"][m] != want:
                            bad(kind, "machines", m, col["m"][m], want)
            elif kind == "is_completed":
                sched_ids = set(v.sop)
                completed = {i for i in sched_ids if i not in ongoing}
                if "o" in col:
                    for op in ops:
                        want = 1 if op.operation_id in completed else 0
                        if col["o"][op.operation_id] != want:
                            bad(kind, "operations", op.operation_id, col["o"][op.operation_id], want)
                if "j" in col:
                    for j, job in enumerate(I.jobs):
                        if any(o.operation_id in un_ids for o in job):
                            want = 0
                        elif all(o.operation_id in completed for o in job):
                            want = 1
                        else:
                            continue
                        if col["j"][j] != want:
                            bad(kind, "jobs", j, col["j"][j], want)
                if "m" in col:
                    for m in range(M):
                        mine = [o for o in ops if m in o.machines]
                        if any(o.operation_id in un_ids for o in mine):
                            want = 0
                        elif all(o.operation_id in completed for o in mine) and mine:
                            want = 1
                        else:
                            continue
                        if col["m"][m] != want:
                            bad(kind, "machines", m, col["m"][m], want)
            elif kind.startswith("composite"):
                comp = impl.fheap[oid]
                import numpy as np
                for ftype, arr in comp.features.items():
                    parts = [p.features[ftype] for p in comp.feature_observers if ftype in p.features]
                    want = np.concatenate(parts, axis=1)
                    if arr.shape != want.shape or not np.array_equal(arr, want):
                        res.append(("composite", f"composite features[{ftype.value}] differ from the column-wise "
                                    f"concatenation of its components"))
                    names = []
                    for p in comp.feature_observers:
                        if ftype not in p.features:
                            continue
                        base = type(p).__name__.replace("Observer", "")
                        k = p.features[ftype].shape[1]
                        names += [f"{base}_{i}" for i in range(k)] if k > 1 else [base]
                    if list(comp.column_names[ftype]) != names:
                        res.append(("composite-names", f"column names {comp.column_names[ftype]} != {names}"))
                    if len(comp.column_names[ftype]) != arr.shape[1]:
                        res.append(("composite-names", f"{len(comp.column_names[ftype])} column names for "
                                    f"{arr.shape[1]} columns of {ftype.value}"))
                try:
                    comp.features_as_dataframe
                except Exception as e:  # pylint: disable=broad-except
                    res.append(("composite-names", f"features_as_dataframe raised {type(e).__name__}: {e}"))
        ctx["dispatched"] = True
        return res

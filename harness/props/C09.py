"""C09 — rejected requests change nothing."""
import random

import gen
import oracles
import slices
from framework import PropertyCheck, Scenario
from impl import instance_line

KINDS = ["history", "unscheduled", "makespan_reward", "idle_reward", "recorder"]


class Check(PropertyCheck):
    ID = "C09"
    LEAN_MODULE = "JobShopProofs.EnvRejected"
    THEOREMS = ["JS.C09_dispatch_atomic", "JS.C09_staged_eq", "JS.C09_rejected_unchanged", "JS.C09_as_if_never",
                "JS.C09_rejects", "JS.C09_env_illegal_rejected", "JS.C09_multi_illegal_rejected", "JS.C09_env_as_if_never",
                "JS.C09_multi_as_if_never", "JS.C09_env_legal_dispatches", "JS.C09_env_raises_iff_illegal"]
    RULE = ("random instance x filter x random history with the full observer set (history, unscheduled, both rewards, a "
            "recorder) attached; invalid requests of 6 kinds (not the next operation, already scheduled, ineligible "
            "machine, out-of-range machine, negative machine, None on a flexible operation) injected before every valid "
            "request and at the end; deep snapshot (schedule, vectors, every observer's state, call trace, query answers) "
            "taken before and after each injected request: oracle = raises and snapshots identical and the run ends in the "
            "same world as the same history without the injections; all of it compared with the statement-level Lean model; "
            "non-trivial = >=3 accepted dispatches and >=3 rejected requests of >=2 kinds")
    ASSUMPTIONS = ["instances are valid",
                   "every fourth scenario drives SingleJobShopGraphEnv.step instead of Dispatcher.dispatch (rejected steps of five kinds between valid steps for other jobs; observation and schedule before/after; twin episode without the rejected steps)", "negative job ids (Python index wrap-around) are outside the action space and the property"]
    QUICK_N = 200

    def make_impl(self, scenario):
        from impl_ext import ImplEnv
        return ImplEnv(scenario.meta.get("filter_style", "callable"))

    def generate(self, rng, n, tier):
        for i in range(n):
            if i % 64 == 5:
                yield Scenario(["new", f"mark gcflex {rng.randint(0, 10**6)}"], {"family": "gcflex", "accepted": 3, "rejected": 3,
                                                                               "bad_kinds": ["bad_machine", "gc-loop"]})
                continue
            if i % 8 == 7:
                # the multi-instance environment: illegal decisions (also machine ids that exist only in the padded action
                # space of a smaller episode instance) between legal steps
                import C18
                sc = C18.Check().multi_scenario(rng, inject=0.3)
                sc.meta["kind"] = "multi"
                sc.meta["rejected"] = sum(1 for l in sc.lines if l.startswith("mbad"))
                sc.meta["accepted"] = sum(1 for l in sc.lines if l.startswith("mauto"))
                sc.meta["bad_kinds"] = ["multi-illegal", "multi-padded-machine"]
                yield sc
                continue
            yield self.env_scenario(rng) if i % 4 == 3 else self.scenario(rng, tier)

    def env_scenario(self, rng: random.Random) -> Scenario:
        """The environment clause: rejected steps (finished job, ineligible / out-of-range machine, -1 on a flexible
        operation) between valid steps for OTHER jobs."""
        family, jobs = gen.gen_instance(rng, max_jobs=4, max_ops=3)
        f = gen.gen_filter(rng)
        b = rng.choice(["disjunctive", "agent_task", "agent_task_jobs", "complete_agent_task"])
        lines = ["new", instance_line(jobs), gen.filter_line(f),
                 f"env {b} 1 1 {rng.choice(['makespan', 'idle'])} 1 ; is_ready - ; duration -", "eobs"]
        tr = gen.Tracker(jobs)
        M = slices.num_machines_of(jobs)
        n_bad = n_acc = 0
        kinds = set()
        while not tr.done():
            if rng.random() < 0.6:
                ready = tr.ready()
                j, p = rng.choice(ready)
                ms, _ = jobs[j][p]
                finished = [k for k in range(len(jobs)) if tr.idx[k] >= len(jobs[k])]
                cands = [("oob-machine", j, M + rng.randint(0, 2)), ("machine-minus-2", j, -2)]
                inel = [m for m in range(M) if m not in ms]
                if inel:
                    cands.append(("ineligible-machine", j, rng.choice(inel)))
                    cands.append(("ineligible-machine", j, rng.choice(inel)))
                if len(ms) > 1:
                    cands.append(("minus1-flexible", j, -1))
                if finished:
                    cands.append(("finished-job", rng.choice(finished), -1))
                kind, bj, bm = rng.choice(cands)
                lines += ["eobs", "esched", f"mark injected {kind}", f"estep {bj} {bm}", "eobs", "esched"]
                kinds.add(kind)
                n_bad += 1
                # the next valid step is for another job when there is one
                others = [r for r in tr.ready() if r[0] != bj]
                if others and rng.random() < 0.8:
                    j, p = rng.choice(others)
                else:
                    j, p = rng.choice(tr.ready())
            else:
                j, p = rng.choice(tr.ready())
            ms, _ = jobs[j][p]
            m = -1 if len(ms) == 1 and rng.random() < 0.5 else rng.choice(ms)
            tr.take(j)
            n_acc += 1
            lines.append(f"estep {j} {m}")
        lines += [f"mark injected finished-job", f"estep {rng.randrange(len(jobs))} -1", "eobs", "esched"]
        meta = {"family": family, "filter": "none" if f is None else "+".join(f) or "empty-composite", "kind": "env",
                "flexible": gen.is_flexible(jobs), "accepted": n_acc, "rejected": n_bad + 1,
                "bad_kinds": sorted(kinds | {"finished-job"}), "filter_style": rng.choice(["callable", "enum", "str"])}
        return Scenario(lines, meta)

    def env_oracle(self, impl, scenario, index, line, out, ctx):
        res = []
        lines = scenario.lines
        outs = ctx["outs"]
        if line == "esched" and index >= 5 and lines[index - 3].startswith("mark injected") and \
                lines[index - 2].startswith("estep"):
            s_line, s_out = lines[index - 2], outs[index - 2]
            if s_out != "raise":
                res.append(("not-rejected", f"invalid step `{s_line}` ({lines[index - 3][14:]}) did not raise"))
            if lines[index - 5] == "eobs" and lines[index - 4] == "esched":
                for k in (0, 1):
                    if outs[index - 5 + k] != outs[index - 1 + k]:
                        res.append(("state-changed", f"rejected `{s_line}` changed `{lines[index - 1 + k]}`"))
                        break
        if index == len(lines) - 1 and lines[-2:] == ["eobs", "esched"] and lines[0] == "new":
            from impl_ext import ImplEnv
            clean = ImplEnv(scenario.meta.get("filter_style", "callable"))
            raised = {i for i, (l, o) in enumerate(zip(lines, outs)) if l.startswith("estep") and o == "raise"}
            last = {}
            for i, l in enumerate(lines):
                if i in raised or l.startswith("mark"):
                    continue
                last[l.split()[0]] = clean.exec(l)
            for key, pos in (("eobs", -2), ("esched", -1)):
                if last.get(key) != outs[pos]:
                    res.append(("as-if-never", f"final `{key}` differs from the same episode without the rejected steps: "
                                f"{outs[pos][:200]} vs {str(last.get(key))[:200]}"))
        return res

    def scenario(self, rng: random.Random, tier) -> Scenario:
        family, jobs = gen.gen_instance(rng, max_jobs=4, max_ops=3 if tier == "quick" else 5)
        f = gen.gen_filter(rng)
        lines = ["new", instance_line(jobs), gen.filter_line(f)]
        kinds = list(KINDS)
        quiet = rng.random() < 0.35
        if quiet:
            # no observer that queries the dispatcher from inside its callback (the recorder takes a snapshot): nothing
            # reads the dispatcher between a dispatch and the next request
            kinds = [k for k in kinds if k != "recorder"]
        rng.shuffle(kinds)
        for k in kinds:
            lines.append("obs " + k)
        tr = gen.Tracker(jobs)
        M = slices.num_machines_of(jobs)
        bad_kinds = set()
        n_bad = 0
        n_acc = 0
        probe = ["snap", "wsnap", "trace", "q current_time", "q available", "q unscheduled"]

        offs = [sum(len(job) for job in jobs[:k]) for k in range(len(jobs))]

        def via():
            return "sstep" if rng.random() < 0.25 else "disp"

        def inject():
            nonlocal n_bad
            bad = gen.gen_invalid_request(rng, tr, M)
            if quiet and tr.ready() and rng.random() < 0.6:
                # machine ids of every flavour on a ready operation: negative (Python would index from the end), beyond the
                # last machine, in range but not eligible
                bj, bp = rng.choice(tr.ready())
                bms = jobs[bj][bp][0]
                cands = [(-k, "neg_machine") for k in range(1, M + 1)] + [(M + k, "oob_machine") for k in range(3)] + \
                        [(mm, "bad_machine") for mm in range(M) if mm not in bms]
                bm, bkind = rng.choice(cands)
                bad = (bj, bp, bm, bkind)
            alias_follow = None
            if quiet and len(tr.ready()) >= 2 and rng.random() < 0.5:
                # flat-index aliasing: a bad machine id chosen so that (a_bad * stride + m_bad) == (a_ok * stride + m_ok) for a
                # valid request (a = operation id or job id, stride = number of machines or of jobs); the valid request follows
                (oj, op_), (bj, bp) = rng.sample(tr.ready(), 2)
                ok_m = rng.choice(jobs[oj][op_][0])
                stride = rng.choice([M, M, len(jobs)])
                a_ok, a_bad = (offs[oj] + op_, offs[bj] + bp) if rng.random() < 0.6 else (oj, bj)
                bm = ok_m + (a_ok - a_bad) * stride
                if bm not in jobs[bj][bp][0]:
                    bad = (bj, bp, bm, "alias_machine")
                    alias_follow = (oj, op_, ok_m)
            if bad and (quiet or rng.random() < 0.4):
                # a "blind" rejected request: nothing is read between the previous dispatch and it (no query has filled any
                # per-state memo), nothing right after it; the next VALID request follows at once.  Judged by: it must
                # raise, and the final state must equal the run of the history without it.
                lines.append("mark blind " + bad[3])
                # (one request in four reaches the dispatcher through DispatchingRuleSolver.step: a user rule names the operation)
                lines.append(f"{via()} {bad[0]} {bad[1]} {bad[2]}")
                if quiet and rng.random() < 0.5:
                    later = [(jj, pp) for jj, job in enumerate(jobs) for pp in range(len(job)) if pp > tr.idx[jj]]
                    if later and bad[3] != "not_next":
                        # (one more refused request, for an operation whose turn has not come)
                        lj, lp = rng.choice(later)
                        lines.extend(["mark blind not_next", f"disp {lj} {lp} {rng.choice(jobs[lj][lp][0])}"])
                        n_bad += 1
                    # ... and the caller installs another filter on the live dispatcher (a public attribute; the multi-instance
                    # environment does the same) before anything is read: whatever the rejected request computed on its way out
                    # is not remembered
                    lines.append("refilt" + gen.filter_line(gen.gen_filter(rng))[6:])
                    lines.append("q available")
                bad_kinds.add(bad[3])
                n_bad += 1
                return bad + ((alias_follow,) if alias_follow else ())
            if bad:
                lines.extend(probe)
                lines.append("mark injected " + bad[3])
                lines.append(f"{via()} {bad[0]} {bad[1]} {bad[2]}")
                lines.extend(probe)
                bad_kinds.add(bad[3])
                n_bad += 1

        reset_at = rng.randint(1, max(1, gen.num_ops(jobs) - 1)) if rng.random() < 0.35 else None
        while not tr.done():
            if rng.random() < 0.05:
                lines.append("badseq")     # a failed Schedule.from_job_sequences somewhere else in the process
            if rng.random() < 0.05:
                lines.append("xform")      # instance transformations (they return new instances) applied to the live dispatcher's instance
            blind = inject() if rng.random() < 0.6 else None
            j, p, m = gen.gen_valid_request(rng, tr)
            if blind and len(blind) > 4:
                j, p, m = blind[4]          # the valid request whose flat key the bad id aliases
            elif blind and rng.random() < 0.7:
                # the valid request right after a blind rejected one is RELATED to it: a neighbouring operation id (or the
                # same job), on the machine the bad id aliases (modulo the number of machines) when that is eligible
                bid = offs[blind[0]] + blind[1]
                near = sorted(tr.ready(), key=lambda r: (abs(offs[r[0]] + r[1] - bid) or 1.5, r))   # a neighbour first, then the operation itself
                j, p = near[0]
                ms = jobs[j][p][0]
                alias = blind[2] % M if isinstance(blind[2], int) else None
                m = alias if alias in ms else rng.choice(ms)
            tr.take(j)
            n_acc += 1
            lines.append(f"disp {j} {p} {m}")
            if reset_at is not None and n_acc == reset_at:
                # a reset in the middle of an episode: what was next before the reset is not next any more
                stale = [(k, tr.idx[k]) for k in range(len(jobs)) if 0 < tr.idx[k] < len(jobs[k])]
                lines.append("reset")
                tr.reset()
                reset_at = None
                for k, pos in stale[:2]:
                    lines.extend(probe)
                    lines.append("mark injected stale-next-after-reset")
                    lines.append(f"disp {k} {pos} {jobs[k][pos][0][0]}")
                    lines.extend(probe)
                    bad_kinds.add("stale-next-after-reset")
                    n_bad += 1
        inject()
        lines.extend(probe)
        meta = {"family": family, "filter": "none" if f is None else "+".join(f) or "empty-composite",
                "flexible": gen.is_flexible(jobs), "accepted": n_acc, "rejected": n_bad,
                "bad_kinds": sorted(bad_kinds), "filter_style": rng.choice(["callable", "enum", "str"])}
        return Scenario(lines, meta)

    def nontrivial(self, scenario, outs):
        m = scenario.meta
        return m.get("accepted", 0) >= 3 and m.get("rejected", 0) >= 3 and len(m.get("bad_kinds", [])) >= 2

    def oracle(self, impl, scenario, index, line, out, ctx):
        res = []
        lines = scenario.lines
        if line.startswith("mark gcflex"):
            return oracles.gc_flex_episode(int(line.split()[2]))["C09"]
        outs = ctx.setdefault("outs", [])
        outs.append(out)
        # the instance is part of the dispatcher: a rejected request leaves it (operations and cached views) as it was
        if line.startswith("mark injected") or line.startswith("mark blind"):
            if getattr(impl, "instance", None) is not None:
                ctx["idump"] = (oracles.dump_instance(impl.instance), oracles.dump_views(impl.instance))
        elif line.startswith(("disp", "estep")) and ctx.get("idump") is not None and getattr(impl, "instance", None) is not None:
            now = (oracles.dump_instance(impl.instance), oracles.dump_views(impl.instance))
            if now != ctx["idump"]:
                res.append(("instance-changed", f"rejected `{line}` modified the instance (operations or cached views)"))
            ctx["idump"] = None
        if scenario.meta.get("kind") == "multi":
            if line.startswith("mbad") and out.startswith("bad ") and not out.endswith("raise"):
                res.append(("not-rejected", f"`{line}`: the illegal decision {out.split()[1:3]} of the multi-instance "
                            f"environment was accepted"))
            if index == len(lines) - 1 and any(l.startswith("mbad") for l in lines):
                # as if never made: a twin environment that receives the same lines without the rejected decisions answers
                # every other line identically (instances, observations, rewards, flags)
                from impl_ext import ImplEnv
                twin = ImplEnv(filter_style=scenario.meta.get("filter_style", "callable"))
                for i, l in enumerate(lines):
                    if l.startswith("mbad") or l.startswith("mark"):
                        continue
                    t_out = twin.exec(l)
                    if t_out != outs[i]:
                        res.append(("as-if-never", f"line {i} `{l[:40]}`: with the rejected decisions before it the reply is "
                                    f"{outs[i][:160]}, without them {t_out[:160]}"))
                        break
            return res
        if scenario.meta.get("kind") == "env":
            return self.env_oracle(impl, scenario, index, line, out, ctx)
        # an injected request: 6 probe lines, `mark injected <kind>`, the `disp`, 6 probe lines
        if line == "q unscheduled" and index >= 14 and lines[index - 7].startswith("mark injected") and \
                lines[index - 6].startswith(("disp", "sstep")) and lines[index - 13:index - 7] == lines[index - 5:index + 1]:
            d_line, d_out = lines[index - 6], outs[index - 6]
            if d_out != "raise":
                res.append(("not-rejected", f"invalid request `{d_line}` ({lines[index - 7][14:]}) did not raise (reply {d_out})"))
            before, after = outs[index - 13:index - 7], outs[index - 5:index + 1]
            for k, (a, b) in enumerate(zip(before, after)):
                if a != b:
                    res.append(("state-changed", f"rejected `{d_line}` changed `{lines[index - 13 + k]}`: before {a} after {b}"))
                    break
        if line == "q available" and index >= 1 and lines[index - 1].startswith("refilt") and not gen.has_zero(impl.jobs):
            # the first read after the rejected request and the new filter: the available operations under the filter installed NOW
            from impl import lst
            v = oracles.View(impl.instance, impl.dispatcher.schedule.schedule)
            want = lst(sorted(o.operation_id for o in v.available(impl.filter_tokens)))
            got = out
            if sorted(got.strip("[] ").split()) != sorted(want.strip("[] ").split()):
                res.append(("as-if-never", f"after the rejected `{lines[index - 2]}` and `{lines[index - 1]}` the available operations are "
                            f"{got}, under the installed filter they are {want}"))
        if line.startswith(("disp", "sstep")) and index >= 1 and lines[index - 1].startswith("mark blind") and out != "raise":
            res.append(("not-rejected", f"invalid request `{line}` ({lines[index - 1][11:]}) did not raise (reply {out})"))
        # at the end: same world as the clean history
        if index == len(lines) - 1 and lines[-6:] == ["snap", "wsnap", "trace", "q current_time", "q available", "q unscheduled"]:
            from impl_ext import ImplWorld
            clean = ImplWorld(scenario.meta.get("filter_style", "callable"))
            raised = {i for i, (l, o) in enumerate(zip(lines, outs)) if l.startswith(("disp", "sstep")) and o == "raise"}
            last = {}
            for i, l in enumerate(lines):
                if i in raised or l.startswith("q "):
                    continue
                last[l] = clean.exec(l)
            for key in ("snap", "wsnap"):
                got = outs[len(lines) - 6 + ["snap", "wsnap", "trace", "q current_time", "q available", "q unscheduled"].index(key)]
                if last.get(key) != got:
                    res.append(("as-if-never", f"final `{key}` differs from the run of the same history without the "
                                f"rejected requests: {got} vs {last.get(key)}"))
        return res

"""C19 — generated instances respect the requested shape and seed."""
import random

from framework import PropertyCheck, Scenario


class Check(PropertyCheck):
    ID = "C19"
    LEAN_MODULE = "JobShopProofs.Properties.C19All"
    THEOREMS = ["JS.C19_shape", "JS.C19_support", "JS.C19_names_and_length", "JS.C19_names_across_passes", "JS.C19_deterministic", "JS.C19_refusal_state", "JS.C19_refusal_deterministic", "JS.C19_refusal_iter", "JS.iterate_refusal_state",
                "JS.C19_passes_concat", "JS.C19_next_is_pass_of_one", "JS.C19_generate_then_two_passes"]
    RULE = ("random generator parameters (job/machine/duration ranges as ints or pairs, allow_less_jobs_than_machines, "
            "allow_recirculation, machines_per_operation as int or range, iteration limit) x random draw stream: the "
            "generator's own random.Random is replaced by a scripted stream shared with the Lean model and the generated "
            "instances (and raise/no raise) are compared; oracle on the real instances: every clause of the shape, fresh "
            "names, len(list(gen)) = limit; second stream of scenarios with REAL seeds: two generators with the same seed "
            "built before either is used (interleaved use) give identical sequences, re-iteration yields the limit again, "
            "over many draws every machine id below M occurs; non-trivial = >=2 instances generated without raising")
    ASSUMPTIONS = ["Python's random.Random(seed) is a deterministic function of the seed (trusted)",
                   "randint(a,b) = a + d % (b-a+1), choice(seq) = seq[d % len(seq)] over the scripted stream"]
    QUICK_N = 300

    def make_impl(self, scenario):
        from impl_ext import ImplGen
        return ImplGen()

    def generate(self, rng, n, tier):
        yield Scenario(["new", f"mark crossproc {rng.randint(0, 10**6)}"], {"kind": "seed"})
        for i in range(n):
            if i % 5 == 4:
                yield Scenario(["new", f"mark seeds {rng.choice([0, 0, 1, rng.randint(0, 10**6), rng.randint(0, 10**6)])}"],
                               {"kind": "seed"})
                continue
            j1 = rng.randint(1, 5)
            j2 = j1 if rng.random() < 0.3 else j1 + rng.randint(0, 3)
            m1 = rng.randint(1, 4)
            m2 = m1 if rng.random() < 0.3 else m1 + rng.randint(0, 3)
            d1 = rng.randint(0, 5)
            d2 = d1 + rng.randint(0, 6)
            al = rng.choice([0, 1])
            rc = rng.choice([0, 1])
            if rng.random() < 0.5:
                k1 = k2 = 1
            else:
                k1 = rng.randint(1, 3)
                k2 = k1 + rng.randint(0, 2)
            cnt = rng.choice([0, 1, 2, 2, 3, 3, 4, 4])      # (a limit of 0: an empty pass, every time)
            draws = [rng.randint(0, 50) for _ in range(rng.randint(0, 120))]
            if i % 5 == 3:
                # the public helper create_random_operation() called directly a few times before the pass
                h = rng.randint(1, 4)
                yield Scenario(["new", "genh " + " ".join(map(str, [j1, j2, m1, m2, d1, d2, al, rc, k1, k2, h, cnt] + draws))],
                               {"kind": "scripted", "allow_less": al, "recirc": rc, "multi": int(k2 > 1), "count": cnt, "helper": h})
                continue
            yield Scenario(["new", "gen " + " ".join(map(str, [j1, j2, m1, m2, d1, d2, al, rc, k1, k2, cnt] + draws))],
                           {"kind": "scripted", "allow_less": al, "recirc": rc, "multi": int(k2 > 1), "count": cnt})

    def nontrivial(self, scenario, outs):
        return scenario.meta["kind"] == "seed" or (len(outs) > 1 and outs[1] != "raise" and scenario.meta["count"] >= 2)

    def oracle(self, impl, scenario, index, line, out, ctx):
        res = []
        if line.startswith(("gen ", "genh ")):
            xs = [int(t) for t in line.split()[1:13]]
            if line.startswith("genh "):
                del xs[10]              # the number of helper calls
            j1, j2, m1, m2, d1, d2, al, rc, k1, k2, cnt = xs[:11]
            if line.startswith("genh ") and out.startswith("ops "):
                for tok in out.split(" ; ")[0].split()[1:]:
                    ms, dur = tok.split(":")
                    ms = [int(t) for t in ms.split(",")]
                    if not d1 <= int(dur) <= d2 or any(not 0 <= m < m2 for m in ms) or len(set(ms)) != len(ms) or \
                            not (k1 <= len(ms) <= k2 if k2 > 1 else len(ms) == 1):
                        res.append(("helper-operation", f"create_random_operation() returned {tok} (machines < {m2}, {k1}..{k2} "
                                    f"per operation, durations {d1}..{d2})"))
            g, insts = impl.last_gen
            if out == "raise":
                return res
            if len(insts) != cnt:
                res.append(("iteration", f"list(generator) has {len(insts)} instances, iteration_limit={cnt}"))
            names = [i.name for i in insts]
            if len(set(names)) != len(names):
                res.append(("names", f"names reused: {names}"))
            for inst in insts:
                res += self.shape(inst, j1, j2, m1, m2, d1, d2, al, rc, k1, k2)
        elif line.startswith("mark crossproc"):
            # same seed, same parameters, ANOTHER interpreter process (other hash randomisation): the same instances
            import json as _json
            import os as _os
            import subprocess as _sp
            import sys as _sys
            import jsl as _jsl
            seed = int(line.split()[2])
            repo_root = _os.path.dirname(_os.path.dirname(_os.path.abspath(_jsl.job_shop_lib.__file__)))
            code = ("import json,sys\n"
                    "from job_shop_lib.generation import GeneralInstanceGenerator\n"
                    f"g = GeneralInstanceGenerator(num_jobs=(3, 5), num_machines=(2, 4), duration_range=(1, 9), seed={seed})\n"
                    "print(json.dumps([[i.name, i.durations_matrix, i.machines_matrix] for i in (g.generate() for _ in range(3))]))\n")
            outs_ = []
            for hs in ("1", "2"):
                env = dict(_os.environ, PYTHONHASHSEED=hs, PYTHONPATH=repo_root)
                r_ = _sp.run([_sys.executable, "-c", code], capture_output=True, text=True, env=env, timeout=120, check=False)
                outs_.append(r_.stdout.strip() if r_.returncode == 0 else f"failed: {r_.stderr[-300:]}")
            from impl_ext import GeneralInstanceGenerator
            g = GeneralInstanceGenerator(num_jobs=(3, 5), num_machines=(2, 4), duration_range=(1, 9), seed=seed)
            here = _json.dumps([[i.name, i.durations_matrix, i.machines_matrix] for i in (g.generate() for _ in range(3))])
            if outs_[0] != outs_[1] or outs_[0] != here:
                res.append(("seed-cross-process", f"a generator with seed {seed} produced different instances in different interpreter processes "
                            f"(PYTHONHASHSEED 1 / 2 / this process): {outs_[0][:120]} | {outs_[1][:120]} | {here[:120]}"))
        elif line.startswith("mark seeds"):
            from impl_ext import GeneralInstanceGenerator
            seed = int(line.split()[2])
            r = random.Random(seed)
            kw = dict(num_jobs=(r.randint(3, 4), r.randint(4, 6)), num_machines=(r.randint(2, 3), r.randint(3, 5)),
                      duration_range=(1, 9), allow_recirculation=r.random() < 0.5,
                      allow_less_jobs_than_machines=r.random() < 0.7,
                      machines_per_operation=r.choice([1, 1, (1, 2), 2]), iteration_limit=4, seed=seed)
            try:
                a = GeneralInstanceGenerator(**kw)
                b = GeneralInstanceGenerator(**kw)      # built before `a` is used
                la, lb = [], []
                for _ in range(3):                      # interleaved use
                    la.append(a.generate())
                    lb.append(b.generate())
                fresh = [i for i in GeneralInstanceGenerator(**kw)][:3]
            except (ValueError, IndexError):
                return res      # unsatisfiable parameter combination: nothing is generated
            dump = lambda l: [(i.durations_matrix, i.machines_matrix) for i in l]  # noqa: E731
            if dump(la) != dump(lb):
                res.append(("seed-interleaved", f"two generators with seed {seed} built before use produced different "
                            f"sequences when used alternately"))
            if dump(la) != dump(fresh):
                res.append(("seed-fresh", f"a generator with seed {seed} used alone differs from one used interleaved"))
            c = GeneralInstanceGenerator(**kw)
            pre = c.generate()
            first = list(c)
            second = list(c)
            if len(first) != 4 or len(second) != 4:
                res.append(("iteration", "iterating (twice) did not yield iteration_limit instances each time"))
            # however the instances are pulled (passes, generate(), next()), two generators with the same seed hand out the same
            # sequence: a second pass goes on where the first one ended, like a twin asked nine times in a row
            twin = GeneralInstanceGenerator(**kw)
            nine = [twin.generate() for _ in range(9)]
            if dump([pre] + first + second) != dump(nine):
                res.append(("seed-passes", f"a generator with seed {seed} pulled as generate() + two passes of 4 differs from its twin pulled "
                            f"with nine generate() calls"))
            # a pass that is abandoned early (break / a few bare next() calls) does not shorten the next pass
            e = GeneralInstanceGenerator(**kw)
            for k, _inst in enumerate(e):
                if k == 1:
                    break
            third = list(e)
            it = iter(e)
            next(it)
            fourth = list(e)
            # a generator is its own iterator: bare next() calls on a freshly built one (no iter(), no for, no list()) yield the
            # configured number of instances and then stop
            nx = GeneralInstanceGenerator(**kw)
            pulled = 0
            try:
                for _ in range(4 + 3):
                    next(nx)
                    pulled += 1
            except StopIteration:
                pass
            if pulled != 4:
                res.append(("iteration", f"bare next() calls on a fresh generator with iteration_limit=4 yielded {pulled} instances "
                            f"{'and went on' if pulled > 4 else 'and stopped'}"))
            # direct generate() calls while a pass is running are extra instances, they do not use up the pass
            f2 = GeneralInstanceGenerator(**kw)
            got = 0
            for _inst in f2:
                got += 1
                if got <= 2:
                    f2.generate()
            if got != 4:
                res.append(("iteration", f"a pass with two direct generate() calls inside the loop yielded {got} instances, "
                            f"iteration_limit=4"))
            if len(third) != 4 or len(fourth) != 4:
                res.append(("iteration", f"after an abandoned pass the next pass yields {len(third)} / {len(fourth)} "
                            f"instances, iteration_limit=4"))
            # explicit sizes (both, or only one) are instances of the same generator like any other
            nj, nm = kw["num_jobs"][1], kw["num_machines"][0]
            sized = [c.generate(num_jobs=nj, num_machines=nm), c.generate(num_jobs=nj), c.generate(num_machines=nm),
                     c.generate(num_jobs=nj, num_machines=nm)]
            # only the machine count given, as large as the largest job count: the sampled job count must still respect
            # the flag (or the call must refuse)
            for _ in range(4):
                try:
                    sized.append(c.generate(num_machines=nj))
                except Exception:  # pylint: disable=broad-except
                    pass
            if (len(sized[0].jobs), len(sized[0].jobs[0])) != (nj, nm) or len(sized[1].jobs) != nj or \
                    len(sized[2].jobs[0]) != nm:
                res.append(("explicit-size", f"generate(num_jobs={nj}, num_machines={nm}) returned "
                            f"{len(sized[0].jobs)} jobs x {len(sized[0].jobs[0])} operations"))
            if not kw["allow_less_jobs_than_machines"]:
                for inst in sized + first + second:
                    if len(inst.jobs) < len(inst.jobs[0]):
                        res.append(("fewer-jobs", f"{len(inst.jobs)} jobs < {len(inst.jobs[0])} machines although "
                                    f"allow_less_jobs_than_machines=False (generate with explicit sizes / iteration)"))
            all_names = [pre.name] + [i.name for i in first + second] + [i.name for i in sized] + [c.generate().name]
            if len(set(all_names)) != len(all_names):
                res.append(("names", f"one generator reused names across generate() and two iterations: {all_names}"))
            names = [i.name for i in la]
            if len(set(names)) != len(names):
                res.append(("names", f"names reused: {names}"))
            # the public helper create_random_operation() used directly (no machine pool given), then instances from this and
            # from another generator of the same shop sizes: every instance still has the requested shape
            mpo = kw["machines_per_operation"]
            k1, k2 = (mpo, mpo) if isinstance(mpo, int) else mpo
            (j1, j2), (m1, m2) = kw["num_jobs"], kw["num_machines"]
            al, rc = kw["allow_less_jobs_than_machines"], kw["allow_recirculation"]
            h = GeneralInstanceGenerator(**kw)
            for _ in range(3):
                op = h.create_random_operation()
                if not 1 <= op.duration <= 9 or any(not 0 <= m < m2 for m in op.machines) or \
                        not k1 <= len(op.machines) <= k2 or len(set(op.machines)) != len(op.machines):
                    res.append(("helper-operation", f"create_random_operation() returned machines {op.machines} duration "
                                f"{op.duration} (machines < {m2}, {k1}..{k2} per operation, durations 1..9)"))
            h2 = GeneralInstanceGenerator(**kw)
            later = [h.generate(), h2.generate()]
            for gg in (h2, h):
                try:
                    later.append(gg.generate(num_machines=m2))
                except Exception:  # pylint: disable=broad-except
                    pass            # refused (fewer jobs than machines not allowed): fine
            for inst in later + first + sized[:3]:
                res += [(k, f"(generator with seed {seed}, after direct create_random_operation() calls) {msg}")
                        for k, msg in self.shape(inst, j1, max(j2, nj), m1, max(m2, nj), 1, 9, al, rc, k1, k2)]
            # support with a mixed range (1..2 machines per operation, no recirculation): eligible machines are drawn from ALL machines
            # for every operation - the machine of a single-machine operation can come up again later in the same job
            gm = GeneralInstanceGenerator(num_jobs=4, num_machines=6, machines_per_operation=(1, 2), seed=seed)
            again = total = 0
            for _ in range(20):
                for job in gm.generate().jobs:
                    singles = [(p, op.machines[0]) for p, op in enumerate(job) if len(op.machines) == 1]
                    if singles:
                        p0, m0 = singles[0]
                        total += 1
                        again += any(m0 in op.machines for op in job[p0 + 1:])
            if total >= 30 and again == 0:
                res.append(("support", f"machines_per_operation=(1, 2), 6 machines: in {total} jobs the machine of the first single-machine "
                            "operation never came up again later in its job (eligible machines are not drawn from all machines)"))
            # support: all machines occur over many draws when k >= 2
            M = 5
            g = GeneralInstanceGenerator(num_jobs=4, num_machines=M, machines_per_operation=2, seed=seed)
            seen = {m for _ in range(6) for job in g.generate().jobs for op in job for m in op.machines}
            if seen != set(range(M)):
                res.append(("support", f"with 5 machines and 2 machines per operation only machines {sorted(seen)} occur"))
        return res

    def shape(self, inst, j1, j2, m1, m2, d1, d2, al, rc, k1, k2):
        res = []
        J = len(inst.jobs)
        if not j1 <= J <= j2:
            res.append(("jobs-range", f"{J} jobs, requested {j1}..{j2}"))
        lens = {len(job) for job in inst.jobs}
        if len(lens) != 1:
            res.append(("job-length", f"jobs have different numbers of operations {sorted(lens)}"))
            return res
        M = lens.pop()
        if not m1 <= M <= m2:
            res.append(("machines-range", f"{M} operations per job, machines requested {m1}..{m2}"))
        if not al and J < M:
            res.append(("fewer-jobs", f"{J} jobs < {M} machines although allow_less_jobs_than_machines=False"))
        for job in inst.jobs:
            for op in job:
                if not d1 <= op.duration <= d2:
                    res.append(("duration", f"duration {op.duration} outside {d1}..{d2}"))
                if any(not 0 <= m < M for m in op.machines):
                    res.append(("machine-id", f"machine ids {op.machines} not below {M}"))
                if len(set(op.machines)) != len(op.machines):
                    res.append(("distinct", f"repeated machine in {op.machines}"))
                if k2 > 1:
                    if not k1 <= len(op.machines) <= k2:
                        res.append(("mpo", f"{len(op.machines)} machines per operation, requested {k1}..{k2}"))
                elif len(op.machines) != 1:
                    res.append(("mpo", f"{len(op.machines)} machines for a single-machine operation"))
            if not rc and k2 <= 1 and sorted(op.machines[0] for op in job) != list(range(M)):
                res.append(("permutation", f"job visits machines {[op.machines[0] for op in job]}, not each of {M} once"))
        return res

"""C17 — the residual graph hides only the decided and everything done."""
import random

import gen
import oracles
import slices
from framework import PropertyCheck, Scenario
from impl import instance_line

BUILDERS = ["disjunctive", "agent_task", "agent_task_jobs", "complete_agent_task"]


class Check(PropertyCheck):
    ID = "C17"
    LEAN_MODULE = "JobShopProofs.Properties.C17All"
    THEOREMS = ["JS.C17_built_inv", "JS.C17_no_dangling_edges", "JS.C17_removed_monotone", "JS.C17_removeNode_spec",
                "JS.C17_completed_removed", "JS.residualUpdate_inv",
                "JS.anch_build", "JS.anch_removeNode", "JS.anch_residualUpdate", "JS.anchM_residualUpdate", "JS.anchJ_residualUpdate", "JS.C17_world", "JS.C17_complete_all_removed", "JS.C17_complete_needs_a_job", "JS.C17_residual_helpers_subscribed", "JS.C17_residual_helpers_detail", "JS.C17_residual_helper_not_unsubscribed"]
    RULE = ("positive-duration instances (classic, irregular, recirculation, flexible, unused machine ids) x the four graph "
            "builders x the four option combinations of ResidualGraphUpdater x optional extra observers created before it x "
            "filter configuration; after every dispatch of a random history (and after a reset + second episode) the removed "
            "mask and edge list of the real graph are compared with the Lean model; oracle on the real graph: completed ⊆ "
            "removed operation nodes ⊆ scheduled, a machine/job node is removed only when all its operations are scheduled, "
            "removals are permanent within an episode, no remaining edge touches a removed node, and with default options "
            "on instances where every machine has an operation a complete schedule leaves no node; non-trivial = >=3 "
            "accepted dispatches and >=1 node removed before completion")
    ASSUMPTIONS = ["instances are valid with positive durations and no empty job (as the property states)"]
    QUICK_N = 200

    def make_impl(self, scenario):
        from impl_ext import ImplGraph
        return ImplGraph(scenario.meta.get("filter_style", "callable"))

    def generate(self, rng, n, tier):
        for i in range(n):
            if i % 60 == 13:
                yield self.wide_scenario(rng)
                continue
            if i % 12 == 9:
                # a dispatcher with a user-defined ready-operations filter (it decides what is available, hence what "now" is)
                yield Scenario(["new", f"mark customfilter {rng.randint(0, 10**6)}"],
                               {"family": "custom_filter", "builder": "custom", "rm_machine": 1, "rm_job": 1, "flexible": False,
                                "filter": "user-defined", "accepted": 0, "episodes": 1, "filter_style": "callable"})
                continue
            if i % 12 == 5:
                yield Scenario(["new", f"mark customblocks {rng.randint(0, 10**6)}"],
                               {"family": "custom_blocks", "builder": "custom", "rm_machine": 1, "rm_job": 1, "flexible": False,
                                "filter": "none", "accepted": 0, "episodes": 2, "filter_style": "callable"})
                continue
            yield self.scenario(rng, tier)

    def wide_scenario(self, rng) -> Scenario:
        """More than 256 operations on one machine (many one-operation jobs) or in one job (a long chain): counts are counts,
        whatever their size; only a few dispatches are made, every machine and the long job keep unscheduled operations."""
        n = rng.choice([256, 257, 258, 300])         # operations on machine 0 / in job 0
        if rng.random() < 0.5:
            jobs = [[([0], rng.randint(1, 3))] for _ in range(n - 1)] + [[([1], 2), ([0], 1)]]
            family = "wide_machine"
            first = [(j, 0) for j in rng.sample(range(n - 1), 3)]          # three of the jobs on machine 0
        else:
            jobs = [[([k % 2], rng.randint(1, 3)) for k in range(n)], [([1], 2)], [([0], 2), ([1], 1)]]
            family = "long_job"
            first = [(0, 0), (0, 1), (0, 2)]                               # the first operations of the long job
        # (the plain agent-task graph links all operations of a job with each other: 10^5 edges for the long job - left out)
        # (likewise the variant with job nodes links the 257 job nodes of the wide instance pairwise)
        b = "agent_task_jobs" if family == "long_job" else "agent_task"
        lines = ["new", instance_line(jobs), "filter none", f"fres {b} 1 1", "fsnap"]
        n_acc = 0
        for j, p in first:
            n_acc += 1
            lines += [f"disp {j} {p} {jobs[j][p][0][0]}", "fsnap"]
        if rng.random() < 0.5:
            lines += ["reset", "fsnap"]
            j, p = first[0]
            lines += [f"disp {j} {p} {jobs[j][p][0][0]}", "fsnap"]
        return Scenario(lines, {"family": family, "builder": b, "rm_machine": 1, "rm_job": 1, "flexible": False, "filter": "none",
                                "accepted": n_acc, "episodes": 1, "filter_style": "callable"})

    def scenario(self, rng, tier) -> Scenario:
        fam = rng.choice(["classic", "irregular", "recirc", "flexible", "gaps", "ties", "single_machine"])
        family, jobs = gen.gen_instance(rng, fam, max_jobs=4, max_ops=3 if tier == "quick" else 4)
        f = gen.gen_filter(rng)
        b = rng.choice(BUILDERS)
        rm, rj = rng.choice([(1, 1), (1, 1), (1, 0), (0, 1), (0, 0)])
        lines = ["new", instance_line(jobs), gen.filter_line(f)]
        # (completion-flag observers of the user's that track only SOME of the flags the updater needs: it has to get one of its own)
        for k in rng.sample(["is_completed mj", "is_completed o", "is_completed m", "is_completed j", "is_completed om",
                             "remaining_operations -", "is_ready -", "history -"], rng.randint(0, 2)):
            lines.append("fobs " + k)
        tr = gen.Tracker(jobs)
        n_acc = 0
        if rng.random() < 0.12:
            # helper observers that were subscribed once and then unsubscribed (before, or after some dispatches): the updater
            # attached later must not pick up an observer that is no longer notified
            pre = rng.sample(["is_completed mj", "is_completed -", "remaining_operations -", "unscheduled -"], rng.randint(1, 2))
            n_before = sum(1 for l in lines if l.startswith("fobs"))
            for k in pre:
                lines.append("fobs " + k)
            for _ in range(rng.randint(0, 2)):
                if tr.done():
                    break
                j, p, m = gen.gen_valid_request(rng, tr)
                tr.take(j)
                lines.append(f"disp {j} {p} {m}")
            lines.append("fsnap")
            for idx in range(rng.randint(1, 3)):
                lines.append(f"funsub {rng.randint(0, n_before + 3)}")
            if any(l.startswith("disp") for l in lines) or rng.random() < 0.3:
                # (the updater itself is attached at the start of an episode: attached mid-episode it starts from the full graph)
                lines.append("reset")
                tr.reset()
        elif rng.random() < 0.15:
            # the observers the updater will reuse are created in the middle of an earlier episode; the updater itself is
            # attached after the reset, before the first dispatch of the next episode
            for _ in range(rng.randint(1, max(1, gen.num_ops(jobs) - 1))):
                j, p, m = gen.gen_valid_request(rng, tr)
                tr.take(j)
                lines.append(f"disp {j} {p} {m}")
            lines.append("fobs is_completed " + rng.choice(["mj", "-", "mj", "m", "j", "om", "o", "oj"]))
            lines.append("reset")
            tr.reset()
        # (graphs pruned by their owner before the hand-over are left to C12/C18: C17 speaks of the graphs the builders yield - in a
        #  pruned graph `remove_node`'s own sweep of isolated nodes can take an unscheduled operation's node, by design)
        scribble = False
        mid_attach = False
        if rng.random() < 0.16 and not any(l.startswith(("fobs", "disp")) for l in lines):
            # the updater is attached to a dispatcher that already has a history (and nobody subscribed yet): what was completed before is
            # not back-filled, but from here on nothing that still has unscheduled operations may disappear
            for _ in range(rng.randint(1, max(1, gen.num_ops(jobs) - 2))):
                if tr.done():
                    break
                j, p, m = gen.gen_valid_request(rng, tr)
                tr.take(j)
                lines.append(f"disp {j} {p} {m}")
            mid_attach = True
            if rng.random() < 0.6:
                # (a completion-flag observer of the user's that has been there from the start: the updater will share it)
                k0 = next(k for k, l in enumerate(lines) if l.startswith("disp"))
                lines.insert(k0, "fobs is_completed " + rng.choice(["-", "-", "o", "om"]))
        elif rng.random() < 0.1:
            # a composite over the completion flags exists before the updater is attached (the updater then shares that observer),
            # and a third party keeps writing into the matrices the composite hands out
            lines = [l for l in lines if not l.startswith(("fobs", "funsub", "disp", "reset", "fsnap"))]     # (this observer comes first: id 0)
            tr.reset()
            lines += ["fobs is_completed mj", "fcomp 0"]
            scribble = True
        if rng.random() < 0.12:
            # the updater is built with subscribe=False and subscribed by hand afterwards (before the first event)
            lines += [f"fresn {b} {rm} {rj}", "fsub last", "fsnap"]
        else:
            lines += [f"fres {b} {rm} {rj}", "fsnap"]
        n_eps = rng.choice([1, 1, 1, 2, 3, 3])       # later episodes start from the graph updater's stored initial graph
        for ep in range(n_eps):
            while not tr.done():
                j, p, m = gen.gen_valid_request(rng, tr)
                tr.take(j)
                n_acc += 1
                lines += (["scribble"] if scribble else []) + [f"disp {j} {p} {m}", "fsnap"]
                if rng.random() < 0.04 and not scribble:
                    # the episode goes on with a copy (deep copy / pickle round trip) of the dispatcher, its observers and the updater
                    # with its graph; the original lives on and does something else
                    lines += [rng.choice(["fork", "fork pickle"]), "fsnap"]
                if ep < n_eps - 1 and rng.random() < 0.05:
                    break
            if ep < n_eps - 1:
                lines += ["reset", "fsnap"]
                tr.reset()
        if mid_attach:
            n_eps = 1
        meta = {"family": family, "builder": b, "rm_machine": rm, "rm_job": rj, "flexible": gen.is_flexible(jobs), "mid_attach": mid_attach,
                "filter": "none" if f is None else "+".join(f) or "empty-composite", "accepted": n_acc, "episodes": n_eps,
                "filter_style": rng.choice(["callable", "enum", "str"])}
        return Scenario(lines, meta)

    def nontrivial(self, scenario, outs):
        early = any("residual" in o and "1" in o.split("residual")[1].split("| removed ")[1].split(" |")[0]
                    for l, o in zip(scenario.lines[:-1], outs[:-1]) if l == "fsnap")
        return scenario.meta.get("accepted", 0) >= 3 and early

    def custom_blocks_oracle(self, seed):
        """Graphs assembled from the PUBLIC building blocks (not one of the four shipped builders): job nodes without machine nodes,
        machine nodes without job nodes, with or without the global node; default updater options; every clause after every dispatch."""
        import jsl
        from job_shop_lib import graphs as G
        from job_shop_lib.graphs import _build_agent_task_graph as GB   # add_job_job_edges is not re-exported
        from job_shop_lib.graphs.graph_updaters import ResidualGraphUpdater
        from impl import build_instance
        r = random.Random(seed)
        _, jobs = gen.gen_instance(r, r.choice(["classic", "irregular", "recirc", "flexible"]), max_jobs=4, max_machines=3, max_ops=3)
        jobs = [[(ms, max(1, d)) for ms, d in job] for job in jobs]
        inst = build_instance(jobs)
        g = G.JobShopGraph(inst)
        kind = r.choice(["jobs+global", "machines+global", "jobs", "machines", "jobs+machines+global(job side only)"])
        if "jobs" in kind:
            G.add_job_nodes(g)
            G.add_operation_job_edges(g)
            if kind == "jobs":
                GB.add_job_job_edges(g)
        if "machines" in kind:
            G.add_machine_nodes(g)
            G.add_operation_machine_edges(g)
            if kind == "machines":
                G.add_machine_machine_edges(g)
        if "global" in kind:
            G.add_global_node(g)
            if "jobs" in kind:
                G.add_job_global_edges(g)
            if kind == "machines+global":
                G.add_machine_global_edges(g)
        d = jsl.Dispatcher(inst)
        upd = ResidualGraphUpdater(d, g)
        res = []
        tr = gen.Tracker(jobs)
        prev = set()
        every_machine_used = all(any(m in ms for job in jobs for ms, _ in job) for m in range(inst.num_machines))
        for ep in range(2):
            while not tr.done():
                j, p, m = gen.gen_valid_request(r, tr)
                tr.take(j)
                d.dispatch(inst.jobs[j][p], None if m == "none" else int(m))
                gg = upd.job_shop_graph
                v = oracles.View(inst, d.schedule.schedule)
                scheduled = set(v.sop)
                completed = scheduled - {x.operation.operation_id for x in v.ongoing(None)}
                removed = {i for i, x in enumerate(gg.removed_nodes) if x}
                NT = type(gg.nodes[0].node_type)
                for i in removed:
                    node = gg.nodes[i]
                    if node.node_type == NT.OPERATION and node.operation.operation_id not in scheduled:
                        res.append(("removed-unscheduled", f"[{kind}] node of unscheduled operation {node.operation.operation_id} removed"))
                    elif node.node_type == NT.MACHINE and any(o.operation_id not in scheduled for job in inst.jobs for o in job
                                                              if node.machine_id in o.machines):
                        res.append(("machine-early", f"[{kind}] machine node {node.machine_id} removed while it has unscheduled operations"))
                    elif node.node_type == NT.JOB and any(o.operation_id not in scheduled for o in inst.jobs[node.job_id]):
                        res.append(("job-early", f"[{kind}] job node {node.job_id} removed while it has unscheduled operations"))
                for oid in completed:
                    if not gg.removed_nodes[oid]:
                        res.append(("completed-kept", f"[{kind}] node of completed operation {oid} is still in the graph"))
                if not prev <= removed:
                    res.append(("not-permanent", f"[{kind}] nodes {sorted(prev - removed)} were removed and are back"))
                prev = removed
                if any(u in removed or w in removed for u, w in gg.graph.edges()):
                    res.append(("dangling-edge", f"[{kind}] an edge touches a removed node"))
                if set(gg.graph.nodes()) != set(range(len(gg.nodes))) - removed:
                    res.append(("mask-mismatch", f"[{kind}] removed_nodes mask does not match the nodes present in the networkx graph"))
                if res:
                    return res[:3]
            if every_machine_used and not all(upd.job_shop_graph.removed_nodes):
                left = [str(upd.job_shop_graph.nodes[i].node_type).split(".")[-1] for i, x in enumerate(upd.job_shop_graph.removed_nodes) if not x]
                res.append(("not-all-removed", f"[{kind}] schedule complete but {len(left)} nodes were never removed ({sorted(set(left))})"))
                return res
            d.reset()
            tr.reset()
            prev = set()
        return res

    def oracle(self, impl, scenario, index, line, out, ctx):
        res = []
        if line.startswith("mark customfilter"):
            return oracles.custom_filter_episode(int(line.split()[2]))["C17"]
        if line.startswith("mark customblocks"):
            return self.custom_blocks_oracle(int(line.split()[2]))
        if line == "reset":
            ctx["removed"] = None
            ctx["notified"] = False
            return res
        if line != "fsnap":
            return res
        from impl_ext import ResidualGraphUpdater
        upd = next((o for o in impl.fheap if isinstance(o, ResidualGraphUpdater)), None)
        if upd is None:
            return res
        g = upd.job_shop_graph
        from impl_ext import graph_lookup_problems
        for msg in graph_lookup_problems(g)[:2]:
            res.append(("lookup", f"residual graph: {msg}"))
        d = impl.dispatcher
        v = oracles.View(impl.instance, d.schedule.schedule)
        ft = impl.filter_tokens
        ongoing = {x.operation.operation_id for x in v.ongoing(ft)}
        scheduled = set(v.sop)
        completed = scheduled - ongoing
        removed = [i for i, r in enumerate(g.removed_nodes) if r]
        NT = type(g.nodes[0].node_type)
        dispatched = bool(scheduled)
        for i in removed:
            node = g.nodes[i]
            if node.node_type == NT.OPERATION:
                if node.operation.operation_id not in scheduled:
                    res.append(("removed-unscheduled", f"node of unscheduled operation {node.operation.operation_id} removed"))
            elif node.node_type == NT.MACHINE:
                if any(m_op.operation_id not in scheduled for job in impl.instance.jobs for m_op in job
                       if node.machine_id in m_op.machines):
                    res.append(("machine-early", f"machine node {node.machine_id} removed while it has unscheduled operations"))
            elif node.node_type == NT.JOB:
                if any(o.operation_id not in scheduled for o in impl.instance.jobs[node.job_id]):
                    res.append(("job-early", f"job node {node.job_id} removed while it has unscheduled operations"))
        if index >= 1 and scenario.lines[index - 1].startswith("disp"):
            ctx["notified"] = True
        # (an updater attached mid-episode is not back-filled at attachment; from its first notification on it removes the node of
        #  every completed operation, also of those completed before it came)
        if dispatched and (not scenario.meta.get("mid_attach") or ctx.get("notified")):
            for oid in completed:
                if not g.removed_nodes[oid]:
                    res.append(("completed-kept", f"node of completed operation {oid} is still in the graph"))
        prev = ctx.get("removed")
        if prev is not None and not set(prev) <= set(removed):
            res.append(("not-permanent", f"nodes {sorted(set(prev) - set(removed))} were removed and are back"))
        ctx["removed"] = removed
        rs = set(removed)
        for u, w in g.graph.edges():
            if u in rs or w in rs:
                res.append(("dangling-edge", f"edge {u}>{w} touches a removed node"))
                break
        if set(g.graph.nodes()) != set(range(len(g.nodes))) - rs:
            res.append(("mask-mismatch", "removed_nodes mask does not match the nodes present in the networkx graph"))
        M = impl.instance.num_machines
        every_machine_used = all(any(m in op.machines for job in impl.instance.jobs for op in job) for m in range(M))
        if d.schedule.is_complete() and upd.remove_completed_machine_nodes and upd.remove_completed_job_nodes \
                and every_machine_used and not all(g.removed_nodes) and not scenario.meta.get("mid_attach"):
            left = [i for i, r in enumerate(g.removed_nodes) if not r]
            res.append(("not-all-removed", f"schedule complete but nodes {left} were never removed"))
        return res

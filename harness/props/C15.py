"""C15 — equality means same content."""
import copy
import random

import gen
from framework import PropertyCheck, Scenario
from impl import instance_line


HASH_MOD = 2 ** 61 - 1      # CPython reduces ints modulo this prime before hashing: a pair differing by it collides in every hash-based shortcut


def inst_tokens(jobs):
    return instance_line(jobs).split(" ", 1)[1]


def op_tokens(ms, d, j, p, i):
    return " ".join(map(str, [len(ms)] + list(ms) + [d, j, p, i]))


class Check(PropertyCheck):
    ID = "C15"
    LEAN_MODULE = "JobShopProofs.Properties.C15"
    THEOREMS = ["JS.C15_opEq_iff", "JS.C15_sopEq_iff", "JS.C15_schedEq_iff", "JS.C15_instEq_iff", "JS.C15_equivalence",
                "JS.C15_distinguishes", "JS.C15_hash", "JS.C15_same_content"]
    RULE = ("pairs of operations, scheduled operations, instances and dispatcher-built schedules, built independently: "
            "identical content, or one single-field mutant (machines, duration, job id, position, id, start, machine, one "
            "job truncated or extended, one operation changed, one history step changed); ==, != and hash evaluated on the "
            "real objects and compared with the Lean model; oracle: == iff the content (recomputed by the harness from the "
            "spec) is equal, != is its negation, symmetric, equal operations hash equally, comparison with non-library "
            "values is False; non-trivial = pairs that differ in exactly one field or are equal but distinct objects")
    ASSUMPTIONS = ["Python's hash of an int is a function of the int"]
    QUICK_N = 400

    def make_impl(self, scenario):
        from impl_ext import ImplEq
        return ImplEq()

    def generate(self, rng, n, tier):
        for i in range(n):
            if i % 25 == 24:
                yield Scenario(["new", f"mark rawinst {rng.randint(0, 10**6)}"], {"kind": "rawinst", "field": "structure"})
                continue
            yield self.scenario(rng)

    def scenario(self, rng: random.Random) -> Scenario:
        kind = rng.choice(["op", "sop", "inst", "inst", "sched"])
        lines = ["new"]
        same = rng.random() < 0.4
        if kind in ("op", "sop"):
            M = rng.randint(1, 4)
            ms = rng.sample(range(M + 1), rng.randint(1, min(3, M + 1)))
            if kind == "sop" and len(ms) == 1 and rng.random() < 0.6:
                ms = ms + [max(ms) + 1]      # flexible: the machine assignment is a degree of freedom
            a = [ms, rng.randint(0, 9), rng.randint(0, 3), rng.randint(0, 3), rng.randint(0, 9)]
            if rng.random() < 0.2:
                # operations not attached to an instance (or of an instance built with set_operation_attributes=False):
                # job id, position and operation id keep their default -1
                a[2] = a[3] = a[4] = -1
            b = copy.deepcopy(a)
            field = "none"
            if not same:
                field = rng.choice(["machines", "dur", "job", "pos", "id"] +
                                   (["start", "start", "machine", "machine", "machine"] if kind == "sop" else []))
                if field == "machines" and len(b[0]) > 1 and rng.random() < 0.4:
                    b[0] = b[0][1:] + b[0][:1]          # the same eligible machines in another order: another list
                elif field == "machines":
                    b[0] = b[0][:-1] if len(b[0]) > 1 and rng.random() < 0.5 else b[0] + [max(b[0]) + 1]
                elif field in ("dur", "job", "pos", "id"):
                    idx = {"dur": 1, "job": 2, "pos": 3, "id": 4}[field]
                    # (differences that Python's int hash cannot see: hash(n) == hash(n + 2**61 - 1))
                    b[idx] += HASH_MOD if field == "dur" and rng.random() < 0.3 else rng.choice([1, 2])
            if kind == "op":
                lines.append(f"eqop {op_tokens(*a)} ; {op_tokens(*b)}")
            else:
                sa = [rng.randint(0, 20), rng.choice(a[0])]
                if rng.random() < 0.2:
                    sa[0] += 10 ** rng.choice([9, 12, 15, 18])     # start times are exact integers at any magnitude
                sb = list(sa)
                if field == "start":
                    sb[0] += HASH_MOD if rng.random() < 0.3 else 1
                elif field == "machine":
                    others = [m for m in b[0] if m != sa[1]]
                    if others:
                        sb[1] = rng.choice(others)
                    else:
                        field = "none"
                if sb[1] not in b[0]:
                    sb[1] = b[0][0]
                lines.append(f"eqsop {op_tokens(*a)} {sa[0]} {sa[1]} ; {op_tokens(*b)} {sb[0]} {sb[1]}")
            meta = {"kind": kind, "field": field}
        elif kind == "inst":
            _, jobs = gen.gen_instance(rng, max_jobs=3, max_ops=3)
            jobs2 = copy.deepcopy(jobs)
            field = "none"
            if not same:
                field = rng.choice(["dur", "machines", "drop_last_op", "add_op", "drop_job", "add_job", "swap_jobs"])
                j = rng.randrange(len(jobs2))
                if field == "dur":
                    p = rng.randrange(len(jobs2[j]))
                    jobs2[j][p] = (jobs2[j][p][0], jobs2[j][p][1] + (HASH_MOD if rng.random() < 0.3 else 1))
                elif field == "machines":
                    p = rng.randrange(len(jobs2[j]))
                    jobs2[j][p] = ([jobs2[j][p][0][0] + 1], jobs2[j][p][1])
                elif field == "drop_last_op":
                    j = len(jobs2) - 1 if rng.random() < 0.6 else j
                    if len(jobs2[j]) > 1:
                        jobs2[j] = jobs2[j][:-1]
                    else:
                        jobs2[j] = jobs2[j] + [([0], 1)]
                elif field == "add_op":
                    j = len(jobs2) - 1 if rng.random() < 0.6 else j
                    jobs2[j] = jobs2[j] + [([0], rng.randint(0, 3))]
                elif field == "drop_job" and len(jobs2) > 1:
                    jobs2 = jobs2[:-1]
                elif field == "swap_jobs" and len(jobs2) > 1 and jobs2[0] != jobs2[1]:
                    jobs2[0], jobs2[1] = jobs2[1], jobs2[0]
                else:
                    jobs2 = jobs2 + [[([0], 2)]]
                    field = "add_job"
            lines.append(f"eqinst {inst_tokens(jobs)} ; {inst_tokens(jobs2)}")
            meta = {"kind": kind, "field": field}
        else:
            fam, jobs = gen.gen_instance(rng, max_jobs=3, max_ops=3)

            def hist(jobs):
                tr = gen.Tracker(jobs)
                h = []
                while not tr.done():
                    j, p, m = gen.gen_valid_request(rng, tr)
                    tr.take(j)
                    h += [j, p, jobs[j][p][0][0] if m == "none" else m]
                return h
            if rng.random() < 0.2:
                big = 10 ** rng.choice([9, 12, 15])      # large durations: start times that differ by one unit at 10^9+
                jobs = [[(ms, d + big) for ms, d in job] for job in jobs]
            h1 = hist(jobs)
            jobs2, h2 = copy.deepcopy(jobs), list(h1)
            field = "none"
            if not same:
                field = rng.choice(["other_history", "prefix", "dur", "dur_unscheduled", "dur_unscheduled", "extended", "extended"])
                if field == "other_history":
                    h2 = hist(jobs)
                elif field == "prefix":
                    h2 = h1[:-3]
                elif field == "extended":
                    # a COMPLETE schedule of one instance and the same history on an instance that has more to do (one more job, or
                    # one more operation at the end of the last job): the same lists, another problem - compared both ways
                    if rng.random() < 0.5:
                        jobs2.append([([0], rng.randint(1, 4))])
                    else:
                        jobs2[-1] = jobs2[-1] + [([0], rng.randint(1, 4))]
                elif field == "dur_unscheduled":
                    # the same PARTIAL (possibly empty) history on two instances that differ in an operation not scheduled yet
                    keep = rng.randint(0, max(0, len(h1) // 3 - 1))
                    h1 = h1[:3 * keep]
                    h2 = list(h1)
                    done = {(h1[k], h1[k + 1]) for k in range(0, len(h1), 3)}
                    rest = [(j, p) for j, job in enumerate(jobs2) for p in range(len(job)) if (j, p) not in done]
                    j, p = rng.choice(rest)
                    jobs2[j][p] = (jobs2[j][p][0], jobs2[j][p][1] + rng.choice([1, 2]))
                else:
                    j = rng.randrange(len(jobs2))
                    p = rng.randrange(len(jobs2[j]))
                    jobs2[j][p] = (jobs2[j][p][0], jobs2[j][p][1] + (HASH_MOD if rng.random() < 0.3 else 1))
            lines.append(f"eqsched {inst_tokens(jobs)} ; {' '.join(map(str, h1))} ; {inst_tokens(jobs2)} ; "
                         f"{' '.join(map(str, h2))}")
            # same machine orders, start times shifted (a schedule with idle time at the front)
            lines.append(f"eqshift {inst_tokens(jobs)} ; {' '.join(map(str, h1))} ; {rng.choice([0, 1, 1, 2, 5])}")
            meta = {"kind": kind, "field": field}
        lines.append("mark other")
        return Scenario(lines, meta)

    def nontrivial(self, scenario, outs):
        return True

    def oracle(self, impl, scenario, index, line, out, ctx):
        res = []
        cmd = line.split()[0]
        if cmd in ("eqop", "eqsop", "eqinst", "eqsched", "eqshift"):
            x, y = impl.last_pair
            content = lambda o: self.content(o)  # noqa: E731
            same = content(x) == content(y)
            eq = x == y
            if eq != same:
                res.append(("eq-content", f"`{line}`: == is {eq} but content equality is {same}"))
            if (x != y) == eq:
                res.append(("ne", f"`{line}`: != is not the negation of =="))
            if (y == x) != eq:
                res.append(("symmetry", f"`{line}`: a == b is {eq} but b == a is {y == x}"))
            if eq:
                # equal objects hash equally - for every kind that can be hashed at all
                try:
                    hx, hy = hash(x), hash(y)
                except TypeError:
                    hx = hy = None
                if hx != hy:
                    res.append(("hash", f"`{line}`: two equal {type(x).__name__} objects hash differently (one is not found in a set of the other)"))
            if not (x == x and y == y):
                res.append(("reflexive", f"`{line}`: an object is not equal to itself"))
            x2 = copy.deepcopy(x)
            if not (x2 == x):
                res.append(("copy", f"`{line}`: an independently built copy is not equal"))
            if cmd == "eqop" and eq and hash(x) != hash(y):
                res.append(("hash", f"`{line}`: equal operations hash differently"))
            ctx["pair"] = (x, y)
        elif line.startswith("mark rawinst"):
            # instances whose operations carry no labels (set_operation_attributes=False) or that have an empty job:
            # the job structure is part of the content
            import jsl
            r = random.Random(int(line.split()[2]))
            ops = lambda n: [jsl.Operation(r.randrange(3), r.randint(1, 5)) for _ in range(n)]  # noqa: E731
            spec = ops(r.randint(2, 4))
            clone = lambda l: [jsl.Operation(list(o.machines), o.duration) for o in l]  # noqa: E731
            k = r.randint(1, len(spec) - 1)
            pairs = [
                ("one job vs the same operations split into two jobs (no labels)",
                 jsl.JobShopInstance([clone(spec)], set_operation_attributes=False),
                 jsl.JobShopInstance([clone(spec)[:k], clone(spec)[k:]], set_operation_attributes=False), False),
                ("same jobs, no labels", jsl.JobShopInstance([clone(spec)[:k], clone(spec)[k:]], set_operation_attributes=False),
                 jsl.JobShopInstance([clone(spec)[:k], clone(spec)[k:]], set_operation_attributes=False), True),
                ("trailing empty job", jsl.JobShopInstance([clone(spec), []]), jsl.JobShopInstance([clone(spec)]), False),
                ("empty job in the middle", jsl.JobShopInstance([clone(spec)[:k], [], clone(spec)[k:]]),
                 jsl.JobShopInstance([clone(spec)[:k], clone(spec)[k:]]), False),
            ]
            for what, a, b, want in pairs:
                if (a == b) != want or (b == a) != want or (a != b) == want:
                    res.append(("eq-structure", f"instances ({what}): == is {a == b}, content equality is {want}"))
            # operations that were hashed (used as dict keys / set members) BEFORE an instance gave them their labels, or that
            # move on to a second instance which labels them anew: equal operations still hash equally
            a0, a1 = jsl.Operation(0, 5), jsl.Operation(r.randrange(3), r.randint(1, 5))
            seen = {a0: "x", a1: "y"}                  # hashed while unattached
            inst_a = jsl.JobShopInstance([[jsl.Operation(1, 1)], [a0, a1]])
            inst_b = jsl.JobShopInstance([[jsl.Operation(1, 1)], [jsl.Operation(0, 5), jsl.Operation(list(a1.machines), a1.duration)]])
            for x, y in zip((o for job in inst_a.jobs for o in job), (o for job in inst_b.jobs for o in job)):
                if x == y and hash(x) != hash(y):
                    res.append(("hash", f"operation {x.operation_id} (hashed before it was attached to its instance) equals an "
                                "independently built operation but hashes differently"))
                if not (x == y):
                    res.append(("eq-content", f"operation {x.operation_id}: independently built operations with the same content differ"))
            inst_c = jsl.JobShopInstance([[a1, a0]])      # the same objects relabelled by a second instance
            inst_d = jsl.JobShopInstance([[jsl.Operation(list(a1.machines), a1.duration), jsl.Operation(0, 5)]])
            for x, y in zip(inst_c.jobs[0], inst_d.jobs[0]):
                if x == y and hash(x) != hash(y):
                    res.append(("hash", f"operation {x.operation_id} (relabelled by a second instance after it was hashed) equals an "
                                "independently built operation but hashes differently"))
            del seen
            # schedules of an instance without labels (every operation keeps the default ids): start times and machine
            # assignment are content all the same
            def raw_schedule(shift, swap):
                a, b, c2 = jsl.Operation([0, 1], 1), jsl.Operation(0, 2), jsl.Operation(1, 3)
                inst = jsl.JobShopInstance([[a], [b, c2]], set_operation_attributes=False)
                m_a = 1 if swap else 0
                lists = [[], []]
                lists[m_a].append(jsl.ScheduledOperation(a, shift, m_a))
                lists[0].append(jsl.ScheduledOperation(b, 5, 0))
                lists[1].append(jsl.ScheduledOperation(c2, 7, 1))
                return jsl.Schedule(inst, lists)
            sh = r.randint(1, 3)
            for what, a, b, want in [("same content", raw_schedule(0, False), raw_schedule(0, False), True),
                                     ("start time of one operation differs", raw_schedule(0, False), raw_schedule(sh, False), False),
                                     ("machine assignment of one operation differs", raw_schedule(0, False), raw_schedule(0, True), False)]:
                if (a == b) != want or (b == a) != want or (a != b) == want:
                    res.append(("eq-raw-schedule", f"schedules of an instance built with set_operation_attributes=False ({what}): "
                                f"== is {a == b}, content equality is {want}"))
            # user subclasses of Operation that declare their own __slots__ (a due date, say): machines, duration and
            # position are still part of the content

            class DueOperation(jsl.Operation):
                __slots__ = ("due",)

                def __init__(self, machines, duration, due):
                    super().__init__(machines, duration)
                    self.due = due
            x, y, z = DueOperation(0, 5, 1), DueOperation(r.randint(1, 2), 5 + r.randint(0, 1), 1), DueOperation(0, 5, 1)
            w = DueOperation(0, 5, 2)
            for what, a, b, want in [("different machines/durations, same due date", x, y, False),
                                     ("same content", x, z, True), ("different due date only", x, w, False)]:
                if (a == b) != want or (b == a) != want or (a != b) == want:
                    res.append(("eq-subclass", f"operations of a subclass with its own __slots__ ({what}): == is {a == b}, "
                                f"content equality is {want}"))
            if hash(x) != hash(z):
                res.append(("hash", "equal operations of a subclass hash differently"))

            # a user subclass of ScheduledOperation that declares slots of its own (a label): operation, start time and machine are
            # still what equality is about
            class LabelledScheduledOperation(jsl.ScheduledOperation):
                __slots__ = ("label",)

                def __init__(self, operation, start_time, machine_id, label):
                    super().__init__(operation, start_time, machine_id)
                    self.label = label
            base_op = jsl.Operation([0, 1], 4)
            other_op = jsl.Operation([0, 1], 6)
            l0 = LabelledScheduledOperation(base_op, 3, 0, "a")
            for what, cand, want in [("same content", LabelledScheduledOperation(base_op, 3, 0, "a"), True),
                                     ("another start time", LabelledScheduledOperation(base_op, 3 + r.randint(1, 5), 0, "a"), False),
                                     ("another machine", LabelledScheduledOperation(base_op, 3, 1, "a"), False),
                                     ("another operation", LabelledScheduledOperation(other_op, 3, 0, "a"), False)]:
                if (l0 == cand) != want or (cand == l0) != want:
                    res.append(("eq-subclass", f"scheduled operations of a subclass with its own __slots__ ({what}): == is {l0 == cand}, "
                                f"content equality is {want}"))
            # a subclass WITHOUT __slots__ that sets an optional attribute only when it is given: == says the same both ways
            class OptOperation(jsl.Operation):
                def __init__(self, machines, duration, due_date=None, note=None):
                    super().__init__(machines, duration)
                    if due_date is not None:
                        self.due_date = due_date
                    if note is not None:
                        self.note = note
            oa, ob, oc = OptOperation(0, 5, due_date=3), OptOperation(0, 5), OptOperation(0, 5, note="x")
            for a_, b_ in ((oa, ob), (ob, oc), (oa, oc)):
                if (a_ == b_) != (b_ == a_):
                    res.append(("symmetry", "operations of a subclass without __slots__ (an optional attribute set on one of them only): "
                                f"a == b is {a_ == b_}, b == a is {b_ == a_}"))
                    break
            i_a = jsl.JobShopInstance([[oa]], set_operation_attributes=False)
            i_b = jsl.JobShopInstance([[ob]], set_operation_attributes=False)
            if (i_a == i_b) != (i_b == i_a):
                res.append(("symmetry", "instances holding such operations: a == b and b == a differ"))
            # a subclass that adds behaviour but no data, next to a plain operation with the same content: whatever == says, it says
            # it both ways, and if they are equal they hash equally (and find each other in a dictionary)
            class TimedOperation(jsl.Operation):
                __slots__ = ()

                def slack(self, now):
                    return now - self.duration
            dd = 5 + r.randint(0, 3)
            plain, timed = jsl.Operation(r.randint(0, 1), dd), TimedOperation(0, dd)
            for o in (plain, timed):
                o.job_id, o.position_in_job, o.operation_id = 1, 2, 7
            same = plain.machines == timed.machines
            if (plain == timed) != (timed == plain):
                res.append(("eq-subclass", f"plain operation vs data-less subclass: == is {plain == timed} one way, {timed == plain} the other"))
            elif (plain == timed) and not same:
                res.append(("eq-subclass", "plain operation vs data-less subclass with other machines: =="))
            elif plain == timed and (hash(plain) != hash(timed) or {plain: 1}.get(timed) != 1):
                res.append(("hash", "a plain operation and an operation of a data-less subclass are equal but hash differently"))
        elif line == "mark other" and "pair" in ctx:
            x, y = ctx["pair"]
            for other in (None, 0, "x", (1, 2), [x], object()):
                if x == other:
                    res.append(("foreign", f"{type(x).__name__} compares equal to {other!r}"))
            # across the library's own kinds (a scheduled operation and its operation, a schedule and its instance, ...): whatever ==
            # says it says both ways, and two objects of one kind that differ are not both equal to a third
            import jsl
            parts = []
            for o in (x, y):
                parts.append(o)
                if isinstance(o, jsl.ScheduledOperation):
                    parts.append(o.operation)
                if isinstance(o, jsl.Schedule):
                    parts += [o.instance] + [sop for ms in o.schedule for sop in ms][:2]
                if isinstance(o, jsl.JobShopInstance) and o.jobs and o.jobs[0]:
                    parts.append(o.jobs[0][0])
            for a in parts:
                for b in parts:
                    if type(a) is type(b):
                        continue
                    try:
                        ab, ba = a == b, b == a
                    except Exception as e:  # pylint: disable=broad-except
                        res.append(("foreign", f"comparing a {type(a).__name__} with a {type(b).__name__} raised {type(e).__name__}"))
                        continue
                    if ab != ba:
                        res.append(("symmetry", f"{type(a).__name__} == {type(b).__name__} is {ab}, the other way round {ba}"))
                    for c in parts:
                        if type(c) is type(a) and ab and (c == b) and self.content(a) != self.content(c):
                            res.append(("transitivity", f"two different {type(a).__name__}s are both equal to one {type(b).__name__}"))
            res = res[:3]
        return res

    def content(self, o):
        import jsl
        if isinstance(o, jsl.Operation):
            return ("op", tuple(o.machines), o.duration, o.job_id, o.position_in_job, o.operation_id)
        if isinstance(o, jsl.ScheduledOperation):
            return ("sop", self.content(o.operation), o.start_time, o.machine_id)
        if isinstance(o, jsl.JobShopInstance):
            return ("inst", tuple(tuple(self.content(op) for op in job) for job in o.jobs))
        if isinstance(o, jsl.Schedule):
            # (a schedule belongs to an instance: partial - or empty - schedules of instances that differ are different schedules)
            return ("sched", self.content(o.instance), tuple(tuple(self.content(x) for x in ms) for ms in o.schedule))
        raise TypeError(o)

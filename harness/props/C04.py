"""C04 — dispatching-rule solvers always finish and follow their rule."""
import random

import gen
import oracles
import slices
from framework import PropertyCheck, Scenario
from impl import instance_line

RULES = ["spt", "fcfs", "mwkr", "mor", "random", "omwkr", "sb:spt", "sb:fcfs", "sb:mwkr", "sb:mor"]
SCORES = ["spt", "fcfs", "mwkr", "mor"]


class Check(PropertyCheck):
    ID = "C04"
    LEAN_MODULE = "JobShopProofs.ObserverScore"
    THEOREMS = ["JS.C04_terminates", "JS.C04_selected_available", "JS.C04_selected_best", "JS.C04_mwkr_agree",
                "JS.C04_tiebreak_available", "JS.C04_tiebreak_lex", "JS.C04_elapsed_nonneg",
                "JS.C04_observer_scores_world", "JS.C04_late_observers", "JS.C04_late_observers_stay", "JS.C04_late_observers_reached"]
    RULE = ("random instance (10 families incl. flexible, zero durations) x every built-in rule (5 direct rules, the "
            "observer-based MWKR, score_based_rule over 4 scoring functions, tie-breaker rules over random lists of scoring "
            "functions) x chooser (first, random) x filter configuration; DispatchingRuleSolver.solve run with the rule and "
            "chooser wrapped to log every selection, random.choice scripted by a draw stream shared with the model; "
            "selections, machines and final makespan compared with the Lean model; additionally each rule and each score "
            "list is evaluated in the states of a random history (observer-based rule first invoked mid-history); oracle: "
            "selected operation is available and optimal for the documented key recomputed from the schedule, direct and "
            "observer-based MWKR agree, final schedule complete and feasible, elapsed_time >= 0 and solved_by = class name; "
            "non-trivial = solve of an instance with >=4 operations or a history with >=3 accepted dispatches")
    ASSUMPTIONS = ["instances are valid", "random.choice is modelled as seq[draw % len(seq)] over a scripted draw stream",
                   "time.perf_counter is monotone (two scripted readings)"]
    QUICK_N = 250

    def make_impl(self, scenario):
        from impl_ext import ImplRules
        return ImplRules(scenario.meta.get("filter_style", "callable"))

    def generate(self, rng, n, tier):
        for i in range(n):
            if i % 30 == 21:
                yield Scenario(["new", f"mark staleobs {rng.randint(0, 10**6)}"], {"family": "staleobs", "accepted": 3, "kind": "solve", "ops": 6})
                continue
            if i % 30 == 11:
                yield Scenario(["new", f"mark presolve {rng.randint(0, 10**6)}"], {"family": "presolve", "accepted": 3, "kind": "solve", "ops": 6})
                continue
            if i == 3:
                yield Scenario(["new", f"mark float32 {rng.randint(0, 10**6)}"], {"family": "float32", "accepted": 3, "kind": "solve", "ops": 6})
                continue
            if i % 25 == 17:
                yield Scenario(["new", f"mark gcloop {rng.randint(0, 10**6)}"], {"family": "gcloop", "accepted": 3, "kind": "solve", "ops": 6})
                continue
            yield self.scenario(rng, tier, i)

    def gc_loop_oracle(self, seed):
        """A generate / solve / discard loop (instances of the same shape, other durations, each garbage before the next exists): at
        every step the direct rules select an operation that is best by THEIR criterion on THE instance at hand."""
        import gc
        import jsl
        from impl import build_instance
        from job_shop_lib.dispatching.rules import dispatching_rule_factory
        r = random.Random(seed)
        J, P, M = r.randint(2, 4), r.randint(2, 3), r.randint(2, 3)
        route = [[r.randrange(M) for _ in range(P)] for _ in range(J)]
        names = {"mwkr": "most_work_remaining", "spt": "shortest_processing_time", "mor": "most_operations_remaining"}
        res = []
        for it in range(8):
            jobs = [[([route[j][p]], r.randint(1, 9)) for p in range(P)] for j in range(J)]
            inst = build_instance(jobs)
            d = jsl.Dispatcher(inst)
            token = r.choice(["mwkr", "mwkr", "spt", "mor"])
            rule = dispatching_rule_factory(names[token])
            while not d.schedule.is_complete():
                op = rule(d)
                res += self.check_selection(token, inst, d.schedule.schedule, None, op.operation_id,
                                            f"loop iteration {it}, rule {token} on instance {jobs}")
                if res:
                    return res
                d.dispatch(op, op.machines[0])
            del inst, d, rule
            gc.collect()
        return res

    def rule_token(self, rng):
        if getattr(self, "_exact_only", False):
            if rng.random() < 0.4:
                # (the DIRECT most-work-remaining rule adds up integer durations: exact at any magnitude, unlike its observer-based twin)
                return rng.choice(["spt", "fcfs", "mor", "mwkr", "mwkr", "sb:spt", "sb:fcfs"])
            return "tb:" + ",".join(rng.choice(["spt", "fcfs", "mor"]) for _ in range(rng.randint(1, 3)))
        r = rng.random()
        if r < 0.7:
            return rng.choice(RULES)
        k = rng.randint(0, 3)
        return "tb:" + ",".join(rng.choice(SCORES) for _ in range(k))

    def scenario(self, rng: random.Random, tier, i) -> Scenario:
        family, jobs = gen.gen_instance(rng, max_jobs=4 if tier == "quick" else 5, max_ops=4)
        f = gen.gen_filter(rng)
        if rng.random() < 0.2:
            # the solver's own default filter on small instances with zero durations and repeated machines within a job
            J, M = rng.randint(2, 3), rng.randint(2, 3)
            jobs = []
            for _ in range(J):
                m = rng.randrange(M)
                job = []
                for _ in range(rng.randint(1, 3)):
                    if rng.random() < 0.5:
                        m = rng.randrange(M)
                    job.append(([m], rng.choice([0, 0, 1, 3])))
                jobs.append(job)
            family, f = "zero_chain", ["dom", "nidle"]
        elif rng.random() < 0.15:
            # many jobs (ids beyond 8: hash order of a Python set of ints no longer is numeric order) with tiny
            # duration ranges: ties between jobs far apart
            J, M = rng.randint(9, 14), rng.randint(2, 4)
            jobs = [[([rng.randrange(M)], rng.randint(1, 2)) for _ in range(rng.randint(1, 2))] for _ in range(J)]
            family = "many_jobs_ties"
            f = gen.gen_filter(rng)
        exact_only = False
        if rng.random() < 0.08:
            # scores of magnitude 10^9..10^15 that differ by a few units: comparisons are exact integer comparisons
            # (rules that read the float32 feature observers are left out: float32 is exact below 2^24 only)
            big = rng.choice([10 ** 9, 10 ** 12, 10 ** 15, 2 ** 53, 2 ** 60])
            if big >= 2 ** 53:
                # beyond the exact range of doubles: some operations huge, some ordinary (times 2**53 + small must stay exact);
                # the solver's default filter (dominated operations + non-idle machines) most of the time
                jobs = [[(ms, big + d if rng.random() < 0.5 else d) for ms, d in job] for job in jobs]
                if rng.random() < 0.7 and not gen.has_zero(jobs):
                    f = ["dom", "nidle"]
            else:
                jobs = [[(ms, big + d) for ms, d in job] for job in jobs]
            family += "+near_huge"
            exact_only = True
        lines = ["new", instance_line(jobs), gen.filter_line(f)]
        kind = "solve" if i % 2 == 0 else "states"
        self._exact_only = exact_only
        n_acc = 0
        if kind == "solve":
            # one in four: the observer-based rule (a module-level object with its own cached observers) solves the
            # same instance object several times in a row, each time on a new dispatcher
            repeat_obs = rng.random() < 0.25 and not exact_only
            for _ in range(rng.randint(2, 3) if repeat_obs else rng.randint(1, 3)):
                rule = rng.choice(["omwkr", "omwkr", "sb:mwkr"]) if repeat_obs else self.rule_token(rng)
                ch = rng.choice(["first", "random"])
                draws = [rng.randint(0, 20) for _ in range(2 * gen.num_ops(jobs))]
                lines.append(f"solve {rule} {ch} " + " ".join(map(str, draws)))
            t0 = rng.randint(0, 1000)
            lines.append(f"elapsed {t0} {t0 + rng.randint(0, 50)}")
        else:
            tr = gen.Tracker(jobs)
            late = rng.random() < 0.5   # observer-based rule first used mid-history
            start_obs = rng.randint(0, gen.num_ops(jobs) - 1) if late else 0
            while not tr.done():
                for _ in range(rng.randint(1, 3)):
                    rule = self.rule_token(rng)
                    if rule in ("omwkr", "sb:mwkr") or "mwkr" in rule and rule.startswith("tb:"):
                        if n_acc < start_obs:
                            continue
                    lines.append(f"rule {rule} {rng.randint(0, 20)}")
                if n_acc >= start_obs and rng.random() < 0.5 and not exact_only:
                    lines.append("rule mwkr")
                    lines.append("rule omwkr")
                if rng.random() < 0.4 and not exact_only:
                    fn = rng.choice(SCORES)
                    if fn != "mwkr" or n_acc >= start_obs:
                        lines.append("scores " + fn)
                j, p, m = gen.gen_valid_request(rng, tr)
                tr.take(j)
                n_acc += 1
                lines.append(f"disp {j} {p} {m}")
            if late and not exact_only and rng.random() < 0.6:
                # the dispatcher (with the observers the scorer created in mid-episode) is reset and used again
                lines.append("reset")
                tr.reset()
                while not tr.done():
                    if rng.random() < 0.7:
                        lines.append("rule mwkr")
                        lines.append("rule omwkr")
                    j, p, m = gen.gen_valid_request(rng, tr)
                    tr.take(j)
                    lines.append(f"disp {j} {p} {m}")
        meta = {"family": family, "filter": "none" if f is None else "+".join(f) or "empty-composite", "kind": kind,
                "flexible": gen.is_flexible(jobs), "zero_dur": gen.has_zero(jobs), "ops": gen.num_ops(jobs),
                "accepted": n_acc, "filter_style": rng.choice(["callable", "enum", "str"])}
        return Scenario(lines, meta)

    def nontrivial(self, scenario, outs):
        m = scenario.meta
        return (m["kind"] == "solve" and m["ops"] >= 4) or m.get("accepted", 0) >= 3

    # ---- oracle
    def key_of(self, rule, v, ft, op):
        if rule == "spt":
            return -op.duration
        if rule == "fcfs":
            return -op.position_in_job
        if rule in ("mwkr", "omwkr", "sb:mwkr"):
            return sum(o.duration for o in v.unscheduled() if o.job_id == op.job_id)
        if rule in ("mor", "sb:mor"):
            ongoing = {x.operation.operation_id for x in v.ongoing(ft)}
            un = sum(1 for o in v.unscheduled() if o.job_id == op.job_id)
            og = sum(1 for o in v.scheduled() if o.job_id == op.job_id and o.operation_id in ongoing)
            return un + og
        if rule == "sb:spt":
            return -op.duration
        if rule == "sb:fcfs":
            return op.operation_id
        return None

    def check_selection(self, rule, instance, dispatcher_lists, ft, sel_id, line):
        res = []
        v = oracles.View(instance, dispatcher_lists)
        avail = v.available(ft)
        ids = [o.operation_id for o in avail]
        if sel_id not in ids:
            res.append(("not-available", f"`{line}`: selected operation {sel_id} is not among the available {ids}"))
            return res
        sel = next(o for o in avail if o.operation_id == sel_id)
        k = self.key_of(rule, v, ft, sel)
        if k is not None:
            best = max(self.key_of(rule, v, ft, o) for o in avail)
            if k != best:
                res.append(("not-best", f"`{line}`: selected operation {sel_id} has key {k} under rule {rule}, but an "
                            f"available operation has key {best}"))
        if rule.startswith("tb:"):
            fns = [t for t in rule[3:].split(",") if t]
            vec = lambda o: tuple(self.key_of("sb:" + fn if fn in ("spt", "fcfs") else fn, v, ft, o) for fn in fns)  # noqa: E731
            if fns and vec(sel) != max(vec(o) for o in avail):
                res.append(("not-lex-best", f"`{line}`: selected {sel_id} has score vector {vec(sel)}, lexicographic "
                            f"maximum over the available operations is {max(vec(o) for o in avail)}"))
        return res

    def oracle(self, impl, scenario, index, line, out, ctx):
        res = []
        ts = line.split()
        if line.startswith("mark float32"):
            # job work sums beyond 2**24: the observer-based rule reads float32 features, the direct rule adds up integers
            import jsl
            from impl import build_instance
            from job_shop_lib.dispatching.rules import most_work_remaining_rule, observer_based_most_work_remaining_rule
            r = random.Random(int(line.split()[2]))
            base = 2 ** r.choice([24, 25])
            jobs = [[([0], base)], [([1], base + 1)]]
            inst = build_instance(jobs)
            d = jsl.Dispatcher(inst)
            a, b = most_work_remaining_rule(d), observer_based_most_work_remaining_rule(d)
            if a.operation_id != b.operation_id:
                return [("mwkr-float32", f"instance {jobs}: the direct most-work-remaining rule selects operation {a.operation_id} (job work "
                         f"{base + 1} > {base}), the observer-based rule selects operation {b.operation_id} (both are {float(base)} in float32: "
                         f"the first one wins)")]
            return []
        if line.startswith("mark staleobs"):
            # the observers an observer-based rule created are unsubscribed by the caller (they are the caller's dispatcher's observers);
            # a NEW scorer used later on the same dispatcher gets observers that are notified - its choice is the direct rule's
            import jsl as _jsl
            from impl import build_instance
            from job_shop_lib.dispatching.rules import (most_work_remaining_rule, observer_based_most_work_remaining_rule,
                                                        MostWorkRemainingScorer, score_based_rule)
            from job_shop_lib.dispatching.feature_observers import DurationObserver, IsReadyObserver
            r = random.Random(int(line.split()[2]))
            _, jobs_ = gen.gen_instance(r, r.choice(["classic", "irregular", "recirc"]), max_jobs=4, max_machines=3, max_ops=3)
            jobs_ = [[(ms, max(1, dd)) for ms, dd in job] for job in jobs_]
            inst_ = build_instance(jobs_)
            d_ = _jsl.Dispatcher(inst_)
            if r.random() < 0.5:
                # observers of the caller's that track OTHER feature types than the rule needs are already there: the rule gets its own
                from job_shop_lib.dispatching.feature_observers import FeatureType as _FT
                DurationObserver(d_, feature_types=[_FT.OPERATIONS])
                IsReadyObserver(d_, feature_types=[_FT.OPERATIONS, _FT.MACHINES])
                try:
                    got0, want0 = observer_based_most_work_remaining_rule(d_), most_work_remaining_rule(d_)
                except Exception as e:  # pylint: disable=broad-except
                    return [("mwkr-disagree", f"the observer-based most-work-remaining rule raised {type(e).__name__}({e}) on a dispatcher that "
                             f"already has a DurationObserver / IsReadyObserver without job features (instance {jobs_})")]
                if got0.operation_id != want0.operation_id:
                    return [("mwkr-disagree", f"observer-based rule selects {got0.operation_id}, direct rule {want0.operation_id} on a dispatcher "
                             f"with caller's observers lacking job features")]
            first = observer_based_most_work_remaining_rule(d_)
            d_.dispatch(first, first.machines[0])
            for sub in list(d_.subscribers):
                if isinstance(sub, (DurationObserver, IsReadyObserver)):
                    d_.unsubscribe(sub)
            out_ = []
            while not d_.schedule.is_complete():
                want = most_work_remaining_rule(d_)
                got = score_based_rule(MostWorkRemainingScorer())(d_)
                if got.operation_id != want.operation_id:
                    # (ties are broken the same way by both: the first available operation with the best score)
                    out_.append(("mwkr-disagree", f"a fresh observer-based most-work-remaining scorer on a dispatcher whose earlier scorer's "
                                 f"observers were unsubscribed selects operation {got.operation_id}, the direct rule operation "
                                 f"{want.operation_id} (instance {jobs_}, {d_.schedule.num_scheduled_operations} operations scheduled)"))
                    break
                d_.dispatch(want, want.machines[0])
            return out_
        if line.startswith("mark presolve"):
            # the documented second argument: `solve(instance, dispatcher)` on a dispatcher the caller prepared - fresh, or already
            # some steps into an episode (operations still running): the solver finishes THAT episode
            import jsl as _jsl
            from impl import build_instance
            from job_shop_lib.dispatching.rules import DispatchingRuleSolver
            r = random.Random(int(line.split()[2]))
            _, jobs_ = gen.gen_instance(r, r.choice(["classic", "irregular", "recirc", "flexible", "ties"]), max_jobs=4, max_machines=3, max_ops=3)
            jobs_ = [[(ms, max(1, dd)) for ms, dd in job] for job in jobs_]
            inst_ = build_instance(jobs_)
            rule = r.choice(["most_work_remaining", "shortest_processing_time", "first_come_first_served", "most_operations_remaining"])
            solver = DispatchingRuleSolver(dispatching_rule=rule, machine_chooser=r.choice(["first", "random"]))
            d_ = _jsl.Dispatcher(inst_, ready_operations_filter=solver.ready_operations_filter)
            k = r.randint(0, max(0, gen.num_ops(jobs_) - 1))
            try:
                for _ in range(k):
                    solver.step(d_)
                before = [[(x.operation.operation_id, x.start_time, x.machine_id) for x in ms] for ms in d_.schedule.schedule]
                sched = solver.solve(inst_, d_)
            except Exception as e:  # pylint: disable=broad-except
                return [("solve-raised", f"solve(instance, dispatcher) on a dispatcher {k} steps into its episode (rule {rule}) raised {e!r} "
                         f"(instance {jobs_})")]
            out_ = []
            if not sched.is_complete() or oracles.feasible(inst_, sched.schedule):
                out_.append(("incomplete", f"solve(instance, dispatcher) after {k} prepared steps: complete={sched.is_complete()}, "
                             f"problems {oracles.feasible(inst_, sched.schedule)[:2]}"))
            after = [[(x.operation.operation_id, x.start_time, x.machine_id) for x in ms] for ms in sched.schedule]
            if any(a[:len(b)] != b for a, b in zip(after, before)):
                out_.append(("prefix-changed", "solve(instance, dispatcher) changed what the prepared dispatcher had already scheduled"))
            return out_
        if line.startswith("mark gcloop"):
            return self.gc_loop_oracle(int(ts[2]))
        if ts[0] == "rule":
            if out == "raise":
                v = oracles.View(impl.instance, impl.dispatcher.schedule.schedule)
                if v.available(impl.filter_tokens):
                    res.append(("rule-raised", f"`{line}` raised although operations are available"))
                return res
            res += self.check_selection(ts[1], impl.instance, impl.dispatcher.schedule.schedule, impl.filter_tokens,
                                        int(out), line)
            if ts[1] in ("mwkr", "omwkr"):
                prev = ctx.get("mwkr_pair")
                if prev and prev[0] == index - 1 and prev[1] != out:
                    res.append(("mwkr-disagree", f"direct rule selected {prev[1]}, observer-based rule {out} in the same state"))
                ctx["mwkr_pair"] = (index, out)
        elif ts[0] == "solve":
            if out == "raise":
                res.append(("solve-raised", f"`{' '.join(ts[:3])}` raised"))
                return res
            sched = impl.last_schedule
            for e in oracles.feasible(impl.instance, sched.schedule):
                res.append(("infeasible", f"`{' '.join(ts[:3])}`: {e}"))
            if not sched.is_complete() or sum(len(ms) for ms in sched.schedule) != impl.instance.num_operations:
                res.append(("incomplete", f"`{' '.join(ts[:3])}` returned an incomplete schedule"))
            # re-walk the logged selections against the schedule prefix at that step
            import jsl
            d = jsl.Dispatcher(impl.instance)
            sel = [tok.split(":") for tok in out.split(";")[0].split()[1:]]
            for (oid, m) in sel:
                res += self.check_selection(ts[1], impl.instance, d.schedule.schedule, impl.filter_tokens, int(oid),
                                            f"{' '.join(ts[:3])} at step selecting {oid}")
                if res:
                    break
                d.dispatch(impl.op(int(oid)), int(m))
        elif ts[0] == "elapsed":
            sched = impl.last_schedule
            if not sched.metadata["elapsed_time"] >= 0:
                res.append(("elapsed", f"elapsed_time = {sched.metadata['elapsed_time']} < 0"))
            if sched.metadata.get("solved_by") != "DispatchingRuleSolver":
                res.append(("solved_by", f"solved_by = {sched.metadata.get('solved_by')!r}"))
            # a solver that gets its result by CALLING other solvers (best of several rules): the schedule it hands out is stamped
            # with ITS class name and ITS elapsed time (which covers the inner solvers' time)
            import time as _time
            from job_shop_lib.dispatching.rules import DispatchingRuleSolver

            class BestOfRulesSolver(DispatchingRuleSolver):
                def solve(self, instance, dispatcher=None):
                    cands = [DispatchingRuleSolver(dispatching_rule=r, ready_operations_filter=self.ready_operations_filter)(instance)
                             for r in ("most_work_remaining", "shortest_processing_time")]
                    return min(cands, key=lambda c: c.makespan())
            ticks = iter(range(0, 10 ** 6, 3))
            orig = _time.perf_counter
            _time.perf_counter = lambda: next(ticks)        # every reading 3 units after the previous one
            try:
                outer = BestOfRulesSolver(ready_operations_filter=impl._make_filter())(impl.instance)
            finally:
                _time.perf_counter = orig
            if outer.metadata.get("solved_by") != "BestOfRulesSolver":
                res.append(("solved_by", f"a BestOfRulesSolver (which calls two DispatchingRuleSolvers inside) handed out a schedule with "
                            f"solved_by = {outer.metadata.get('solved_by')!r}"))
            et = outer.metadata.get("elapsed_time")
            if et is None or et < 9:
                # the outer call spans both inner calls: at least their two start/stop pairs lie between its own readings
                res.append(("elapsed", f"the outer solver's elapsed_time is {et} although its call spanned two inner solver calls "
                            "(clock: +3 per reading, at least 3 readings inside)"))
        return res

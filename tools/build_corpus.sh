#!/bin/sh
# usage: build_corpus.sh <Cxx>   for every seeded change of the property: apply it in a scratch worktree, run the property's check there,
# keep the minimised failing input as corpus/<Cxx>/<seed>.json (scenario + meta).  Run for several properties in parallel, never twice for one.
P="$1"
WT=/tmp/corp_$P
git -C /repo worktree add --detach "$WT" HEAD -q || exit 2
mkdir -p /verif/corpus/$P
for D in /verif/seeded/${P}_*; do
  S=$(basename "$D")
  git -C "$WT" apply "$D/patch.diff" 2>/dev/null || { echo "$S: patch does not apply"; continue; }
  [ -f /verif/corpus/$P/$S.json ] && { git -C "$WT" checkout -- .; continue; }
  for SEED in 0 1 2 3 4 5 6 7; do
    rm -f /verif/replays/${P}_failing_input.json
    VERIF_SEED=$SEED VERIF_NO_SHRINK=1 VERIF_NO_CORPUS=1 VERIF_REPO="$WT" /verif/check $P > /tmp/corp_$S.log 2>&1; RC=$?
    [ $RC = 1 ] && [ -f /verif/replays/${P}_failing_input.json ] && break
  done
  if [ $RC = 1 ] && [ -f /verif/replays/${P}_failing_input.json ]; then
    /venv/bin/python - "$P" "$S" <<'PY'
import json, sys
p, s = sys.argv[1], sys.argv[2]
d = json.load(open(f"/verif/replays/{p}_failing_input.json"))
if isinstance(d, dict) and d.get("scenario"):
    json.dump({"seed": s, "site": d.get("site"), "lines": d["scenario"], "meta": d.get("scenario_meta", {})},
              open(f"/verif/corpus/{p}/{s}.json", "w"), indent=1)
    print(f"{s}: kept ({d.get('site')}, {len(d['scenario'])} lines)")
else:
    print(f"{s}: no scenario in replay")
PY
  else
    echo "$S: exit=$RC (no failing input)"
  fi
  git -C "$WT" checkout -- .
done
git -C /repo worktree remove --force "$WT"

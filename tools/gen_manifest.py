"""Regenerates MANIFEST.json from the check modules that exist under harness/props."""
import importlib
import json
import os
import sys

HERE = os.path.dirname(os.path.abspath(__file__))
VERIF = os.path.dirname(HERE)
sys.path.insert(0, os.path.join(VERIF, "harness"))
sys.path.insert(0, os.path.join(VERIF, "harness", "props"))

NOTES = json.load(open(os.path.join(HERE, "manifest_notes.json")))
props = [json.loads(l) for l in open(os.path.join(VERIF, "properties.jsonl"))]
checks = []
na = []
for p in props:
    pid = p["id"]
    path = os.path.join(VERIF, "harness", "props", pid + ".py")
    if not os.path.exists(path):
        na.append({"property_id": pid, "reason": NOTES.get(pid, {}).get(
            "na_reason", "not claimed yet: model, theorems and correspondence slice for this property are not built")})
        continue
    n = NOTES.get(pid, {})
    checks.append({
        "property_id": pid,
        "quick_cmd": f"./check {pid} --tier quick",
        "thorough_cmd": f"./check {pid} --tier thorough",
        "evidence_file": f"evidence/{pid}.json",
        "replay_cmd_template": f"./check {pid} --replay {{path}}",
        "engine": "lean-model+correspondence",
        "level_claimed": {
            "category": "proof",
            "text": n.get("text", ""),
            "design_ref": n.get("design_ref", "DESIGN.md §4 " + pid),
        },
        "level_note": n.get("note", ""),
        "technique": n.get("technique", "Lean 4 theorems over an executable model + differential correspondence check against /repo"),
    })
manifest = {
    "version": 1,
    "setup_cmd": "cd lean && lake build",
    "hooks": {
        "guard": "JOB_SHOP_LIB_VERIF",
        "enable": "no hooks: nothing in /repo is guarded; the harness drives the public API of the working tree in-process",
        "baseline_off_cmd": "cd /repo && /venv/bin/python -m pytest -ra -q -p no:cacheprovider --timeout=900 --continue-on-collection-errors",
        "source_commits": [],
        "add_only": True,
    },
    "engines": [{
        "name": "lean-model+correspondence",
        "path": "lean/ (model JobShopModel, proofs JobShopProofs, Driver.lean) + harness/",
        "serves_properties": [c["property_id"] for c in checks],
        "kind_free_text": "Lean 4 machine-checked theorems about a hand-written executable model; the model is tied to "
                          "/repo's working tree on every run by a differential correspondence check (line protocol, "
                          "compiled Lean driver vs the real Python objects) plus independent Python oracles that search "
                          "for a concrete failing input",
    }],
    "checks": checks,
    "notes": "See DESIGN.md. Exit 0 = held; exit 1 + VIOLATION line = violation (replay file under replays/); exit 2 = "
             "internal error. KNOWN_FINDINGS.txt lists recorded and fixed defects.",
    "not_applicable": na,
}
json.dump(manifest, open(os.path.join(VERIF, "MANIFEST.json"), "w"), indent=1)
print("checks:", [c["property_id"] for c in checks], "n/a:", len(na))

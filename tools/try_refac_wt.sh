#!/bin/sh
# usage: try_refac_wt.sh <patch.diff>   like try_refac.sh, but in a scratch worktree of /repo (VERIF_REPO): /repo itself is not touched
P="$1"; N=$(basename "$P" .diff); WT=/tmp/rf_$N
git -C /repo worktree add --detach "$WT" HEAD -q || exit 2
git -C "$WT" apply "$P" || { git -C /repo worktree remove --force "$WT"; exit 2; }
for i in 01 02 03 04 05 06 07 08 09 10 11 12 13 14 15 16 17 18 19 20; do echo "C$i"; done | \
  xargs -P 6 -L 1 sh -c 'VERIF_REPO='"$WT"' /verif/check $0 > /tmp/rf_'"$N"'_$0.log 2>&1; echo "$0 exit=$? $(grep -E "violated|VIOLATION" /tmp/rf_'"$N"'_$0.log | head -2 | tr "\n" " " | cut -c1-200)"' | grep -v "exit=0"
git -C /repo worktree remove --force "$WT"
echo "done $N"

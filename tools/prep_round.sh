#!/bin/sh
# usage: prep_round.sh <round> [Cxx …]   prepares, per property, a scratch worktree of /repo (/tmp/mut_<Cxx>_<round>) and an output directory
# (/tmp/mut_out/<Cxx>_<round>) holding the property's text and the list of changes already known for it (off limits for the sub-agent)
R="$1"; shift
IDS="${*:-C01 C02 C03 C04 C05 C06 C07 C08 C09 C10 C11 C12 C13 C14 C15 C16 C17 C18 C19 C20}"
for ID in $IDS; do
  WT=/tmp/mut_${ID}_$R; OUT=/tmp/mut_out/${ID}_$R
  rm -rf "$OUT"; mkdir -p "$OUT"
  git -C /repo worktree add --detach "$WT" HEAD -q || exit 2
  /venv/bin/python - "$ID" "$OUT" <<'PY'
import glob, json, re, sys
pid, out = sys.argv[1], sys.argv[2]
for l in open("/verif/properties.jsonl"):
    d = json.loads(l)
    if d["id"] == pid:
        open(out + "/property.txt", "w").write(f"{d['title']}\n\n{d['statement']}\n\nQuantifier: {d['quantifier']['text']}\n")
with open(out + "/offlimits.txt", "w") as fh:
    for p in sorted(glob.glob(f"/verif/seeded/{pid}_*/meta.json")):
        m = json.load(open(p))
        diff = open(p.replace("meta.json", "patch.diff")).read()
        files = sorted(set(re.findall(r"^\+\+\+ b/(\S+)", diff, re.M)))
        fh.write(f"* files {files}: {str(m.get('needs', ''))[:300]}\n\n")
PY
done

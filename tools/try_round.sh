#!/bin/sh
# usage: try_round.sh <round> [seed]   every seeded change of the round against its own property's check, each in a scratch worktree of
# /repo (VERIF_REPO), 5 at a time; worktrees are removed afterwards.  /repo itself is not touched.
R="$1"; S="${2:-0}"
for D in /verif/seeded/*_$R; do basename "$D"; done | xargs -P ${TRY_P:-5} -I{} sh -c '
  N={}; P="${N%%_*}"; WT=/tmp/tr_$N
  git -C /repo worktree add --detach "$WT" HEAD -q || exit 2
  git -C "$WT" apply /verif/seeded/$N/patch.diff || echo "$N: patch does not apply"
  VERIF_SEED='"$S"' VERIF_REPO="$WT" /verif/check $P > /tmp/tr_$N.log 2>&1; RC=$?
  echo "seed=$N check=$P exit=$RC :: $(grep -E "VIOLATION|violated" /tmp/tr_$N.log | tr "\n" " " | cut -c1-160)"
  git -C /repo worktree remove --force "$WT"'

#!/bin/sh
# usage: verify_seed_b.sh <Cxx> [suffix=b]   confirms a sub-agent's change in /tmp/mut_<Cxx>_<suffix>, stores it, removes the worktree
ID="$1"; SUF="${2:-b}"; NAME="${ID}_${SUF}"; WT=/tmp/mut_$NAME; OUT=/tmp/mut_out/$NAME
cp "$OUT/demo.py" "$WT/demo.py" || exit 2
/verif/tools/verify_seed.sh "$WT" "$NAME" "$ID"; RC=$?
if [ $RC = 0 ]; then
  /venv/bin/python - "$NAME" "$OUT" <<'PY'
import json, sys
name, out = sys.argv[1], sys.argv[2]
p = f"/verif/seeded/{name}/meta.json"
m = json.load(open(p))
try:
    m["needs"] = json.load(open(out + "/meta.json")).get("needs", "TODO")
except Exception as e:
    m["needs"] = "TODO"
json.dump(m, open(p, "w"), indent=1)
PY
fi
# (a change that could not be confirmed keeps its worktree and outputs for a second look; remove them by hand)
[ $RC = 0 ] && git -C /repo worktree remove --force "$WT" && rm -rf "$OUT"
exit $RC

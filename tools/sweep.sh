#!/bin/sh
# usage: sweep.sh <seed> [tier]   runs every check's command on /repo's working tree with VERIF_SEED=<seed>, 4 at a time; prints one line per check
S="$1"; T="${2:-quick}"
cd /verif || exit 2
for i in 01 02 03 04 05 06 07 08 09 10 11 12 13 14 15 16 17 18 19 20; do echo C$i; done | \
  xargs -P 4 -I{} sh -c "VERIF_SEED=$S VERIF_TIER=$T ./check {} --tier $T > /tmp/sweep_{}_$S.log 2>&1; echo {} exit=\$? \$(grep -c VIOLATION /tmp/sweep_{}_$S.log)"

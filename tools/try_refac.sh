#!/bin/sh
# usage: try_refac.sh <patch.diff>   applies a behaviour-preserving rewrite to /repo, runs ALL checks (quick), reverts; any alarm is a false alarm
P="$1"
git -C /repo apply "$P" || exit 2
for i in 01 02 03 04 05 06 07 08 09 10 11 12 13 14 15 16 17 18 19 20; do echo "C$i"; done | \
  xargs -P 10 -L 1 sh -c '/verif/check $0 > /tmp/refac_$0.log 2>&1; echo "$0 exit=$? $(grep -E "violated|VIOLATION" /tmp/refac_$0.log | head -2 | tr "\n" " " | cut -c1-260)"' | grep -v "exit=0"
git -C /repo checkout -- .
git -C /repo status --short | head -3
echo "done $P"

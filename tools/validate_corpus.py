"""Runs every corpus scenario on the CURRENT tree and reports the ones that fail there (a corpus entry must be silent on code where the
property holds).  With --prune the failing entries are deleted - only after making sure the failure is the entry's fault, not a bug in a check."""
import importlib
import json
import os
import sys

HERE = os.path.dirname(os.path.abspath(__file__))
VERIF = os.path.dirname(HERE)
sys.path.insert(0, os.path.join(VERIF, "harness"))
sys.path.insert(0, os.path.join(VERIF, "harness", "props"))
from framework import Scenario, load_known_findings  # noqa: E402

bad = 0

for pid in sorted(os.listdir(os.path.join(VERIF, "corpus"))):
    check = importlib.import_module(pid).Check()
    d = os.path.join(VERIF, "corpus", pid)
    for fn in sorted(os.listdir(d)):
        if not fn.endswith(".json"):
            continue
        payload = json.load(open(os.path.join(d, fn)))
        meta = dict(payload.get("meta", {}))
        meta["corpus"] = fn
        ofs, dfs, _ = check.evaluate([Scenario(list(payload["lines"]), meta)])
        # (failures that ARE a recorded open finding are the finding's business, not the entry's)
        known = {k["key"] for k in load_known_findings() if k["property"] == pid}
        ofs = [f for f in ofs if f.site not in known]
        if ofs or dfs:
            what = (ofs + dfs)[0]
            bad += 1
            if "--prune" in sys.argv:
                print(f"{pid}/{fn}: FAILS on the current tree ({what.kind}: {what.message[:120]}) -> removed")
                os.remove(os.path.join(d, fn))
            else:
                print(f"{pid}/{fn}: FAILS on the current tree ({what.kind}: {what.message[:120]})")
print("validated" if not bad else f"{bad} corpus entries fail on the current tree")
sys.exit(1 if bad and "--prune" not in sys.argv else 0)

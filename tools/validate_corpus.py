"""Runs every corpus scenario on the CURRENT tree; deletes the ones that fail there (a corpus entry must be silent on code where the property holds)."""
import importlib
import json
import os
import sys

HERE = os.path.dirname(os.path.abspath(__file__))
VERIF = os.path.dirname(HERE)
sys.path.insert(0, os.path.join(VERIF, "harness"))
sys.path.insert(0, os.path.join(VERIF, "harness", "props"))
from framework import Scenario  # noqa: E402

for pid in sorted(os.listdir(os.path.join(VERIF, "corpus"))):
    check = importlib.import_module(pid).Check()
    d = os.path.join(VERIF, "corpus", pid)
    for fn in sorted(os.listdir(d)):
        if not fn.endswith(".json"):
            continue
        payload = json.load(open(os.path.join(d, fn)))
        meta = dict(payload.get("meta", {}))
        meta["corpus"] = fn
        ofs, dfs, _ = check.evaluate([Scenario(list(payload["lines"]), meta)])
        if ofs or dfs:
            what = (ofs + dfs)[0]
            print(f"{pid}/{fn}: FAILS on the current tree ({what.kind}: {what.message[:120]}) -> removed")
            os.remove(os.path.join(d, fn))
print("validated")

#!/bin/sh
# usage: try_seed.sh <seed-name> <property...>   applies seeded/<name>/patch.diff to /repo, runs checks, reverts
NAME="$1"; shift
git -C /repo apply /verif/seeded/$NAME/patch.diff || exit 2
for P in "$@"; do
  /verif/check $P > /tmp/try_$NAME_$P.log 2>&1; RC=$?
  echo "seed=$NAME check=$P exit=$RC :: $(grep -E 'VIOLATION|violated' /tmp/try_$NAME_$P.log | tr '\n' ' ' | cut -c1-300)"
done
git -C /repo checkout -- .
git -C /repo status --short | head -3

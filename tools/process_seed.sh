#!/bin/sh
# usage: process_seed.sh <Cxx> <round>   verifies a sub-agent's change, stores it, runs the property's own check against it
ID="$1"; R="$2"
/verif/tools/verify_seed_b.sh "$ID" "$R" 2>&1 | tail -1
[ -d /verif/seeded/${ID}_${R} ] && /verif/tools/try_seed_wt.sh ${ID}_${R} $ID | grep seed=

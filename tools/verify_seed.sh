#!/bin/sh
# usage: verify_seed.sh <worktree> <seed-name> <property>
# Confirms: tests pass with the patch, demo fails with it and passes without; then stores it under seeded/<name>/.
WT="$1"; NAME="$2"; PROP="$3"
cd "$WT" || exit 2
git diff -- job_shop_lib > /tmp/seed_$NAME.diff
[ -s /tmp/seed_$NAME.diff ] || { echo "empty diff"; exit 2; }
T=$(PYTHONPATH="$WT" /venv/bin/python -m pytest -q -p no:cacheprovider 2>&1 | tail -1)
PYTHONPATH="$WT" /venv/bin/python demo.py >/tmp/seed_$NAME.with.log 2>&1; WITH=$?
# (no `git stash`: the stash is shared between all worktrees of the repository)
git apply -R /tmp/seed_$NAME.diff || exit 2
PYTHONPATH="$WT" /venv/bin/python demo.py >/tmp/seed_$NAME.without.log 2>&1; WITHOUT=$?
git apply /tmp/seed_$NAME.diff || exit 2
echo "$NAME: tests='$T' demo_with=$WITH demo_without=$WITHOUT"
case "$T" in *"190 passed"*) ;; *) echo "tests not green"; exit 1;; esac
[ "$WITH" = 1 ] && [ "$WITHOUT" = 0 ] || { echo "demo does not discriminate"; exit 1; }
D=/verif/seeded/$NAME; mkdir -p "$D"
cp /tmp/seed_$NAME.diff "$D/patch.diff"; cp demo.py "$D/demo.py"
cat > "$D/meta.json" <<EOM
{
 "property": "$PROP",
 "base_commit": "$(git rev-parse HEAD)",
 "confirmed": {"suite_with_patch": "$T", "demo_exit_with_patch": $WITH, "demo_exit_without_patch": $WITHOUT,
               "commands": ["PYTHONPATH=<wt> /venv/bin/python -m pytest -q -p no:cacheprovider", "PYTHONPATH=<wt> /venv/bin/python demo.py (with patch, then with patch stashed)"]},
 "needs": "TODO",
 "detected_by": "TODO"
}
EOM
rm -f /tmp/seed_$NAME.*

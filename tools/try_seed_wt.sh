#!/bin/sh
# usage: try_seed_wt.sh <seed-name> <property...>   like try_seed.sh, but in a scratch worktree of /repo (VERIF_REPO): safe to run in parallel
NAME="$1"; shift
WT=/tmp/tsw_$NAME
git -C /repo worktree add --detach "$WT" HEAD -q || exit 2
git -C "$WT" apply /verif/seeded/$NAME/patch.diff || echo "$NAME: patch does not apply"
for P in "$@"; do
  VERIF_REPO="$WT" /verif/check $P > /tmp/tsw_${NAME}_$P.log 2>&1; RC=$?
  echo "seed=$NAME check=$P exit=$RC :: $(grep -E 'VIOLATION|violated' /tmp/tsw_${NAME}_$P.log | tr '\n' ' ' | cut -c1-300)"
done
git -C /repo worktree remove --force "$WT"

import JobShopModel.Features
import JobShopModel.Generator
/-!
# The Gymnasium environments

Mirrors `reinforcement_learning/_single_job_shop_graph_env.py` (`__init__`, `_get_observation_space`, `reset`,
`step`, `get_observation`, `_get_edge_index`), `_multi_job_shop_graph_env.py` (`__init__`, `reset`, `step`,
`_add_padding_to_observation`) and `_utils.add_padding`, on top of the feature world of `Features.lean`.

An environment is the feature world its constructor builds — the feature observers of the configs in order, the
composite over them, the residual graph updater (with the completion observer it obtains through
`create_or_get_observer`), the reward observer and the history observer of the Gantt chart creator — plus the
declared spaces.  numpy arrays are lists: a feature matrix is its list of columns, the `2 × E` edge index is its
list of columns `(u, v)`; float32 feature values are integers (every feature of the library is integer-valued).
-/
namespace JS

structure EnvCfg where
  builder : Builder
  feats : List (FKind × Option (List FT))
  reward : FKind := .makespanReward
  rmMach : Bool := true
  rmJob : Bool := true
  usePadding : Bool := true
deriving Repr, DecidableEq, Inhabited

/-- the declared spaces: `MultiDiscrete([J, M + 1], start=[0, -1])`, `MultiBinary(nNodes)`,
`MultiDiscrete(full((2, nEdges), nNodes + 1), start=full(-1))`, one `Box(shape=(rows, cols))` per feature type -/
structure Space where
  nJobs : Nat
  nMachines : Nat
  nNodes : Nat
  nEdges : Nat
  feats : List (FT × Nat × Nat)
deriving Repr, DecidableEq, Inhabited

structure EObs where
  removed : List Bool
  edgeIndex : List (Int × Int)
  feats : List (FT × List (List Int))
deriving Repr, DecidableEq, Inhabited

structure Env where
  w : FWorld
  ec : EnvCfg
  comp : Nat
  upd : Nat
  rew : Nat
  space : Space
deriving Repr, Inhabited

/-- `matrix.shape` of a feature matrix stored by columns -/
def matShape (cols : List (List Int)) : Nat × Nat := ((cols.headD []).length, cols.length)

/-- the feature observers of the configs, in order (`feature_observer_factory` for each config) -/
def constructFeats : FWorld → List (FKind × Option (List FT)) → Option (FWorld × List Nat)
  | w, [] => some (w, [])
  | w, (k, fts) :: rest =>
    if !k.isFeature || k == .composite then none else
    match w.construct k fts with
    | (_, none) => none
    | (w1, some id) =>
      match constructFeats w1 rest with
      | none => none
      | some (w2, ids) => some (w2, id :: ids)

def Env.graph (e : Env) : Graph := (e.w.heap.getD e.upd default).graph

/-- `SingleJobShopGraphEnv.__init__`; `none` = the constructor raised -/
def Env.make (c : Cfg) (ec : EnvCfg) : Option Env :=
  match constructFeats (FWorld.init c) ec.feats with
  | none => none
  | some (w1, ids) =>
    match w1.constructComposite (some ids) with
    | (_, none) => none
    | (w2, some comp) =>
      match w2.constructResidual (build ec.builder c.I) ec.rmMach ec.rmJob with
      | (_, none) => none
      | (w3, some upd) =>
        if ec.reward != .makespanReward && ec.reward != .idleReward then none else
        match w3.construct ec.reward none with
        | (_, none) => none
        | (w4, some rew) =>
          match w4.construct .history none with     -- GanttChartCreator: create_or_get_observer(HistoryObserver)
          | (_, none) => none
          | (w5, some _) =>
            let g := (w5.heap.getD upd default).graph
            some { w := w5, ec := ec, comp := comp, upd := upd, rew := rew,
                   space := { nJobs := c.I.length, nMachines := numMachines c.I, nNodes := g.nodes.length,
                              nEdges := g.edges.length,
                              feats := (w5.heap.getD comp default).cols.map fun tc => (tc.1, matShape tc.2) } }

/-- `add_padding` of a 1-d array / of the columns of the edge index: `none` = the array is longer than the space -/
def padEnd {α} (l : List α) (n : Nat) (v : α) : Option (List α) :=
  if n < l.length then none else some (l ++ List.replicate (n - l.length) v)

/-- `get_observation` (`_get_edge_index` pads with `-1` up to the declared number of edges) -/
def Env.observation (e : Env) : Option EObs :=
  let g := e.graph
  let edges : List (Int × Int) := g.edges.map fun x => ((x.1 : Int), (x.2.1 : Int))
  let ei := if e.ec.usePadding then padEnd edges e.space.nEdges (-1, -1) else some edges
  ei.map fun ei => { removed := g.removed, edgeIndex := ei, feats := (e.w.heap.getD e.comp default).cols }

inductive StepOut
  | raised
  | ok (obs : EObs) (reward : Int) (done : Bool) (truncated : Bool) (available : List OpRef)
deriving Repr, DecidableEq, Inhabited

def Env.lastReward (e : Env) : Int := ((e.w.heap.getD e.rew default).rewards.getLast?).getD 0

/-- `step((job_id, machine_id))`: `next_operation(job_id)` raises for a finished job; `-1` stands for "the
operation's only machine"; then `dispatch`; any raise leaves the environment as it was (C09) -/
def Env.step (e : Env) (job : Nat) (machine : Int) : Env × StepOut :=
  if job ≥ e.w.cfg.I.length then (e, .raised) else
  let p := e.w.s.jobIdx.getD job 0
  if p ≥ (e.w.cfg.I.getD job []).length then (e, .raised) else
  match e.w.dispatch job p (if machine == -1 then none else some machine) with
  | (_, false) => (e, .raised)
  | (w', true) =>
    let e' := { e with w := w' }
    match e'.observation with
    | none => (e', .raised)
    | some obs => (e', .ok obs e'.lastReward (isComplete w'.cfg.I w'.s) false (availablePure w'.cfg w'.s))

/-- `reset()` -/
def Env.reset (e : Env) : Env × Option EObs :=
  let e' := { e with w := e.w.reset }
  (e', e'.observation)

/-! ## space membership -/

/-- `observation_space.contains(obs)`: shapes, and edge-index entries within `[-1, nNodes)` -/
def Space.containsObs (sp : Space) (o : EObs) : Bool :=
  o.removed.length == sp.nNodes &&
  o.edgeIndex.length == sp.nEdges &&
  o.edgeIndex.all (fun uv => -1 ≤ uv.1 && uv.1 < sp.nNodes && -1 ≤ uv.2 && uv.2 < sp.nNodes) &&
  (o.feats.map fun tc => (tc.1, matShape tc.2)) == sp.feats &&
  o.feats.all fun tc => tc.2.all fun col => col.length == (tc.2.headD []).length

/-- `action_space.contains((job, machine))` -/
def Space.containsAction (sp : Space) (job : Int) (machine : Int) : Bool :=
  0 ≤ job && job < sp.nJobs && -1 ≤ machine && machine < sp.nMachines

/-- the legal decisions of the property: a job with operations left, with an eligible machine id or `-1` for a
single-machine operation -/
def Env.legal (e : Env) (job : Nat) (machine : Int) : Bool :=
  match getOp e.w.cfg.I job (e.w.s.jobIdx.getD job 0) with
  | none => false
  | some op => if machine == -1 then op.machines.length == 1 else 0 ≤ machine && op.machines.contains machine.toNat

/-- all legal decisions in canonical order: jobs ascending; for a single-machine operation `-1` then its machine,
otherwise the eligible machines in the operation's order -/
def Env.legalActions (e : Env) : List (Nat × Int) :=
  (List.range e.w.cfg.I.length).flatMap fun j =>
    match getOp e.w.cfg.I j (e.w.s.jobIdx.getD j 0) with
    | none => []
    | some op =>
      let ms : List (Nat × Int) := op.machines.map fun (m : Nat) => (j, Int.ofNat m)
      if op.machines.length == 1 then (j, -1) :: ms else ms

/-! ## the multi-instance environment -/

/-- `generate(num_jobs=nj, num_machines=nm)` with both sizes given -/
def generateFixed (p : GenParams) (nj nm : Nat) (draws : List Nat) : Except GenFail (Instance × Nat × List Nat) :=
  if !p.allowLess && nj < nm then .error ⟨.fewerJobs, draws⟩ else
  match genJobs p nm nj draws with
  | .error e => .error e
  | .ok (jobs, d) => .ok (jobs, nm, d)

/-- `add_padding` of a feature matrix (by columns) to `(rows, ncols)` with `-1` -/
def padMatrix (cols : List (List Int)) (rows ncols : Nat) : Option (List (List Int)) :=
  let (r, c) := matShape cols
  if rows < r || ncols < c then none else
  if r * c == 0 then some (List.replicate ncols (List.replicate rows (-1))) else
  some (cols.map (fun col => col ++ List.replicate (rows - col.length) (-1)) ++
        List.replicate (ncols - c) (List.replicate rows (-1)))

/-- padding of one feature matrix to the shape declared for its key (`KeyError` when the key is not declared) -/
def padFeat (sp : Space) (tc : FT × List (List Int)) : Option (FT × List (List Int)) :=
  match sp.feats.find? (·.1 == tc.1) with
  | none => none
  | some (_, rows, ncols) => (padMatrix tc.2 rows ncols).map fun m => (tc.1, m)

/-- `_add_padding_to_observation`: `removed_nodes` padded with `True`, everything else with `-1` -/
def padObs (sp : Space) (o : EObs) : Option EObs :=
  match padEnd o.removed sp.nNodes true, padEnd o.edgeIndex sp.nEdges (-1, -1) with
  | some rm, some ei => (o.feats.mapM (padFeat sp)).map fun fs => { removed := rm, edgeIndex := ei, feats := fs }
  | _, _ => none

structure MultiEnv where
  p : GenParams
  ec : EnvCfg
  F : FilterCfg
  gs : GenState
  env : Env
  space : Space
deriving Repr, Inhabited

/-- `MultiJobShopGraphEnv.__init__`: the spaces are those of an environment on an instance of maximum size -/
def MultiEnv.make (p : GenParams) (ec : EnvCfg) (F : FilterCfg) (draws : List Nat) : Option MultiEnv :=
  match generateFixed p p.jobsRange.2 p.machinesRange.2 draws with
  | .error _ => none
  | .ok (I, _, d) =>
    match Env.make { I := I, F := F } ec with
    | none => none
    | some env => some { p := p, ec := ec, F := F, gs := { draws := d, counter := 1 }, env := env, space := env.space }

/-- `reset()`: a new instance from the generator, a new single environment with the *constructor's* configuration,
its reset observation, padded to the declared spaces.  Outer `none` = raised.  When the generator refuses, the
multi-environment keeps everything but its generator, which has consumed the draws made before the failing call. -/
def MultiEnv.reset (m : MultiEnv) : MultiEnv × Option EObs :=
  match m.gs.next m.p with
  | .error (_, gs') => ({ m with gs := gs' }, none)
  | .ok (I, _, gs') =>
    match Env.make { I := I, F := m.F } { m.ec with usePadding := m.env.ec.usePadding } with
    | none => ({ m with gs := gs' }, none)
    | some env =>
      let (env', obs) := env.reset
      let m' := { m with gs := gs', env := env' }
      match obs with
      | none => (m', none)
      | some o => (m', if env'.ec.usePadding then padObs m.space o else some o)

def MultiEnv.step (m : MultiEnv) (job : Nat) (machine : Int) : MultiEnv × StepOut :=
  match m.env.step job machine with
  | (env', .raised) => ({ m with env := env' }, .raised)
  | (env', .ok obs r d t av) =>
    let m' := { m with env := env' }
    if env'.ec.usePadding then
      match padObs m.space obs with
      | none => (m', .raised)
      | some o => (m', .ok o r d t av)
    else (m', .ok obs r d t av)

end JS

import JobShopModel.Queries
/-!
# Job shop graphs

Mirrors `graphs/_job_shop_graph.py` (`add_node`, `add_edge` with `networkx.DiGraph` semantics,
`remove_node` with the isolated-node sweep), `_build_disjunctive_graph.py` and
`_build_agent_task_graph.py`.  Node ids are positions in `nodes`; adjacency lists keep networkx's
insertion order (`DiGraph.edges()` iterates nodes in insertion order and, per node, successors in the
order their first edge was added; re-adding an edge overwrites its attributes in place).
-/
namespace JS

inductive NodeKind
  | operation (id : Nat) | machine (m : Nat) | job (j : Nat) | global | source | sink
deriving Repr, DecidableEq, Inhabited

inductive EType
  | conjunctive | disjunctive | untyped
deriving Repr, DecidableEq, Inhabited

structure Graph where
  nodes : List NodeKind := []
  /-- `adj[u]` = successors of `u` with the edge type, in insertion order -/
  adj : List (List (Nat × EType)) := []
  removed : List Bool := []
deriving Repr, DecidableEq, Inhabited

def Graph.addNode (g : Graph) (k : NodeKind) : Graph :=
  { nodes := g.nodes ++ [k], adj := g.adj ++ [[]], removed := g.removed ++ [false] }

def Graph.present (g : Graph) (u : Nat) : Bool := u < g.nodes.length && !(g.removed.getD u true)

/-- `JobShopGraph.add_edge(u, v, type=t)`: raises `ValidationError` (here: the graph is returned unchanged)
when an endpoint is not in the graph; otherwise `DiGraph.add_edge`, which overwrites the attributes of an
existing edge in place -/
def Graph.addEdge (g : Graph) (u v : Nat) (t : EType) : Graph :=
  if g.present u && g.present v then
    { g with adj := g.adj.modify u fun l =>
        if l.any (·.1 == v) then l.map fun e => if e.1 == v then (v, t) else e else l ++ [(v, t)] }
  else g

/-- `DiGraph.edges(data="type")` in iteration order -/
def Graph.edges (g : Graph) : List (Nat × Nat × EType) :=
  (List.range g.nodes.length).flatMap fun u =>
    if g.present u then (g.adj.getD u []).map fun e => (u, e.1, e.2) else []

def Graph.degree (g : Graph) (u : Nat) : Nat :=
  (g.adj.getD u []).length + (g.edges.filter fun e => e.2.1 == u).length

/-- delete node `u` with its incident edges (`DiGraph.remove_node`) and mark it removed -/
def Graph.dropNode (g : Graph) (u : Nat) : Graph :=
  { g with adj := (g.adj.set u []).map (fun l => l.filter (·.1 != u)), removed := g.removed.set u true }

/-- `JobShopGraph.remove_node`: remove the node, then every node that is isolated now -/
def Graph.removeNode (g : Graph) (u : Nat) : Graph :=
  let g1 := g.dropNode u
  let isolated := (List.range g1.nodes.length).filter fun v => g1.present v && g1.degree v == 0
  isolated.foldl (fun g v => g.dropNode v) g1

/-! ## builders -/

def pairs {α} : List α → List (α × α)
  | [] => []
  | a :: t => t.map (fun b => (a, b)) ++ pairs t

/-- `JobShopGraph(instance)`: one operation node per operation, in id order -/
def opNodesGraph (I : Instance) : Graph :=
  (List.range (numOps I)).foldl (fun g i => g.addNode (.operation i)) {}

/-- `nodes_by_machine[m]`: ids of the operation nodes eligible on `m`, in id order -/
def nodesByMachine (I : Instance) (m : Nat) : List Nat :=
  ((allOps I).filter fun r => match getOp I r.1 r.2 with | some op => op.machines.contains m | none => false).map (opId I)

/-- `nodes_by_job[j]` -/
def nodesByJob (I : Instance) (j : Nat) : List Nat :=
  (List.range (I.getD j []).length).map fun p => opId I (j, p)

def addBoth (g : Graph) (u v : Nat) (t : EType) : Graph := (g.addEdge u v t).addEdge v u t

def addDisjunctiveEdges (I : Instance) (g : Graph) : Graph :=
  (List.range (numMachines I)).foldl (fun g m =>
    (pairs (nodesByMachine I m)).foldl (fun g (a, b) => addBoth g a b .disjunctive) g) g

def addConjunctiveEdges (I : Instance) (g : Graph) : Graph :=
  (List.range I.length).foldl (fun g j =>
    let ns := nodesByJob I j
    (ns.zip ns.tail).foldl (fun g (a, b) => g.addEdge a b .conjunctive) g) g

def addSourceSink (I : Instance) (g : Graph) : Graph :=
  let src := g.nodes.length
  let snk := src + 1
  let g := (g.addNode .source).addNode .sink
  (List.range I.length).foldl (fun g j =>
    let ns := nodesByJob I j
    match ns.head?, ns.getLast? with
    | some a, some b => (g.addEdge src a .conjunctive).addEdge b snk .conjunctive
    | _, _ => g) g

/-- `build_disjunctive_graph` -/
def buildDisjunctive (I : Instance) : Graph :=
  addSourceSink I (addConjunctiveEdges I (addDisjunctiveEdges I (opNodesGraph I)))

/-- `build_solved_disjunctive_graph(schedule)` -/
def buildSolved (I : Instance) (s : State) : Graph :=
  let g := addSourceSink I (addConjunctiveEdges I (opNodesGraph I))
  s.sched.foldl (fun g ms =>
    (ms.zip ms.tail).foldl (fun g (a, b) => g.addEdge (opId I (a.job, a.pos)) (opId I (b.job, b.pos)) .disjunctive) g) g

def addMachineNodes (I : Instance) (g : Graph) : Graph :=
  (List.range (numMachines I)).foldl (fun g m => g.addNode (.machine m)) g

def addJobNodes (I : Instance) (g : Graph) : Graph :=
  (List.range I.length).foldl (fun g j => g.addNode (.job j)) g

def nodeIdOf (g : Graph) (k : NodeKind) : Nat := (g.nodes.idxOf k)

def addOperationMachineEdges (I : Instance) (g : Graph) : Graph :=
  (List.range (numMachines I)).foldl (fun g m =>
    (nodesByMachine I m).foldl (fun g o => addBoth g (nodeIdOf g (.machine m)) o .untyped) g) g

def addMachineMachineEdges (I : Instance) (g : Graph) : Graph :=
  (pairs ((List.range (numMachines I)).map fun m => nodeIdOf g (.machine m))).foldl
    (fun g (a, b) => addBoth g a b .untyped) g

def addSameJobEdges (I : Instance) (g : Graph) : Graph :=
  (List.range I.length).foldl (fun g j => (pairs (nodesByJob I j)).foldl (fun g (a, b) => addBoth g a b .untyped) g) g

def addOperationJobEdges (I : Instance) (g : Graph) : Graph :=
  (List.range I.length).foldl (fun g j =>
    (nodesByJob I j).foldl (fun g o => addBoth g (nodeIdOf g (.job j)) o .untyped) g) g

def addJobJobEdges (I : Instance) (g : Graph) : Graph :=
  (pairs ((List.range I.length).map fun j => nodeIdOf g (.job j))).foldl (fun g (a, b) => addBoth g a b .untyped) g

def addGlobal (I : Instance) (g : Graph) : Graph :=
  let gl := g.nodes.length
  let g := g.addNode .global
  let g := (List.range (numMachines I)).foldl (fun g m => addBoth g gl (nodeIdOf g (.machine m)) .untyped) g
  (List.range I.length).foldl (fun g j => addBoth g gl (nodeIdOf g (.job j)) .untyped) g

/-- `build_agent_task_graph` -/
def buildAgentTask (I : Instance) : Graph :=
  addSameJobEdges I (addMachineMachineEdges I (addOperationMachineEdges I (addMachineNodes I (opNodesGraph I))))

/-- `build_agent_task_graph_with_jobs` -/
def buildAgentTaskJobs (I : Instance) : Graph :=
  let g := addMachineMachineEdges I (addOperationMachineEdges I (addMachineNodes I (opNodesGraph I)))
  addJobJobEdges I (addOperationJobEdges I (addJobNodes I g))

/-- `build_complete_agent_task_graph` -/
def buildCompleteAgentTask (I : Instance) : Graph :=
  let g := addOperationMachineEdges I (addMachineNodes I (opNodesGraph I))
  addGlobal I (addOperationJobEdges I (addJobNodes I g))

inductive Builder
  | disjunctive | agentTask | agentTaskJobs | completeAgentTask
deriving Repr, DecidableEq, Inhabited

def build (b : Builder) (I : Instance) : Graph :=
  match b with
  | .disjunctive => buildDisjunctive I
  | .agentTask => buildAgentTask I
  | .agentTaskJobs => buildAgentTaskJobs I
  | .completeAgentTask => buildCompleteAgentTask I

end JS

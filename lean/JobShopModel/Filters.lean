import JobShopModel.Core
/-!
# Ready-operation filters

Mirrors `job_shop_lib/dispatching/_ready_operation_filters.py` and the composition in
`_factories.py` (`create_composite_operation_filter`).
-/
namespace JS

inductive FilterKind
  | dominated | nonImmediateMachines | nonIdleMachines | nonImmediateOps
deriving Repr, DecidableEq, Inhabited

/-- `_get_non_idle_machines`: for each machine scan its schedule backwards, stop at the first
operation that is completed at `t`, collect the machine ids of the others. -/
def nonIdleMachines (s : State) (t : Int) : List Nat :=
  s.sched.flatMap fun ms => (ms.reverse.takeWhile fun x => !decide (x.end_ ≤ t)).map (·.machine)

/-- `filter_non_idle_machines`. -/
def filterNonIdle (I : Instance) (s : State) (L : List OpRef) : List OpRef :=
  let t := minStart I s L
  let busy := nonIdleMachines s t
  L.filter fun r => match getOp I r.1 r.2 with
    | some op => !(op.machines.all fun m => busy.contains m)
    | none => false

/-- `filter_non_immediate_operations`. -/
def filterNonImmediateOps (I : Instance) (s : State) (L : List OpRef) : List OpRef :=
  let t := minStart I s L
  L.filter fun r => earliestStart I s r == t

/-- `_get_min_machine_end_times`: `none` stands for `float("inf")`. -/
def minEnd (I : Instance) (s : State) (L : List OpRef) (m : Nat) : Option Int :=
  (L.filterMap fun r => match getOp I r.1 r.2 with
    | some op => if m ∈ op.machines then some (startTime s r.1 m + op.dur) else none
    | none => none).min?

/-- `start_time < min_machine_end_times[m]` with `inf` as `none`. -/
def ltOpt (a : Int) : Option Int → Bool
  | none => true
  | some b => decide (a < b)

/-- The main loop of `filter_dominated_operations` (including the early `return [operation]` on the
first zero-duration operation, which discards what was accumulated).  `st j m` is
`dispatcher.start_time(op, m)` and `me m` is `min_machine_end_times[m]`. -/
def domLoop (I : Instance) (st : Nat → Nat → Int) (me : Nat → Option Int) : List OpRef → List OpRef → List OpRef
  | [], acc => acc.reverse
  | r :: rest, acc =>
    match getOp I r.1 r.2 with
    | none => domLoop I st me rest acc
    | some op =>
      if op.dur == 0 then [r] else
      if op.machines.any (fun m => ltOpt (st r.1 m) (me m))
      then domLoop I st me rest (r :: acc) else domLoop I st me rest acc

/-- `filter_dominated_operations`. -/
def filterDominated (I : Instance) (s : State) (L : List OpRef) : List OpRef :=
  domLoop I (startTime s) (minEnd I s L) L []

/-- `_get_immediate_machines` as a predicate on machine ids. -/
def immediateMachine (I : Instance) (s : State) (L : List OpRef) (m : Nat) : Bool :=
  let t := minStart I s L
  L.any fun r => match getOp I r.1 r.2 with
    | some op => op.machines.contains m && (startTime s r.1 m == t)
    | none => false

/-- `filter_non_immediate_machines`. -/
def filterNonImmediateMachines (I : Instance) (s : State) (L : List OpRef) : List OpRef :=
  L.filter fun r => match getOp I r.1 r.2 with
    | some op => op.machines.any fun m => immediateMachine I s L m
    | none => false

def applyFilter (I : Instance) (s : State) : FilterKind → List OpRef → List OpRef
  | .dominated => filterDominated I s
  | .nonImmediateMachines => filterNonImmediateMachines I s
  | .nonIdleMachines => filterNonIdle I s
  | .nonImmediateOps => filterNonImmediateOps I s

/-- `create_composite_operation_filter(fs)`: left-to-right. -/
def applyFilters (I : Instance) (s : State) (fs : List FilterKind) (L : List OpRef) : List OpRef :=
  fs.foldl (fun acc f => applyFilter I s f acc) L

/-- `ready_operations_filter`: `none` = no filter installed. -/
abbrev FilterCfg := Option (List FilterKind)

/-- body of `Dispatcher.available_operations` given the raw ready list -/
def applyCfg (I : Instance) (s : State) (F : FilterCfg) (L : List OpRef) : List OpRef :=
  match F with
  | none => L
  | some fs => applyFilters I s fs L

end JS

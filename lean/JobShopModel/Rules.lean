import JobShopModel.Events
/-!
# Dispatching rules, machine choosers and the rule solver

Mirrors `dispatching/rules/_dispatching_rules_functions.py`, `_machine_chooser_factory.py`,
`_dispatching_rule_solver.py` (`solve`, `step`) and `_base_solver.py` (`__call__`).
The global `random` module is a stream of draws (`random.choice(seq)` = `seq[draw % len(seq)]`;
the harness patches it with the same stream), `time.perf_counter` a pair of readings.
-/
namespace JS

/-- Python's `min(iterable, key=...)`: the FIRST element with the smallest key -/
def argminFirst {α} (key : α → Int) : List α → Option α
  | [] => none
  | a :: t => some (t.foldl (fun best x => if key x < key best then x else best) a)

/-- Python's `max(iterable, key=...)`: the FIRST element with the largest key -/
def argmaxFirst {α} (key : α → Int) : List α → Option α
  | [] => none
  | a :: t => some (t.foldl (fun best x => if key best < key x then x else best) a)

def opDur (I : Instance) (r : OpRef) : Int := match getOp I r.1 r.2 with | some op => op.dur | none => 0

/-- remaining work of job `j`: total duration of its unscheduled operations -/
def remainingWork (I : Instance) (s : State) (j : Nat) : Int :=
  (((unscheduledPure I s).filter fun r => r.1 == j).map (opDur I)).sum

/-- remaining operations of job `j`: number of its uncompleted (unscheduled or ongoing) operations -/
def remainingOps (c : Cfg) (s : State) (j : Nat) : Int :=
  (((uncompletedPure c s).filter fun r => r.1 == j).length : Int)

inductive ScoreFn
  | spt | fcfs | mwkr | mor
deriving Repr, DecidableEq, Inhabited

/-- the per-job score lists of the scoring functions -/
def score (c : Cfg) (s : State) (f : ScoreFn) (j : Nat) : Int :=
  match f with
  | .spt => match (availablePure c s).find? (fun r => r.1 == j) with
      | some r => - opDur c.I r | none => 0
  | .fcfs => match (availablePure c s).reverse.find? (fun r => r.1 == j) with
      | some r => (opId c.I r : Int) | none => 0
  | .mwkr => if (availableJobsPure c s).contains j then remainingWork c.I s j else 0
  | .mor => remainingOps c s j

inductive RuleKind
  | spt | fcfs | mwkr | mor | random | observerMwkr
  | scoreBased (f : ScoreFn)
  | tieBreak (fs : List ScoreFn)
deriving Repr, DecidableEq, Inhabited

/-- the loop of `score_based_rule_with_tie_breaker` (after the fix: best score among the candidates) -/
def tieBreakLoop (c : Cfg) (s : State) : List ScoreFn → List OpRef → Option OpRef
  | [], cands => cands.head?
  | f :: fs, cands =>
    match (cands.map fun r => score c s f r.1).max? with
    | none => none      -- `max()` of an empty sequence raises
    | some best =>
      let cands' := cands.filter fun r => score c s f r.1 == best
      if cands'.length == 1 then cands'.head? else tieBreakLoop c s fs cands'

/-- `dispatching_rule(dispatcher)`; `draw` is the value `random.choice` consumes (random rule only) -/
def selectOp (c : Cfg) (s : State) (rule : RuleKind) (draw : Nat) : Option OpRef :=
  let av := availablePure c s
  match rule with
  | .spt => argminFirst (opDur c.I) av
  | .fcfs => argminFirst (fun r => (r.2 : Int)) av
  | .mwkr => argmaxFirst (fun r => remainingWork c.I s r.1) av
  | .mor => argmaxFirst (fun r => remainingOps c s r.1) av
  | .random => if av.isEmpty then none else av[draw % av.length]?
  | .observerMwkr => argmaxFirst (fun r => score c s .mwkr r.1) av
  | .scoreBased f => argmaxFirst (fun r => score c s f r.1) av
  | .tieBreak fs => tieBreakLoop c s fs av

inductive Chooser
  | first | random
deriving Repr, DecidableEq, Inhabited

def ruleUsesDraw : RuleKind → Bool
  | .random => true
  | _ => false

/-- `machine_chooser(dispatcher, operation)` -/
def chooseMachine (I : Instance) (ch : Chooser) (r : OpRef) (draw : Nat) : Option Nat :=
  match getOp I r.1 r.2 with
  | none => none
  | some op =>
    match ch with
    | .first => op.machines.head?
    | .random => if op.machines.isEmpty then none else op.machines[draw % op.machines.length]?

def chooserUsesDraw : Chooser → Bool
  | .random => true
  | .first => false

/-- consume one draw from the stream if the callee calls `random.choice` -/
def drawFor (uses : Bool) (draws : List Nat) : Nat × List Nat :=
  if uses then (draws.headD 0, draws.tail) else (0, draws)

/-- `DispatchingRuleSolver.step`: returns the new state, the selected operation and machine, and the
remaining draws; `none` when anything raises -/
def solverStep (c : Cfg) (rule : RuleKind) (ch : Chooser) (s : State) (draws : List Nat) :
    Option (State × OpRef × Nat × List Nat) :=
  match selectOp c s rule (drawFor (ruleUsesDraw rule) draws).1 with
  | none => none
  | some r =>
    let draws1 := (drawFor (ruleUsesDraw rule) draws).2
    match chooseMachine c.I ch r (drawFor (chooserUsesDraw ch) draws1).1 with
    | none => none
    | some m =>
      match dispatch c.I s r.1 r.2 m with
      | .ok s' => some (s', r, m, (drawFor (chooserUsesDraw ch) draws1).2)
      | .error _ => none

/-- `DispatchingRuleSolver.solve`: `while not is_complete: step`, with fuel -/
def solveLoop (c : Cfg) (rule : RuleKind) (ch : Chooser) : Nat → State → List Nat → Option State
  | 0, s, _ => if isComplete c.I s then some s else none
  | fuel + 1, s, draws =>
    if isComplete c.I s then some s else
    match solverStep c rule ch s draws with
    | none => none
    | some (s', _, _, draws') => solveLoop c rule ch fuel s' draws'

def solve (c : Cfg) (rule : RuleKind) (ch : Chooser) (draws : List Nat) : Option State :=
  solveLoop c rule ch (numOps c.I + 1) (init c.I) draws

/-- `BaseSolver.__call__` metadata: elapsed time from two clock readings (after the fix: end - start) -/
def elapsedTime (t0 t1 : Int) : Int := t1 - t0

end JS

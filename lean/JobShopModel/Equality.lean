import JobShopModel.Basic
/-!
# `__eq__` and `__hash__`

Mirrors `Operation.__eq__` (after the fix: all five slots are compared) and `__hash__`,
`ScheduledOperation.__eq__`, `Schedule.__eq__` and `JobShopInstance.__eq__`.  An operation *object*
carries the attributes `set_operation_attributes` wrote into it.
-/
namespace JS

/-- an `Operation` object with all its slots -/
structure OpObj where
  machines : List Nat
  dur : Int
  job : Int
  pos : Int
  id : Int
deriving Repr, DecidableEq, Inhabited

/-- a `ScheduledOperation` object -/
structure SOpObj where
  op : OpObj
  start : Int
  machine : Int
deriving Repr, DecidableEq, Inhabited

/-- Python list equality: same length and element-wise `==` -/
def listEq {α} (eq : α → α → Bool) : List α → List α → Bool
  | [], [] => true
  | a :: t, b :: u => eq a b && listEq eq t u
  | _, _ => false

/-- `Operation.__eq__`: `all(getattr(self, slot) == getattr(value, slot) for slot in __slots__)` -/
def opEq (a b : OpObj) : Bool :=
  listEq (· == ·) a.machines b.machines && a.dur == b.dur && a.job == b.job && a.pos == b.pos && a.id == b.id

/-- `Operation.__hash__`: `hash(self.operation_id)` (Python's `hash` of an int is a function of the int) -/
def opHash (a : OpObj) : Int := a.id

/-- `ScheduledOperation.__eq__` -/
def sopEq (a b : SOpObj) : Bool := opEq a.op b.op && a.start == b.start && a.machine == b.machine

/-- `JobShopInstance.__eq__`: `self.jobs == other.jobs` -/
def instEq (a b : List (List OpObj)) : Bool := listEq (listEq opEq) a b

/-- a `Schedule` object: the instance it belongs to and its per-machine lists -/
abbrev SchedObj := List (List OpObj) × List (List SOpObj)

/-- `Schedule.__eq__`: `self.instance == value.instance and self.schedule == value.schedule` (since the repair that made partial
schedules of different instances unequal) -/
def schedEq (a b : SchedObj) : Bool := instEq a.1 b.1 && listEq (listEq sopEq) a.2 b.2

/-- the operation objects of an instance, as `JobShopInstance.__init__` leaves them -/
def opObjs (I : Instance) : List (List OpObj) :=
  (List.range I.length).map fun j =>
    (List.range (I.getD j []).length).map fun p =>
      let op := ((I.getD j []).getD p default)
      { machines := op.machines, dur := op.dur, job := j, pos := p, id := opId I (j, p) }

end JS

import JobShopModel.Queries
/-!
# Events on a dispatcher: requests, resets and queries

`Query` enumerates every dispatcher query of property C05; `ask` is the method call (through the memo
table), `spec` the from-scratch answer computed from the tracking vectors and the schedule only.
`Ev`/`stepEv`/`runEvs` are the histories every dispatcher-level theorem quantifies over.
-/
namespace JS

inductive Query
  | currentTime | available | rawReady | unscheduled | scheduled | uncompleted | completed
  | availableMachines | availableJobs | ongoing
  | makespan | isComplete | numScheduled
  | isScheduled (r : OpRef) | nextOperation (j : Nat) | earliestStart (r : OpRef)
  | startTime (r : OpRef) (m : Nat) | minStart (L : List OpRef)
  | isOngoing (r : OpRef) | remainingDuration (r : OpRef)
deriving Repr, DecidableEq, Inhabited

inductive Answer
  | int (v : Int) | refs (l : List OpRef) | nats (l : List Nat) | sops (l : List SOp)
  | bool (b : Bool) | ref (r : OpRef) | raise | badOp
deriving Repr, DecidableEq, Inhabited

/-- the method call, as the code performs it (cached queries go through the memo table) -/
def ask (c : Cfg) (s : State) : Query → Answer × State
  | .currentTime => let r := qCurrentTime c s; (.int r.1, r.2)
  | .available => let r := qAvailable c s; (.refs r.1, r.2)
  | .rawReady => let r := qRawReady c s; (.refs r.1, r.2)
  | .unscheduled => let r := qUnscheduled c s; (.refs r.1, r.2)
  | .scheduled => let r := qScheduled c s; (.refs r.1, r.2)
  | .uncompleted => let r := qUncompleted c s; (.refs r.1, r.2)
  | .completed => let r := qCompleted c s; (.refs r.1, r.2)
  | .availableMachines => let r := qAvailableMachines c s; (.nats r.1, r.2)
  | .availableJobs => let r := qAvailableJobs c s; (.nats r.1, r.2)
  | .ongoing => let r := qOngoing c s; (.sops r.1, r.2)
  | .makespan => (.int (makespan s), s)
  | .isComplete => (.bool (isComplete c.I s), s)
  | .numScheduled => (.int (numScheduled s), s)
  | .isScheduled r => (.bool (isScheduled s r), s)
  | .nextOperation j => (match nextOperation c.I s j with | .ok r => .ref r | .error _ => .raise, s)
  | .earliestStart r => (.int (earliestStart c.I s r), s)
  | .startTime r m => (.int (startTime s r.1 m), s)
  | .minStart L => (.int (minStart c.I s L), s)
  | .isOngoing r =>
    match findSOp s r with
    | some x => let t := qIsOngoing c s x; (.bool t.1, t.2)
    | none => (.badOp, s)
  | .remainingDuration r =>
    match findSOp s r with
    | some x => let t := qRemainingDuration c s x; (.int t.1, t.2)
    | none => (.badOp, s)

/-- the from-scratch answer: a function of the tracking vectors and the schedule, never of the memo -/
def spec (c : Cfg) (s : State) : Query → Answer
  | .currentTime => .int (currentTimePure c s)
  | .available => .refs (availablePure c s)
  | .rawReady => .refs (rawReady c.I s)
  | .unscheduled => .refs (unscheduledPure c.I s)
  | .scheduled => .refs (scheduledPure c.I s)
  | .uncompleted => .refs (uncompletedPure c s)
  | .completed => .refs (completedPure c s)
  | .availableMachines => .nats (availableMachinesPure c s)
  | .availableJobs => .nats (availableJobsPure c s)
  | .ongoing => .sops (ongoingPure c s)
  | .makespan => .int (makespan s)
  | .isComplete => .bool (isComplete c.I s)
  | .numScheduled => .int (numScheduled s)
  | .isScheduled r => .bool (isScheduled s r)
  | .nextOperation j => (match nextOperation c.I s j with | .ok r => .ref r | .error _ => .raise)
  | .earliestStart r => .int (earliestStart c.I s r)
  | .startTime r m => .int (startTime s r.1 m)
  | .minStart L => .int (minStart c.I s L)
  | .isOngoing r =>
    match findSOp s r with
    | some x => .bool (decide (x.start ≤ currentTimePure c s))
    | none => .badOp
  | .remainingDuration r =>
    match findSOp s r with
    | some x => .int (x.end_ - max x.start (currentTimePure c s))
    | none => .badOp

/-- an event on the dispatcher -/
inductive Ev
  | disp (j p : Nat) (m : Option Int)
  | reset
  | query (q : Query)
deriving Repr, DecidableEq, Inhabited

inductive Outcome
  | ok | raised (e : Err) | answer (a : Answer)
deriving Repr, DecidableEq, Inhabited

def stepEv (c : Cfg) (s : State) : Ev → State × Outcome
  | .disp j p m =>
    match dispatchReq c.I s j p m with
    | .ok s' => (s', .ok)
    | .error e => (s, .raised e)
  | .reset => (reset c.I s, .ok)
  | .query q => let r := ask c s q; (r.2, .answer r.1)

def runEvs (c : Cfg) (s : State) (evs : List Ev) : State := evs.foldl (fun s e => (stepEv c s e).1) s

/-- the state after a history, from a fresh dispatcher -/
def run (c : Cfg) (evs : List Ev) : State := runEvs c (init c.I) evs

end JS

import JobShopModel.Filters
/-!
# Dispatcher queries, with the memo table

Each `@_dispatcher_cache` method is modelled twice: its *body* as a pure function of the
non-cache part of the state (`*Pure`), and the cached method itself (`q*`), which looks the slot up,
otherwise runs the body through the cached sub-queries exactly as the Python body calls them, and
stores the result.  Sets (`available_machines`, `available_jobs`, `completed_operations`) are
returned sorted; the harness sorts the Python side too.
-/
namespace JS

structure Cfg where
  I : Instance
  F : FilterCfg := none
deriving Repr, Inhabited

/-- insertion into a sorted duplicate-free list (canonical form of a Python `set` of ints) -/
def insertSorted (x : Nat) : List Nat → List Nat
  | [] => [x]
  | y :: ys => if x < y then x :: y :: ys else if x = y then y :: ys else y :: insertSorted x ys
def sortDedup (l : List Nat) : List Nat := l.foldr insertSorted []

/-! ## pure bodies -/

def availablePure (c : Cfg) (s : State) : List OpRef := applyCfg c.I s c.F (rawReady c.I s)
def currentTimePure (c : Cfg) (s : State) : Int := minStart c.I s (availablePure c s)

def unscheduledPure (I : Instance) (s : State) : List OpRef :=
  (List.range I.length).flatMap fun j =>
    let n := s.jobIdx.getD j 0
    ((List.range (I.getD j []).length).drop n).map fun p => (j, p)

def scheduledPure (I : Instance) (s : State) : List OpRef :=
  (List.range I.length).flatMap fun j =>
    let n := s.jobIdx.getD j 0
    ((List.range (I.getD j []).length).take n).map fun p => (j, p)

def availableMachinesPure (c : Cfg) (s : State) : List Nat :=
  sortDedup ((availablePure c s).flatMap fun r => match getOp c.I r.1 r.2 with
    | some op => op.machines | none => [])
def availableJobsPure (c : Cfg) (s : State) : List Nat := sortDedup ((availablePure c s).map (·.1))

/-- body of `ongoing_operations` for a given current time: per machine, scan backwards until the
first operation with `end_time <= current_time`. -/
def ongoingAt (s : State) (t : Int) : List SOp :=
  s.sched.flatMap fun ms => ms.reverse.takeWhile fun x => !decide (x.end_ ≤ t)
def ongoingPure (c : Cfg) (s : State) : List SOp := ongoingAt s (currentTimePure c s)

/-- order by operation id (canonical form of a Python `set` of operations) -/
def sortRefs (I : Instance) (l : List OpRef) : List OpRef :=
  (allOps I).filter fun r => l.contains r

def completedPure (c : Cfg) (s : State) : List OpRef :=
  let og := (ongoingPure c s).map fun x => (x.job, x.pos)
  sortRefs c.I ((scheduledPure c.I s).filter fun r => !og.contains r)

def uncompletedPure (c : Cfg) (s : State) : List OpRef :=
  unscheduledPure c.I s ++ (ongoingPure c s).map fun x => (x.job, x.pos)

/-! ## the cached methods -/

def clearCache (s : State) : State := { s with cache := {} }

def qRawReady (c : Cfg) (s : State) : List OpRef × State :=
  match s.cache.rawReady with
  | some v => (v, s)
  | none => let v := rawReady c.I s; (v, { s with cache := { s.cache with rawReady := some v } })

def qAvailable (c : Cfg) (s : State) : List OpRef × State :=
  match s.cache.available with
  | some v => (v, s)
  | none =>
    let (raw, s1) := qRawReady c s
    let v := applyCfg c.I s1 c.F raw
    (v, { s1 with cache := { s1.cache with available := some v } })

def qCurrentTime (c : Cfg) (s : State) : Int × State :=
  match s.cache.currentTime with
  | some v => (v, s)
  | none =>
    let (av, s1) := qAvailable c s
    let v := minStart c.I s1 av
    (v, { s1 with cache := { s1.cache with currentTime := some v } })

def qUnscheduled (c : Cfg) (s : State) : List OpRef × State :=
  match s.cache.unscheduled with
  | some v => (v, s)
  | none => let v := unscheduledPure c.I s; (v, { s with cache := { s.cache with unscheduled := some v } })

def qScheduled (c : Cfg) (s : State) : List OpRef × State :=
  match s.cache.scheduled with
  | some v => (v, s)
  | none => let v := scheduledPure c.I s; (v, { s with cache := { s.cache with scheduled := some v } })

def qAvailableMachines (c : Cfg) (s : State) : List Nat × State :=
  match s.cache.availableMachines with
  | some v => (v, s)
  | none =>
    let (av, s1) := qAvailable c s
    let v := sortDedup (av.flatMap fun r => match getOp c.I r.1 r.2 with
      | some op => op.machines | none => [])
    (v, { s1 with cache := { s1.cache with availableMachines := some v } })

def qAvailableJobs (c : Cfg) (s : State) : List Nat × State :=
  match s.cache.availableJobs with
  | some v => (v, s)
  | none =>
    let (av, s1) := qAvailable c s
    let v := sortDedup (av.map (·.1))
    (v, { s1 with cache := { s1.cache with availableJobs := some v } })

def qOngoing (c : Cfg) (s : State) : List SOp × State :=
  match s.cache.ongoing with
  | some v => (v, s)
  | none =>
    let (t, s1) := qCurrentTime c s
    let v := ongoingAt s1 t
    (v, { s1 with cache := { s1.cache with ongoing := some v } })

def qCompleted (c : Cfg) (s : State) : List OpRef × State :=
  match s.cache.completed with
  | some v => (v, s)
  | none =>
    let (sc, s1) := qScheduled c s
    let (og, s2) := qOngoing c s1
    let ogr := og.map fun x => (x.job, x.pos)
    let v := sortRefs c.I (sc.filter fun r => !ogr.contains r)
    (v, { s2 with cache := { s2.cache with completed := some v } })

/-- `uncompleted_operations` (after the fix: the cached unscheduled list is copied, not extended). -/
def qUncompleted (c : Cfg) (s : State) : List OpRef × State :=
  match s.cache.uncompleted with
  | some v => (v, s)
  | none =>
    let (us, s1) := qUnscheduled c s
    let (og, s2) := qOngoing c s1
    let v := us ++ og.map fun x => (x.job, x.pos)
    (v, { s2 with cache := { s2.cache with uncompleted := some v } })

/-! ## uncached queries -/

/-- `is_scheduled(operation)` -/
def isScheduled (s : State) (r : OpRef) : Bool := decide (r.2 < s.jobIdx.getD r.1 0)

/-- `next_operation(job_id)` -/
def nextOperation (I : Instance) (s : State) (j : Nat) : Except Err OpRef :=
  if (I.getD j []).length ≤ s.jobIdx.getD j 0 then .error .noOpsLeft else .ok (j, s.jobIdx.getD j 0)

/-- `is_ongoing(scheduled_operation)`: `start_time <= current_time()` -/
def qIsOngoing (c : Cfg) (s : State) (x : SOp) : Bool × State :=
  let (t, s1) := qCurrentTime c s
  (decide (x.start ≤ t), s1)

/-- `remaining_duration(scheduled_operation)` -/
def qRemainingDuration (c : Cfg) (s : State) (x : SOp) : Int × State :=
  let (t, s1) := qCurrentTime c s
  (x.end_ - max x.start t, s1)

/-- all scheduled operations, machine by machine (`itertools.chain(*schedule.schedule)`) -/
def allScheduled (s : State) : List SOp := s.sched.flatten

/-- find the scheduled operation for a reference -/
def findSOp (s : State) (r : OpRef) : Option SOp := (allScheduled s).find? fun x => x.job == r.1 && x.pos == r.2

end JS

import JobShopModel.Filters
/-!
# Dispatcher queries, with the memo table

Each `@_dispatcher_cache` method is modelled twice: its *body* as a pure function of the
non-cache part of the state (`*Pure`), and the cached method itself (`q*`), which looks the slot up,
otherwise runs the body through the cached sub-queries exactly as the Python body calls them, and
stores the result.  Sets (`available_machines`, `available_jobs`, `completed_operations`) are
returned sorted; the harness sorts the Python side too.
-/
namespace JS

structure Cfg where
  I : Instance
  F : FilterCfg := none
deriving Repr, Inhabited

/-- insertion into a sorted duplicate-free list (canonical form of a Python `set` of ints) -/
def insertSorted (x : Nat) : List Nat → List Nat
  | [] => [x]
  | y :: ys => if x < y then x :: y :: ys else if x = y then y :: ys else y :: insertSorted x ys
def sortDedup (l : List Nat) : List Nat := l.foldr insertSorted []

/-! ## pure bodies -/

def availablePure (c : Cfg) (s : State) : List OpRef := applyCfg c.I s c.F (rawReady c.I s)
def currentTimePure (c : Cfg) (s : State) : Int := minStart c.I s (availablePure c s)

def unscheduledPure (I : Instance) (s : State) : List OpRef :=
  (List.range I.length).flatMap fun j =>
    let n := s.jobIdx.getD j 0
    ((List.range (I.getD j []).length).drop n).map fun p => (j, p)

def scheduledPure (I : Instance) (s : State) : List OpRef :=
  (List.range I.length).flatMap fun j =>
    let n := s.jobIdx.getD j 0
    ((List.range (I.getD j []).length).take n).map fun p => (j, p)

def availableMachinesPure (c : Cfg) (s : State) : List Nat :=
  sortDedup ((availablePure c s).flatMap fun r => match getOp c.I r.1 r.2 with
    | some op => op.machines | none => [])
def availableJobsPure (c : Cfg) (s : State) : List Nat := sortDedup ((availablePure c s).map (·.1))

/-- body of `ongoing_operations` for a given current time: per machine, scan backwards until the
first operation with `end_time <= current_time`. -/
def ongoingAt (s : State) (t : Int) : List SOp :=
  s.sched.flatMap fun ms => ms.reverse.takeWhile fun x => !decide (x.end_ ≤ t)
def ongoingPure (c : Cfg) (s : State) : List SOp := ongoingAt s (currentTimePure c s)

/-- order by operation id (canonical form of a Python `set` of operations) -/
def sortRefs (I : Instance) (l : List OpRef) : List OpRef :=
  (allOps I).filter fun r => l.contains r

def completedPure (c : Cfg) (s : State) : List OpRef :=
  let og := (ongoingPure c s).map fun x => (x.job, x.pos)
  sortRefs c.I ((scheduledPure c.I s).filter fun r => !og.contains r)

def uncompletedPure (c : Cfg) (s : State) : List OpRef :=
  unscheduledPure c.I s ++ (ongoingPure c s).map fun x => (x.job, x.pos)

/-! ## the cached methods -/

def clearCache (s : State) : State := { s with cache := {} }

/-- one slot of the memo table (`cache_key = method.__name__`) -/
structure Slot (α : Type) where
  get : Cache → Option α
  set : Cache → α → Cache

/-- the `_dispatcher_cache` decorator: return the stored result if there is one, otherwise run the
body and store its result -/
def memo {α} (sl : Slot α) (body : State → α × State) (s : State) : α × State :=
  match sl.get s.cache with
  | some v => (v, s)
  | none => let r := body s; (r.1, { r.2 with cache := sl.set r.2.cache r.1 })

def slotCurrentTime : Slot Int := ⟨(·.currentTime), fun k v => { k with currentTime := some v }⟩
def slotAvailable : Slot (List OpRef) := ⟨(·.available), fun k v => { k with available := some v }⟩
def slotRawReady : Slot (List OpRef) := ⟨(·.rawReady), fun k v => { k with rawReady := some v }⟩
def slotUnscheduled : Slot (List OpRef) := ⟨(·.unscheduled), fun k v => { k with unscheduled := some v }⟩
def slotScheduled : Slot (List OpRef) := ⟨(·.scheduled), fun k v => { k with scheduled := some v }⟩
def slotAvailableMachines : Slot (List Nat) :=
  ⟨(·.availableMachines), fun k v => { k with availableMachines := some v }⟩
def slotAvailableJobs : Slot (List Nat) := ⟨(·.availableJobs), fun k v => { k with availableJobs := some v }⟩
def slotCompleted : Slot (List OpRef) := ⟨(·.completed), fun k v => { k with completed := some v }⟩
def slotUncompleted : Slot (List OpRef) := ⟨(·.uncompleted), fun k v => { k with uncompleted := some v }⟩
def slotOngoing : Slot (List SOp) := ⟨(·.ongoing), fun k v => { k with ongoing := some v }⟩

def qRawReady (c : Cfg) : State → List OpRef × State :=
  memo slotRawReady fun s => (rawReady c.I s, s)

def qAvailable (c : Cfg) : State → List OpRef × State :=
  memo slotAvailable fun s =>
    let r := qRawReady c s
    (applyCfg c.I r.2 c.F r.1, r.2)

def qCurrentTime (c : Cfg) : State → Int × State :=
  memo slotCurrentTime fun s =>
    let r := qAvailable c s
    (minStart c.I r.2 r.1, r.2)

def qUnscheduled (c : Cfg) : State → List OpRef × State :=
  memo slotUnscheduled fun s => (unscheduledPure c.I s, s)

def qScheduled (c : Cfg) : State → List OpRef × State :=
  memo slotScheduled fun s => (scheduledPure c.I s, s)

def qAvailableMachines (c : Cfg) : State → List Nat × State :=
  memo slotAvailableMachines fun s =>
    let r := qAvailable c s
    (sortDedup (r.1.flatMap fun x => match getOp c.I x.1 x.2 with
      | some op => op.machines | none => []), r.2)

def qAvailableJobs (c : Cfg) : State → List Nat × State :=
  memo slotAvailableJobs fun s =>
    let r := qAvailable c s
    (sortDedup (r.1.map (·.1)), r.2)

def qOngoing (c : Cfg) : State → List SOp × State :=
  memo slotOngoing fun s =>
    let r := qCurrentTime c s
    (ongoingAt r.2 r.1, r.2)

def qCompleted (c : Cfg) : State → List OpRef × State :=
  memo slotCompleted fun s =>
    let r1 := qScheduled c s
    let r2 := qOngoing c r1.2
    let ogr := r2.1.map fun x => (x.job, x.pos)
    (sortRefs c.I (r1.1.filter fun r => !ogr.contains r), r2.2)

/-- `uncompleted_operations` (after the fix: the cached unscheduled list is copied, not extended). -/
def qUncompleted (c : Cfg) : State → List OpRef × State :=
  memo slotUncompleted fun s =>
    let r1 := qUnscheduled c s
    let r2 := qOngoing c r1.2
    (r1.1 ++ r2.1.map fun x => (x.job, x.pos), r2.2)

/-! ## uncached queries -/

/-- `is_scheduled(operation)` -/
def isScheduled (s : State) (r : OpRef) : Bool := decide (r.2 < s.jobIdx.getD r.1 0)

/-- `next_operation(job_id)` -/
def nextOperation (I : Instance) (s : State) (j : Nat) : Except Err OpRef :=
  if (I.getD j []).length ≤ s.jobIdx.getD j 0 then .error .noOpsLeft else .ok (j, s.jobIdx.getD j 0)

/-- `is_ongoing(scheduled_operation)`: `start_time <= current_time()` -/
def qIsOngoing (c : Cfg) (s : State) (x : SOp) : Bool × State :=
  let (t, s1) := qCurrentTime c s
  (decide (x.start ≤ t), s1)

/-- `remaining_duration(scheduled_operation)` -/
def qRemainingDuration (c : Cfg) (s : State) (x : SOp) : Int × State :=
  let (t, s1) := qCurrentTime c s
  (x.end_ - max x.start t, s1)

/-- all scheduled operations, machine by machine (`itertools.chain(*schedule.schedule)`) -/
def allScheduled (s : State) : List SOp := s.sched.flatten

/-- find the scheduled operation for a reference -/
def findSOp (s : State) (r : OpRef) : Option SOp := (allScheduled s).find? fun x => x.job == r.1 && x.pos == r.2

end JS

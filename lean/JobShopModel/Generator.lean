import JobShopModel.Basic
/-!
# `GeneralInstanceGenerator` as a function of its random draws

Mirrors `generation/_general_instance_generator.py` (`generate`, `create_random_operation`,
`_choose_multiple_machines`, `_choose_one_machine`) and `_instance_generator.py` (`_next_name`, `__iter__`,
`__next__`) after the `fix:` commits (per-generator RNG; machine cap; machines drawn from all machines).
The generator's own `random.Random` is a stream of natural numbers: `randint(a, b) = a + d % (b - a + 1)` (raises
when `a > b`), `choice(seq) = seq[d % len(seq)]` (raises on an empty sequence).
-/
namespace JS

structure GenParams where
  jobsRange : Nat × Nat
  machinesRange : Nat × Nat
  durRange : Int × Int
  allowLess : Bool := true
  allowRecirc : Bool := false
  mpo : Nat × Nat := (1, 1)
deriving Repr, DecidableEq, Inhabited

inductive GenErr
  | emptyRange | emptyChoice | fewerJobs
deriving Repr, DecidableEq, Inhabited

/-- a raising call: the exception, and the draws the generator's `random.Random` has not consumed at that moment (the
draws made before the failing call stay consumed: `randint(a, b)` with `a > b` and `choice([])` raise before drawing) -/
structure GenFail where
  err : GenErr
  draws : List Nat
deriving Repr, DecidableEq, Inhabited

/-- `rng.randint(a, b)` on naturals -/
def randintN (a b : Nat) (draws : List Nat) : Except GenFail (Nat × List Nat) :=
  if a ≤ b then .ok (a + draws.headD 0 % (b - a + 1), draws.tail) else .error ⟨.emptyRange, draws⟩

/-- `rng.randint(a, b)` on integers -/
def randintI (a b : Int) (draws : List Nat) : Except GenFail (Int × List Nat) :=
  if a ≤ b then .ok (a + ((draws.headD 0 : Nat) : Int) % (b - a + 1), draws.tail) else .error ⟨.emptyRange, draws⟩

/-- `rng.choice(seq)` -/
def choiceN (seq : List Nat) (draws : List Nat) : Except GenFail (Nat × List Nat) :=
  match seq with
  | [] => .error ⟨.emptyChoice, draws⟩
  | _ => .ok (seq.getD (draws.headD 0 % seq.length) 0, draws.tail)

/-- `_choose_multiple_machines`: `k` machines drawn without replacement from a copy of `avail` -/
def chooseMany : Nat → List Nat → List Nat → Except GenFail (List Nat × List Nat)
  | 0, _, draws => .ok ([], draws)
  | k + 1, avail, draws =>
    match choiceN avail draws with
    | .error e => .error e
    | .ok (m, d1) =>
      match chooseMany k (avail.erase m) d1 with
      | .error e => .error e
      | .ok (ms, d2) => .ok (m :: ms, d2)

/-- `create_random_operation(available_machines)`: returns the operation, the (possibly shrunk) shared list of
available machines of the job, and the remaining draws -/
def genOp (p : GenParams) (avail : List Nat) (draws : List Nat) : Except GenFail (Op × List Nat × List Nat) :=
  match randintI p.durRange.1 p.durRange.2 draws with
  | .error e => .error e
  | .ok (dur, d1) =>
    if p.mpo.2 > 1 then
      match randintN p.mpo.1 p.mpo.2 d1 with
      | .error e => .error e
      | .ok (k, d2) =>
        match chooseMany k avail d2 with
        | .error e => .error e
        | .ok (ms, d3) => .ok (⟨ms, dur⟩, avail, d3)
    else
      match choiceN avail d1 with
      | .error e => .error e
      | .ok (m, d2) => .ok (⟨[m], dur⟩, if p.allowRecirc then avail else avail.erase m, d2)

def genJob (p : GenParams) : Nat → List Nat → List Nat → Except GenFail (List Op × List Nat)
  | 0, _, draws => .ok ([], draws)
  | n + 1, avail, draws =>
    match genOp p avail draws with
    | .error e => .error e
    | .ok (op, avail', d1) =>
      match genJob p n avail' d1 with
      | .error e => .error e
      | .ok (ops, d2) => .ok (op :: ops, d2)

def genJobs (p : GenParams) (numMachines : Nat) : Nat → List Nat → Except GenFail (List (List Op) × List Nat)
  | 0, draws => .ok ([], draws)
  | n + 1, draws =>
    match genJob p numMachines (List.range numMachines) draws with
    | .error e => .error e
    | .ok (job, d1) =>
      match genJobs p numMachines n d1 with
      | .error e => .error e
      | .ok (jobs, d2) => .ok (job :: jobs, d2)

/-- `generate(num_jobs=None, num_machines=None)` -/
def generate (p : GenParams) (draws : List Nat) : Except GenFail (Instance × Nat × List Nat) :=
  match randintN p.jobsRange.1 p.jobsRange.2 draws with
  | .error e => .error e
  | .ok (nj, d1) =>
    let maxM := if p.allowLess then p.machinesRange.2 else min nj p.machinesRange.2
    match randintN p.machinesRange.1 maxM d1 with
    | .error e => .error e
    | .ok (nm, d2) =>
      match genJobs p nm nj d2 with
      | .error e => .error e
      | .ok (jobs, d3) => .ok (jobs, nm, d3)

/-- the generator object: its draw stream, name counter and iteration state -/
structure GenState where
  draws : List Nat
  counter : Nat := 0
  iter : Nat := 0
deriving Repr, DecidableEq, Inhabited

/-- one `generate()` call on the generator object: instance, its name suffix number, new state.  When it raises, the
draws made before the failing call stay consumed and `_counter` is not advanced (`_next_name()` is only reached on
success) -/
def GenState.next (p : GenParams) (g : GenState) : Except (GenErr × GenState) (Instance × Nat × GenState) :=
  match generate p g.draws with
  | .error f => .error (f.err, { g with draws := f.draws })
  | .ok (I, _, d) => .ok (I, g.counter + 1, { g with draws := d, counter := g.counter + 1 })

/-- `list(generator)` with `iteration_limit = n`: `__iter__` resets the iteration counter, `__next__` stops at `n`.
A raising `generate()` ends the pass with the exception and the generator state it leaves behind -/
def iterate (p : GenParams) : Nat → GenState → Except (GenErr × GenState) (List (Instance × Nat) × GenState)
  | 0, g => .ok ([], g)
  | n + 1, g =>
    match g.next p with
    | .error e => .error e
    | .ok (I, name, g1) =>
      match iterate p n g1 with
      | .error e => .error e
      | .ok (rest, g2) => .ok ((I, name) :: rest, g2)

end JS

/-!
# Basic data of the model: operations, instances, scheduled operations

Mirrors `job_shop_lib/_operation.py`, `_job_shop_instance.py` (ids, counts) and
`_scheduled_operation.py`.  Everything here is executable and imports nothing outside core Lean.
Times and durations are `Int` (Python ints are unbounded, and with `Nat` "no start time is negative"
would hold by typing, i.e. for the wrong reason); ids and positions are `Nat`.
-/
namespace JS

/-- `Operation(machines, duration)`. -/
structure Op where
  machines : List Nat
  dur : Int
deriving Repr, DecidableEq, Inhabited

/-- `JobShopInstance.jobs`: job-major list of operation lists. -/
abbrev Instance := List (List Op)

/-- A reference to an operation of the instance: `(job_id, position_in_job)`. -/
abbrev OpRef := Nat × Nat

def getOp (I : Instance) (j p : Nat) : Option Op := (I[j]?).bind (·[p]?)

/-- `ScheduledOperation(operation, start_time, machine_id)`; the operation is kept as its
`(job, pos)` reference plus its duration (the only attribute `end_time` needs). -/
structure SOp where
  job : Nat
  pos : Nat
  machine : Nat
  start : Int
  dur : Int
deriving Repr, DecidableEq, Inhabited

/-- `ScheduledOperation.end_time`. -/
def SOp.end_ (s : SOp) : Int := s.start + s.dur

/-- `num_machines`: maximum machine id present plus one. -/
def opMax (op : Op) : Nat := op.machines.foldl (fun b m => max b (m+1)) 0
def jobMax (job : List Op) : Nat := job.foldl (fun a op => max a (opMax op)) 0
def numMachines (I : Instance) : Nat := I.foldl (fun a job => max a (jobMax job)) 0

/-- `num_operations`. -/
def numOps (I : Instance) : Nat := (I.map List.length).sum

/-- `operation_id` of `(j, p)`: dense, job-major (`set_operation_attributes`). -/
def opIdBase (I : Instance) (j : Nat) : Nat := ((I.take j).map List.length).sum
def opId (I : Instance) (r : OpRef) : Nat := opIdBase I r.1 + r.2

/-- All operation references of the instance in id order. -/
def allOps (I : Instance) : List OpRef :=
  (List.range I.length).flatMap fun j => (List.range (I.getD j []).length).map fun p => (j, p)

/-- Executable validity check: every operation has a non-empty duplicate-free machine list and a
non-negative duration.  (The real code does not reject invalid instances; they are outside every
property.) -/
def validOp (op : Op) : Bool := !op.machines.isEmpty && decide op.machines.Nodup && decide (0 ≤ op.dur)
def validB (I : Instance) : Bool := I.all fun job => job.all validOp

end JS

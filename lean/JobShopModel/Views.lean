import JobShopModel.Core
/-!
# Derived views of an instance, serialisation, job sequences

Mirrors the cached properties of `_job_shop_instance.py` (loops kept as loops: `foldl` with `List.set`
where the code accumulates into a pre-allocated list), `to_dict`/`from_matrices`, the Taillard
reader of `from_taillard_file` (at token level, after `readlines`/`strip`/`split`), `Schedule.to_dict`
(`job_sequences`) and `Schedule.from_job_sequences`.
-/
namespace JS

def allOpsList (I : Instance) : List Op := I.flatten

/-- `is_flexible` -/
def isFlexible (I : Instance) : Bool := I.any fun job => job.any fun op => decide (op.machines.length > 1)

/-- `durations_matrix` -/
def durationsMatrix (I : Instance) : List (List Int) := I.map fun job => job.map (·.dur)

/-- `machines_matrix`: a matrix of machine lists when flexible, of single machine ids otherwise
(`operation.machine_id` = `machines[0]`) -/
inductive MachinesMatrix
  | flex (m : List (List (List Nat)))
  | single (m : List (List Nat))
deriving Repr, DecidableEq, Inhabited

def machinesMatrix (I : Instance) : MachinesMatrix :=
  if isFlexible I then .flex (I.map fun job => job.map (·.machines))
  else .single (I.map fun job => job.map fun op => op.machines.headD 0)   -- `machines[0]`; valid ops have one

/-- `operations_by_machine`: for each machine the operations (as references) that can run on it, in
instance order -/
def operationsByMachine (I : Instance) : List (List OpRef) :=
  (allOps I).foldl (fun acc r => match getOp I r.1 r.2 with
    | some op => op.machines.foldl (fun acc m => acc.modify m (· ++ [r])) acc
    | none => acc) (List.replicate (numMachines I) [])

/-- `machine_loads` -/
def machineLoads (I : Instance) : List Int :=
  I.flatten.foldl (fun acc op => op.machines.foldl (fun acc m => acc.modify m (· + op.dur)) acc)
    (List.replicate (numMachines I) 0)

/-- `max_duration_per_machine` -/
def maxDurationPerMachine (I : Instance) : List Int :=
  I.flatten.foldl (fun acc op => op.machines.foldl (fun acc m => acc.modify m (max · op.dur)) acc)
    (List.replicate (numMachines I) 0)

/-- `job_durations` -/
def jobDurations (I : Instance) : List Int := I.map fun job => (job.map (·.dur)).sum

/-- `total_duration` -/
def totalDuration (I : Instance) : Int := (jobDurations I).sum

/-- `max_duration_per_job` (Python `max` of an empty job raises) -/
def maxDurationPerJob (I : Instance) : Option (List Int) := I.mapM fun job => (job.map (·.dur)).max?

/-- `max_duration` -/
def maxDuration (I : Instance) : Option Int := (maxDurationPerJob I).bind List.max?

/-- padded arrays: `none` stands for `nan`; shape `(num_jobs, max job length)` -/
def padTo {α} (n : Nat) (l : List α) : List (Option α) := l.map some ++ List.replicate (n - l.length) none
def maxLen {α} (m : List (List α)) : Nat := m.foldl (fun a r => max a r.length) 0
def durationsMatrixArray (I : Instance) : List (List (Option Int)) :=
  (durationsMatrix I).map (padTo (maxLen I))

/-- `to_dict` (name and metadata are carried along unchanged and are not modelled) -/
def toDict (I : Instance) : List (List Int) × MachinesMatrix := (durationsMatrix I, machinesMatrix I)

/-- `from_matrices`: `Operation(machines=m)` wraps an int into a one-element list -/
def fromMatrices (d : List (List Int)) (mm : MachinesMatrix) : Instance :=
  match mm with
  | .flex m => (List.range d.length).map fun j =>
      (List.range (d.getD j []).length).map fun p => ⟨(m.getD j []).getD p [], (d.getD j []).getD p 0⟩
  | .single m => (List.range d.length).map fun j =>
      (List.range (d.getD j []).length).map fun p => ⟨[(m.getD j []).getD p 0], (d.getD j []).getD p 0⟩

/-- Taillard text at token level: one row of integers per line; the first row is the header -/
def renderTaillard (I : Instance) : List (List Int) :=
  [(I.length : Int), (numMachines I : Int)] ::
    I.map fun job => (job.map fun op => [((op.machines.headD 0 : Nat) : Int), op.dur]).flatten

/-- `zip(row[::2], row[1::2])` -/
def pairsOf : List Int → List (Int × Int)
  | a :: b :: rest => (a, b) :: pairsOf rest
  | _ => []

/-- `from_taillard_file` after tokenisation: skip the first row, then pairs `(machine, duration)` -/
def parseTaillard (rows : List (List Int)) : Instance :=
  rows.tail.map fun row => (pairsOf row).map fun (m, d) => ⟨[m.toNat], d⟩

/-- `Schedule.to_dict()["job_sequences"]` -/
def jobSequences (s : State) : List (List Nat) := s.sched.map fun ms => ms.map (·.job)

inductive SeqResult
  | ok (s : State)          -- the schedule is returned
  | validationError         -- "Invalid job sequences. No valid operation to schedule."
  | indexError              -- `instance.jobs[job_id][operation_index]` for a job with nothing left / unknown job
  | dispatchError           -- `dispatch` raised (never happens from a reachable state: the operation is ready)
  | fuel                    -- the model ran out of fuel (never happens: `C14_seq_terminates`)
deriving Repr, DecidableEq, Inhabited

/-- the body of the `for machine_id, job_ids in enumerate(raw_solution_deques)` loop of
`from_job_sequences` for one machine -/
def jobSeqMachine (I : Instance) (m : Nat) (deques : List (List Nat)) (s : State) (progress : Bool) :
    Except SeqResult (List (List Nat) × State × Bool) :=
  match deques.getD m [] with
  | [] => .ok (deques, s, progress)                      -- `if not job_ids: continue`
  | j :: rest =>
    let p := s.jobIdx.getD j 0
    match getOp I j p with
    | none => .error .indexError
    | some op =>
      if op.machines.contains m then
        match dispatch I s j p m with
        | .ok s' => .ok (deques.set m rest, s', true)
        | .error _ => .error .dispatchError
      else .ok (deques, s, progress)

/-- one pass over all machines, in order; left = an exception escaped -/
def jobSeqPassFrom (I : Instance) : List Nat → List (List Nat) → State → Bool →
    Except SeqResult (List (List Nat) × State × Bool)
  | [], deques, s, progress => .ok (deques, s, progress)
  | m :: ms, deques, s, progress =>
    match jobSeqMachine I m deques s progress with
    | .error e => .error e
    | .ok (d', s', pr') => jobSeqPassFrom I ms d' s' pr'

def jobSeqPass (I : Instance) (deques : List (List Nat)) (s : State) :
    Except SeqResult (List (List Nat) × State × Bool) :=
  jobSeqPassFrom I (List.range deques.length) deques s false

/-- `Schedule.from_job_sequences`: `while not complete: pass; if no progress: raise ValidationError` -/
def fromJobSequences (I : Instance) : Nat → List (List Nat) → State → SeqResult
  | 0, _, s => if isComplete I s then .ok s else .fuel
  | fuel + 1, deques, s =>
    if isComplete I s then .ok s else
    match jobSeqPass I deques s with
    | .error e => e
    | .ok (deques', s', progress) =>
      if progress then fromJobSequences I fuel deques' s' else .validationError

end JS

import JobShopModel.Graph
/-!
# Feature observers, composite observer, reward observers: the feature world

Mirrors `dispatching/feature_observers/*.py` (as they are after the `fix:` commits), the helper
machinery of `Dispatcher.create_or_get_observer` with feature-type conditions, and — because the
environments need them in the same subscriber list — `UnscheduledOperationsObserver`, `HistoryObserver`
and the reward observers again.  Arrays are `float32` in the code; every value is an integer here (exact
below 2^24).  A feature matrix is a list of columns, a column has one value per entity.

Unlike `World.lean` (observers that only touch themselves), a callback here may read and *rewrite other
observers* (`IsCompletedObserver.reset` resets its helper first; the composite observer reads its parts),
so callbacks receive and return the whole heap.  Queries are taken from the pure bodies
(`availablePure` …): memo coherence is C05's business.
-/
namespace JS

inductive FT
  | operations | machines | jobs
deriving Repr, DecidableEq, Inhabited

inductive FKind
  | isReady | earliestStart | duration | isScheduled | positionInJob | remainingOps | isCompleted
  | composite | unscheduled | history | makespanReward | idleReward | residual
deriving Repr, DecidableEq, Inhabited

/-- `_supported_feature_types` (in the order of the class attribute, which is the default order) -/
def FKind.supported : FKind → List FT
  | .positionInJob => [.operations]
  | .remainingOps => [.machines, .jobs]
  | .unscheduled | .history | .makespanReward | .idleReward | .residual => []
  | _ => [.operations, .machines, .jobs]

def FKind.isFeature : FKind → Bool
  | .unscheduled | .history | .makespanReward | .idleReward | .residual => false
  | _ => true

structure FObs where
  kind : FKind
  /-- `features.keys()` in dict order -/
  fts : List FT := []
  /-- `features`: per feature type its columns -/
  cols : List (FT × List (List Int)) := []
  /-- `EarliestStartTimeObserver.earliest_start_times` (existing positions only) -/
  est : List (List Int) := []
  /-- `IsCompletedObserver.remaining_ops_per_job / _per_machine` -/
  remJob : List Int := []
  remMach : List Int := []
  /-- `CompositeFeatureObserver.feature_observers` -/
  parts : List Nat := []
  /-- `UnscheduledOperationsObserver.unscheduled_operations_per_job` -/
  deques : List (List OpRef) := []
  hist : List SOp := []
  rewards : List Int := []
  curMakespan : Int := 0
  /-- `GraphUpdater.job_shop_graph` / `initial_job_shop_graph`, and the two options of the residual updater -/
  graph : Graph := {}
  graph0 : Graph := {}
  rmMach : Bool := true
  rmJob : Bool := true
  /-- `CompositeFeatureObserver.column_names` (set once, by the constructor) -/
  names : List (FT × List String) := []
deriving Repr, DecidableEq, Inhabited

structure FWorld where
  cfg : Cfg
  s : State
  subs : List Nat := []
  heap : List FObs := []
deriving Repr, Inhabited

def FWorld.init (c : Cfg) : FWorld := { cfg := c, s := JS.init c.I }

def numEntities (I : Instance) : FT → Nat
  | .operations => numOps I
  | .machines => numMachines I
  | .jobs => I.length

def zeros (n : Nat) : List Int := List.replicate n 0

/-- the single column of feature type `ft` (0-filled if absent) -/
def FObs.col (o : FObs) (ft : FT) : List Int :=
  match o.cols.find? (·.1 == ft) with
  | some (_, c :: _) => c
  | _ => []

def FObs.setCol (o : FObs) (ft : FT) (c : List Int) : FObs :=
  { o with cols := o.cols.map fun (t, cs) => if t == ft then (t, [c]) else (t, cs) }

def FObs.has (o : FObs) (ft : FT) : Bool := o.fts.contains ft

/-- `np.zeros` for every observed feature type -/
def FObs.zeroed (I : Instance) (o : FObs) : FObs :=
  { o with cols := o.fts.map fun ft => (ft, [zeros (numEntities I ft)]) }

def setAt (l : List Int) (i : Nat) (v : Int) : List Int := l.set i v
def addAt (l : List Int) (i : Nat) (v : Int) : List Int := l.modify i (· + v)
def indicator (n : Nat) (ids : List Nat) : List Int := (List.range n).map fun i => if ids.contains i then 1 else 0

/-! ## the individual observers -/

/-- the ids `_get_ready_feature_ids` returns for a feature type -/
def readyIds (c : Cfg) (s : State) : FT → List Nat
  | .operations => (availablePure c s).map (opId c.I)
  | .machines => availableMachinesPure c s
  | .jobs => availableJobsPure c s

/-- every callback of the single-column observers has this shape: for each observed feature type, in dict
order, assign its column a new value that may depend on the observer's current columns -/
def FObs.assignCols (o : FObs) (g : FObs → FT → List Int) : FObs :=
  o.fts.foldl (fun o ft => o.setCol ft (g o ft)) o

/-- `IsReadyObserver.initialize_features` (= its `update` and `reset`) -/
def isReadyFeatures (c : Cfg) (s : State) (o : FObs) : FObs :=
  (o.zeroed c.I).assignCols fun _ ft => indicator (numEntities c.I ft) (readyIds c s ft)

/-- constructor of `EarliestStartTimeObserver`: cumulative durations per job -/
def estInitial (I : Instance) : List (List Int) :=
  I.map fun job => (job.foldl (fun (acc : List Int × Int) op => (acc.1 ++ [acc.2], acc.2 + op.dur)) ([], 0)).1

/-- `_compute_earliest_start_times`: rewrite the unscheduled suffix of every job's row -/
def estRow (s : State) (j : Nat) (job : List Op) (row : List Int) : List Int :=
  let next := s.jobIdx.getD j 0
  let r := (job.zipIdx.drop next).foldl (fun (acc : List Int × Int) (opi : Op × Nat) =>
      let start := max acc.2 (((opi.1.machines.map fun m => s.machNext.getD m 0).min?).getD 0)
      (acc.1.set opi.2 start, start + opi.1.dur)) (row, s.jobNext.getD j 0)
  r.1

def estCompute (I : Instance) (s : State) (est : List (List Int)) : List (List Int) :=
  I.zipIdx.map fun (job, j) => estRow s j job (est.getD j [])

def estAt (est : List (List Int)) (r : OpRef) : Int := (est.getD r.1 []).getD r.2 0

/-- the columns `EarliestStartTimeObserver.initialize_features` writes, given the matrix -/
def estCol (c : Cfg) (s : State) (o : FObs) : FT → List Int
  | .operations => (allOps c.I).map fun r => estAt o.est r - currentTimePure c s
  | .machines => (List.range (numMachines c.I)).map fun m =>
      let cand := (allOps c.I).filter fun r => !isScheduled s r &&
        (match getOp c.I r.1 r.2 with | some op => op.machines.contains m | none => false)
      ((cand.map (estAt o.est)).min?).getD 0 - currentTimePure c s
  | .jobs => (List.range c.I.length).map fun j =>
      let next := s.jobIdx.getD j 0
      if next == (c.I.getD j []).length then (o.col .jobs).getD j 0 else estAt o.est (j, next) - currentTimePure c s

def estFeatures (c : Cfg) (s : State) (o : FObs) : FObs := o.assignCols (estCol c s)

def opDurF (I : Instance) (r : OpRef) : Int := match getOp I r.1 r.2 with | some op => op.dur | none => 0

/-- `DurationObserver.initialize_features` (after the fix: from the unscheduled operations) -/
def durationInitCol (c : Cfg) (s : State) : FT → List Int
  | .operations => (allOps c.I).map (opDurF c.I)
  | .machines => (List.range (numMachines c.I)).map fun m =>
      (((unscheduledPure c.I s).filter fun r => match getOp c.I r.1 r.2 with
          | some op => op.machines.contains m | none => false).map
        fun r => (match getOp c.I r.1 r.2 with | some op => (op.machines.count m : Int) | none => 0) * opDurF c.I r).sum
  | .jobs => (List.range c.I.length).map fun j =>
      (((unscheduledPure c.I s).filter fun r => r.1 == j).map (opDurF c.I)).sum

def durationInit (c : Cfg) (s : State) (o : FObs) : FObs := o.assignCols fun _ ft => durationInitCol c s ft

/-- `DurationObserver.update` -/
def durationUpdateCol (c : Cfg) (s : State) (x : SOp) (o : FObs) : FT → List Int
  | .operations => setAt (o.col .operations) (opId c.I (x.job, x.pos)) (x.end_ - max x.start (currentTimePure c s))
  | .machines => addAt (o.col .machines) x.machine (-x.dur)
  | .jobs => addAt (o.col .jobs) x.job (-x.dur)

def durationUpdate (c : Cfg) (s : State) (x : SOp) (o : FObs) : FObs := o.assignCols (durationUpdateCol c s x)

/-- `IsScheduledObserver.update` -/
def isScheduledCol (c : Cfg) (s : State) (x : SOp) (o : FObs) : FT → List Int
  | .operations => setAt (o.col .operations) (opId c.I (x.job, x.pos)) 1
  | .machines => (ongoingPure c s).foldl (fun col y => addAt col y.machine 1) (zeros (numMachines c.I))
  | .jobs => (ongoingPure c s).foldl (fun col y => addAt col y.job 1) (zeros c.I.length)

def isScheduledUpdate (c : Cfg) (s : State) (x : SOp) (o : FObs) : FObs := o.assignCols (isScheduledCol c s x)

/-- `PositionInJobObserver.initialize_features` -/
def positionInit (c : Cfg) (s : State) (o : FObs) : FObs :=
  if o.has .operations then
    o.setCol .operations ((unscheduledPure c.I s).foldl (fun col r => setAt col (opId c.I r) r.2) (o.col .operations))
  else o

/-- `PositionInJobObserver.update` -/
def positionUpdate (c : Cfg) (x : SOp) (o : FObs) : FObs :=
  if o.has .operations then
    let n := (c.I.getD x.job []).length
    let later := (List.range n).drop (x.pos + 1)
    o.setCol .operations (later.zipIdx.foldl (fun col (p, k) => setAt col (opId c.I (x.job, p)) k) (o.col .operations))
  else o

/-- `RemainingOperationsObserver.initialize_features` given the unscheduled deques -/
def remainingInit (c : Cfg) (deques : List (List OpRef)) (o : FObs) : FObs :=
  let I := c.I
  deques.flatten.foldl (fun o r =>
    let o := if o.has .jobs then o.setCol .jobs (addAt (o.col .jobs) r.1 1) else o
    if o.has .machines then
      match getOp I r.1 r.2 with
      | some op => o.setCol .machines (op.machines.foldl (fun col m => addAt col m 1) (o.col .machines))
      | none => o
    else o) o

/-- `RemainingOperationsObserver.update` -/
def remainingUpdate (x : SOp) (o : FObs) : FObs :=
  let o := if o.has .jobs then o.setCol .jobs (addAt (o.col .jobs) x.job (-1)) else o
  if o.has .machines then o.setCol .machines (addAt (o.col .machines) x.machine (-1)) else o

/-- `IsCompletedObserver.update` -/
def isCompletedUpdate (c : Cfg) (s : State) (x : SOp) (o : FObs) : FObs :=
  let I := c.I
  let o := if o.has .operations then
      o.setCol .operations ((completedPure c s).foldl (fun col r => setAt col (opId I r) 1) (o.col .operations))
    else o
  let ms := match getOp I x.job x.pos with | some op => op.machines | none => []
  let o := if o.has .machines then
      let rem := ms.foldl (fun col m => addAt col m (-1)) o.remMach
      let o2 := o.setCol .machines (ms.foldl (fun col m => setAt col m (if rem.getD m 0 == 0 then 1 else 0)) (o.col .machines))
      { o2 with remMach := rem }
    else o
  if o.has .jobs then
    let rem := addAt o.remJob x.job (-1)
    let o2 := o.setCol .jobs (setAt (o.col .jobs) x.job (if rem.getD x.job 0 == 0 then 1 else 0))
    { o2 with remJob := rem }
  else o

/-- `popleft` on job `j`'s deque -/
def popJobF (deques : List (List OpRef)) (j : Nat) : List (List OpRef) := deques.modify j List.tail
def fullDequesF (I : Instance) : List (List OpRef) :=
  (List.range I.length).map fun j => (List.range (I.getD j []).length).map fun p => (j, p)

/-- `CompositeFeatureObserver.initialize_features`: concatenate the parts' matrices, feature types in order
of first appearance -/
def compositeCols (heap : List FObs) (parts : List Nat) : List (FT × List (List Int)) :=
  let obs := parts.filterMap fun i => heap[i]?
  let order := obs.foldl (fun (acc : List FT) o => o.cols.foldl (fun acc tc => if acc.contains tc.1 then acc else acc ++ [tc.1]) acc) []
  order.map fun ft => (ft, (obs.flatMap fun o => (o.cols.filter (·.1 == ft)).flatMap (·.2)))

/-- `observer.__class__.__name__.replace("Observer", "")` -/
def FKind.className : FKind → String
  | .isReady => "IsReady" | .earliestStart => "EarliestStartTime" | .duration => "Duration"
  | .isScheduled => "IsScheduled" | .positionInJob => "PositionInJob" | .remainingOps => "RemainingOperations"
  | .isCompleted => "IsCompleted" | .composite => "CompositeFeature" | _ => ""

/-- the column names one component contributes for a feature type: `Name`, or `Name_0 … Name_{k-1}` for `k > 1` columns -/
def partNames (o : FObs) (ft : FT) : List String :=
  (o.cols.filter (·.1 == ft)).flatMap fun tc =>
    if tc.2.length > 1 then (List.range tc.2.length).map fun i => o.kind.className ++ "_" ++ toString i
    else [o.kind.className]

/-- `CompositeFeatureObserver._set_column_names` -/
def compositeNames (heap : List FObs) (parts : List Nat) : List (FT × List String) :=
  let obs := parts.filterMap fun i => heap[i]?
  let order := obs.foldl (fun (acc : List FT) o => o.cols.foldl (fun acc tc => if acc.contains tc.1 then acc else acc ++ [tc.1]) acc) []
  order.map fun ft => (ft, obs.flatMap fun o => partNames o ft)

/-- `if <cond> and not graph.is_removed(node): graph.remove_node(node)` -/
def removeIf (g : Graph) (nid : Nat) (cond : Bool) : Graph :=
  if cond && !(g.removed.getD nid true) then g.removeNode nid else g

/-- `remove_completed_operations(graph, completed_operations)` -/
def removeCompletedOps (I : Instance) (g : Graph) (refs : List OpRef) : Graph :=
  refs.foldl (fun g r => removeIf g (opId I r) true) g

/-- `_remove_completed_machine_nodes` / `_remove_completed_job_nodes`: for every entity whose completion flag is 1,
remove its node if it is still there -/
def removeFlagged (g : Graph) (flags : List Int) (kind : Nat → NodeKind) : Graph :=
  flags.zipIdx.foldl (fun g (fm : Int × Nat) => removeIf g (nodeIdOf g (kind fm.2)) (fm.1 == 1)) g

def hasMachineNodes (g : Graph) : Bool := g.nodes.any fun k => match k with | .machine _ => true | _ => false
def hasJobNodes (g : Graph) : Bool := g.nodes.any fun k => match k with | .job _ => true | _ => false

/-- `ResidualGraphUpdater.update`: remove the nodes of completed operations, then the machine nodes and the
job nodes whose completion flag (read from the `IsCompletedObserver` it holds) is 1 -/
def residualUpdate (c : Cfg) (s : State) (heap : List FObs) (o : FObs) : Graph :=
  let ic : FObs := match o.parts.head? with | some i => heap.getD i default | none => default
  let g1 := removeCompletedOps c.I o.graph (completedPure c s)
  let g2 := if o.rmMach && hasMachineNodes g1 then removeFlagged g1 (ic.col .machines) .machine else g1
  if o.rmJob && hasJobNodes g2 then removeFlagged g2 (ic.col .jobs) .job else g2

/-! ## world-level operations -/

/-- `dispatcher.create_or_get_observer(cls, condition=has these feature types)` lookup part -/
def FWorld.findObs (w : FWorld) (kind : FKind) (need : List FT) : Option Nat :=
  w.subs.find? fun id => match w.heap[id]? with
    | some o => o.kind == kind && need.all (fun ft => o.fts.contains ft)
    | none => false

def FWorld.push (w : FWorld) (o : FObs) : FWorld × Nat :=
  ({ w with subs := w.subs ++ [w.heap.length], heap := w.heap ++ [o] }, w.heap.length)

def FWorld.setObs (w : FWorld) (id : Nat) (o : FObs) : FWorld := { w with heap := w.heap.set id o }

/-- `create_or_get_observer(UnscheduledOperationsObserver)` -/
def FWorld.getUnscheduled (w : FWorld) : FWorld × Nat :=
  match w.findObs .unscheduled [] with
  | some id => (w, id)
  | none =>
    let dq := w.s.sched.flatten.foldl (fun d x => popJobF d x.job) (fullDequesF w.cfg.I)
    w.push { kind := .unscheduled, deques := dq }

/-- `RemainingOperationsObserver(dispatcher, feature_types=fts)`: subscribe, zero arrays, initialise -/
def FWorld.newRemaining (w : FWorld) (fts : List FT) : FWorld × Nat :=
  let (w1, id) := w.push (({ kind := .remainingOps, fts := fts } : FObs).zeroed w.cfg.I)
  let (w2, uid) := w1.getUnscheduled
  let deques := (w2.heap.getD uid default).deques
  (w2.setObs id (remainingInit w2.cfg deques (w2.heap.getD id default)), id)

def FWorld.getRemaining (w : FWorld) (need : List FT) : FWorld × Nat :=
  match w.findObs .remainingOps need with
  | some id => (w, id)
  | none => w.newRemaining need

/-- `IsCompletedObserver.initialize_features` for the observer `id` -/
def FWorld.isCompletedInit (w : FWorld) (id : Nat) : FWorld :=
  let o := (w.heap.getD id default).zeroed w.cfg.I
  let w := w.setObs id o
  let need := o.fts.filter (· != .operations)
  let (w, rid) := w.getRemaining need
  let r := w.heap.getD rid default
  let o := w.heap.getD id default
  let rj := if o.has .jobs then r.col .jobs else o.remJob
  let rm := if o.has .machines then r.col .machines else o.remMach
  w.setObs id { o with remJob := rj, remMach := rm }

/-- order feature types as `_get_feature_types_list` returns them: the given list, or all supported -/
def resolveFts (kind : FKind) (fts : Option (List FT)) : Option (List FT) :=
  match fts with
  | none => some kind.supported
  | some l => if l.all (fun ft => kind.supported.contains ft) then some l else none

/-- constructors of the observers (subscribe=True).  `none` = the constructor raised (nothing changed). -/
def FWorld.construct (w : FWorld) (kind : FKind) (fts : Option (List FT)) : FWorld × Option Nat :=
  let I := w.cfg.I
  match kind with
  | .unscheduled | .history | .makespanReward | .idleReward =>
    -- singletons
    if w.subs.any (fun id => (w.heap[id]?.map (·.kind)) == some kind) then (w, none) else
    let o : FObs := match kind with
      | .unscheduled =>
        let dq := w.s.sched.flatten.foldl (fun d x => popJobF d x.job) (fullDequesF I)
        { kind := kind, deques := dq }
      | .makespanReward => { kind := kind, curMakespan := makespan w.s }
      | _ => { kind := kind }
    let (w', id) := w.push o
    (w', some id)
  | .composite | .residual => (w, none)   -- built with `constructComposite` / `constructResidual`
  | _ =>
    match resolveFts kind fts with
    | none => (w, none)
    | some l =>
      let base : FObs := ({ kind := kind, fts := l, est := if kind == .earliestStart then estInitial I else [] } : FObs).zeroed I
      let (w1, id) := w.push base
      match kind with
      | .isReady => (w1.setObs id (isReadyFeatures w1.cfg w1.s base), some id)
      | .earliestStart => (w1.setObs id (estFeatures w1.cfg w1.s base), some id)
      | .duration => (w1.setObs id (durationInit w1.cfg w1.s base), some id)
      | .isScheduled => (w1, some id)
      | .positionInJob => (w1.setObs id (positionInit w1.cfg w1.s base), some id)
      | .remainingOps =>
        let (w2, uid) := w1.getUnscheduled
        let deques := (w2.heap.getD uid default).deques
        (w2.setObs id (remainingInit w2.cfg deques base), some id)
      | .isCompleted => (w1.isCompletedInit id, some id)
      | _ => (w1, some id)

/-- `CompositeFeatureObserver(dispatcher, feature_observers=parts)`; `none` parts = all subscribed feature
observers.  Raises when a part observes a feature type outside the composite's (all three by default). -/
def FWorld.constructComposite (w : FWorld) (parts : Option (List Nat)) : FWorld × Option Nat :=
  let ps := match parts with
    | some l => l
    | none => w.subs.filter fun id => match w.heap[id]? with | some o => o.kind.isFeature | none => false
  let o : FObs := { kind := .composite, parts := ps }
  let (w1, id) := w.push o
  (w1.setObs id { o with cols := compositeCols w1.heap ps, fts := (compositeCols w1.heap ps).map (·.1),
                         names := compositeNames w1.heap ps }, some id)

/-- `create_or_get_observer(IsCompletedObserver, condition=has all of these feature types, feature_types=…)` -/
def FWorld.getIsCompleted (w : FWorld) (need : List FT) : FWorld × Nat :=
  match w.findObs .isCompleted need with
  | some id => (w, id)
  | none =>
    let base : FObs := ({ kind := .isCompleted, fts := need } : FObs).zeroed w.cfg.I
    let (w1, id) := w.push base
    (w1.isCompletedInit id, id)

/-- `ResidualGraphUpdater(dispatcher, graph, remove_completed_machine_nodes=…, remove_completed_job_nodes=…)`:
the `IsCompletedObserver` is obtained *before* the updater subscribes itself -/
def FWorld.constructResidual (w : FWorld) (g : Graph) (rmMach rmJob : Bool) : FWorld × Option Nat :=
  if w.subs.any (fun id => (w.heap[id]?.map (·.kind)) == some FKind.residual) then (w, none) else
  let need := (if rmMach then [FT.machines] else []) ++ (if rmJob then [FT.jobs] else [])
  let (w1, parts) := if need.isEmpty then (w, []) else
    let r := w.getIsCompleted need
    (r.1, [r.2])
  let (w2, id) := w1.push { kind := .residual, parts := parts, graph := g, graph0 := g, rmMach := rmMach, rmJob := rmJob }
  (w2, some id)

/-- `observer.update(x)` on observer `id`; may rewrite other observers -/
def FWorld.callUpdate (w : FWorld) (x : SOp) (id : Nat) : FWorld :=
  match w.heap[id]? with
  | none => w
  | some o =>
    let c := w.cfg
    let s := w.s
    match o.kind with
    | .isReady => w.setObs id (isReadyFeatures c s o)
    | .earliestStart =>
      let o1 := { o with est := estCompute c.I s o.est }
      w.setObs id (estFeatures c s o1)
    | .duration => w.setObs id (durationUpdate c s x o)
    | .isScheduled => w.setObs id (isScheduledUpdate c s x o)
    | .positionInJob => w.setObs id (positionUpdate c x o)
    | .remainingOps => w.setObs id (remainingUpdate x o)
    | .isCompleted => w.setObs id (isCompletedUpdate c s x o)
    | .composite =>
      let cols := compositeCols w.heap o.parts
      w.setObs id { o with cols := cols, fts := cols.map (·.1) }
    | .unscheduled => w.setObs id { o with deques := popJobF o.deques x.job }
    | .history => w.setObs id { o with hist := o.hist ++ [x] }
    | .makespanReward =>
      let cur := max o.curMakespan x.end_
      w.setObs id { o with curMakespan := cur, rewards := o.rewards ++ [o.curMakespan - cur] }
    | .idleReward =>
      let before := (s.sched.getD x.machine []).dropLast
      let idle := match before.getLast? with | some l => x.start - l.end_ | none => x.start
      w.setObs id { o with rewards := o.rewards ++ [-idle] }
    | .residual => w.setObs id { o with graph := residualUpdate c s w.heap o }

/-- `RemainingOperationsObserver.reset` (after the fix: the helper is reset first) -/
def FWorld.resetRemaining (w : FWorld) (id : Nat) : FWorld :=
  let (w, uid) := w.getUnscheduled
  let u := w.heap.getD uid default
  let w := w.setObs uid { u with deques := fullDequesF w.cfg.I }
  let o := (w.heap.getD id default).zeroed w.cfg.I
  w.setObs id (remainingInit w.cfg (w.heap.getD uid default).deques o)

/-- `observer.reset()` on observer `id` -/
def FWorld.callReset (w : FWorld) (id : Nat) : FWorld :=
  match w.heap[id]? with
  | none => w
  | some o =>
    let c := w.cfg
    let s := w.s
    match o.kind with
    | .isReady => w.setObs id (isReadyFeatures c s o)
    | .earliestStart =>
      let o1 := { o with est := estCompute c.I s o.est }
      w.setObs id (estFeatures c s (o1.zeroed c.I))
    | .duration => w.setObs id (durationInit c s (o.zeroed c.I))
    | .isScheduled => w.setObs id (o.zeroed c.I)
    | .positionInJob => w.setObs id (positionInit c s (o.zeroed c.I))
    | .remainingOps => w.resetRemaining id
    | .isCompleted =>
      -- the remaining-operations helper is reset first, then `initialize_features`
      let need := o.fts.filter (· != .operations)
      let (w1, rid) := w.getRemaining need
      (w1.resetRemaining rid).isCompletedInit id
    | .composite =>
      let cols := compositeCols w.heap o.parts
      w.setObs id { o with cols := cols, fts := cols.map (·.1) }
    | .unscheduled => w.setObs id { o with deques := fullDequesF c.I }
    | .history => w.setObs id { o with hist := [] }
    | .makespanReward => w.setObs id { o with rewards := [], curMakespan := makespan s }
    | .idleReward => w.setObs id { o with rewards := [] }
    | .residual => w.setObs id { o with graph := o.graph0 }

/-- `Dispatcher.dispatch` on the feature world (the subscriber list is iterated as it is when the loop starts) -/
def FWorld.dispatch (w : FWorld) (j p : Nat) (m : Option Int) : FWorld × Bool :=
  match dispatchReq w.cfg.I w.s j p m with
  | .error _ => (w, false)
  | .ok s' =>
    match (s'.sched.flatten.find? fun x => x.job == j && x.pos == p) with
    | none => ({ w with s := s' }, true)
    | some x => (w.subs.foldl (fun w id => w.callUpdate x id) { w with s := s' }, true)

/-- `Dispatcher.unsubscribe(observer)`: the observer leaves the subscriber list (`list.remove`; the caller gets a `ValueError` when
it is not subscribed, modelled by the `Bool`); the object itself stays in the heap, no longer notified and no longer found by the
`create_or_get_observer`-style lookups, which scan the subscribers -/
def FWorld.unsubscribe (w : FWorld) (id : Nat) : FWorld × Bool :=
  if w.subs.contains id then ({ w with subs := w.subs.erase id }, true) else (w, false)

/-- `Dispatcher.reset` on the feature world -/
def FWorld.reset (w : FWorld) : FWorld :=
  w.subs.foldl (fun w id => w.callReset id) { w with s := JS.init w.cfg.I }

end JS

namespace JS

/-- events of the feature world -/
inductive FEv
  | disp (j p : Nat) (m : Option Int)
  | reset
  | construct (k : FKind) (fts : Option (List FT))
  | composite (parts : Option (List Nat))
  | residual (b : Builder) (rmMach rmJob : Bool)
deriving Repr, DecidableEq, Inhabited

def FWorld.step (w : FWorld) : FEv → FWorld
  | .disp j p m => (w.dispatch j p m).1
  | .reset => w.reset
  | .construct k fts => (w.construct k fts).1
  | .composite parts => (w.constructComposite parts).1
  | .residual b rmMach rmJob => (w.constructResidual (build b w.cfg.I) rmMach rmJob).1

def FWorld.run (c : Cfg) (evs : List FEv) : FWorld := evs.foldl FWorld.step (FWorld.init c)

end JS

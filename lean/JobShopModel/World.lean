import JobShopModel.Events
/-!
# Dispatcher + observers: the world

Mirrors the observer machinery of `job_shop_lib/dispatching/_dispatcher.py` (`DispatcherObserver.__init__`
with the singleton guard, `subscribe`, `unsubscribe`, the notification loop of
`_update_tracking_attributes`, `reset`, `create_or_get_observer`), `_history_observer.py`,
`_unscheduled_operations_observer.py` and `reinforcement_learning/_reward_observers.py`.

Python observers are objects referring to the dispatcher; here they live in a heap (`World.heap`)
addressed by ids, and `World.subs` is `Dispatcher.subscribers` (ids, in subscription order).
`recorder` is the test observer of the harness: it logs every call it receives together with a snapshot
of what the dispatcher shows at that moment.
-/
namespace JS

inductive ObsKind
  | history | unscheduled | makespanReward | idleReward | recorder
deriving Repr, DecidableEq, Inhabited

/-- what a recorder sees when it is called: the dispatcher's schedule, vectors and two query answers -/
structure Snapshot where
  sched : List (List SOp)
  machNext : List Int
  jobIdx : List Nat
  jobNext : List Int
  currentTime : Int
  unscheduled : List OpRef
deriving Repr, DecidableEq, Inhabited

inductive Notif
  | update (x : SOp) (snap : Snapshot)
  | reset (snap : Snapshot)
deriving Repr, DecidableEq, Inhabited

/-- one observer object (all classes share this record; a class uses the fields it declares) -/
structure Obs where
  kind : ObsKind
  /-- `HistoryObserver.history` -/
  hist : List SOp := []
  /-- `UnscheduledOperationsObserver.unscheduled_operations_per_job` -/
  deques : List (List OpRef) := []
  /-- `RewardObserver.rewards` -/
  rewards : List Int := []
  /-- `MakespanReward.current_makespan` -/
  curMakespan : Int := 0
  /-- recorder log -/
  log : List Notif := []
  /-- an attribute that `create_or_get_observer` conditions can test (the harness' recorder has a `tag`;
  feature observers use their feature types the same way) -/
  tag : Nat := 0
deriving Repr, DecidableEq, Inhabited

/-- `_is_singleton` of each class (the harness' recorder sets it to `False`) -/
def ObsKind.singleton : ObsKind → Bool
  | .recorder => false
  | _ => true

structure World where
  cfg : Cfg
  s : State
  /-- `Dispatcher.subscribers` -/
  subs : List Nat := []
  /-- every observer object ever constructed, by id -/
  heap : List Obs := []
  /-- global order of recorder calls `(observer id, call)`: lets theorems speak about notification order
  across observers (the harness' recorders share one Python list) -/
  trace : List (Nat × Notif) := []
  /-- ghost: the accepted dispatches since the last reset, in order (no Python counterpart; it lets
  theorems say "the dispatch sequence" without mentioning any observer) -/
  accepted : List SOp := []
deriving Repr, Inhabited

def World.init (c : Cfg) : World := { cfg := c, s := JS.init c.I }

def takeSnapshot (c : Cfg) (s : State) : Snapshot × State :=
  let r1 := qCurrentTime c s
  let r2 := qUnscheduled c r1.2
  ({ sched := s.sched, machNext := s.machNext, jobIdx := s.jobIdx, jobNext := s.jobNext,
     currentTime := r1.1, unscheduled := r2.1 }, r2.2)

/-- `deque.popleft()` on the job's deque if it is non-empty -/
def popJob (deques : List (List OpRef)) (j : Nat) : List (List OpRef) :=
  deques.modify j List.tail

/-- `UnscheduledOperationsObserver.reset`: one deque per job with all its operations -/
def fullDeques (I : Instance) : List (List OpRef) :=
  (List.range I.length).map fun j => (List.range (I.getD j []).length).map fun p => (j, p)

/-- `IdleTimeReward.update`: gap between the new operation and the one before it on the machine
(`machine_schedule = schedule[machine_id][:-1]`), or its start time when it is the first -/
def idleGap (before : List SOp) (x : SOp) : Int :=
  match before.getLast? with
  | some l => x.start - l.end_
  | none => x.start

/-- `observer.update(scheduled_operation)`; may query the dispatcher (and so fill its memo) -/
def Obs.update (c : Cfg) (s : State) (id : Nat) (x : SOp) (o : Obs) : Obs × State × List (Nat × Notif) :=
  match o.kind with
  | .history => ({ o with hist := o.hist ++ [x] }, s, [])
  | .unscheduled => ({ o with deques := popJob o.deques x.job }, s, [])
  | .makespanReward =>
    let cur := max o.curMakespan x.end_
    ({ o with curMakespan := cur, rewards := o.rewards ++ [o.curMakespan - cur] }, s, [])
  | .idleReward =>
    -- `self.dispatcher.schedule.schedule[machine_id][:-1]`
    ({ o with rewards := o.rewards ++ [-(idleGap (s.sched.getD x.machine []).dropLast x)] }, s, [])
  | .recorder =>
    let r := takeSnapshot c s
    ({ o with log := o.log ++ [.update x r.1] }, r.2, [(id, .update x r.1)])

/-- `observer.reset()` -/
def Obs.reset (c : Cfg) (s : State) (id : Nat) (o : Obs) : Obs × State × List (Nat × Notif) :=
  match o.kind with
  | .history => ({ o with hist := [] }, s, [])
  | .unscheduled => ({ o with deques := fullDeques c.I }, s, [])
  | .makespanReward => ({ o with rewards := [], curMakespan := makespan s }, s, [])
  | .idleReward => ({ o with rewards := [] }, s, [])
  | .recorder =>
    let r := takeSnapshot c s
    ({ o with log := o.log ++ [.reset r.1] }, r.2, [(id, .reset r.1)])

/-- call `f` on each subscriber in subscription order, threading the dispatcher state -/
def notifyAll (f : State → Nat → Obs → Obs × State × List (Nat × Notif)) :
    List Nat → State → List Obs → List (Nat × Notif) → State × List Obs × List (Nat × Notif)
  | [], s, heap, tr => (s, heap, tr)
  | id :: rest, s, heap, tr =>
    match heap[id]? with
    | none => notifyAll f rest s heap tr
    | some o =>
      let r := f s id o
      notifyAll f rest r.2.1 (heap.set id r.1) (tr ++ r.2.2)

/-- `Dispatcher.dispatch` on the world: the dispatcher part, then the notification loop.  A rejected
request leaves the world untouched (see `JobShopModel/Staged.lean` for the statement-level model). -/
def World.dispatch (w : World) (j p : Nat) (m : Option Int) : World × Outcome :=
  match dispatchReq w.cfg.I w.s j p m with
  | .error e => (w, .raised e)
  | .ok s' =>
    match (s'.sched.flatten.find? fun x => x.job == j && x.pos == p) with
    | none => ({ w with s := s' }, .ok)   -- unreachable: the new entry is in the schedule
    | some x =>
      let r := notifyAll (fun s id o => Obs.update w.cfg s id x o) w.subs s' w.heap w.trace
      ({ w with s := r.1, heap := r.2.1, trace := r.2.2, accepted := w.accepted ++ [x] }, .ok)

/-- `Dispatcher.reset` -/
def World.reset (w : World) : World :=
  let s0 := JS.reset w.cfg.I w.s
  let r := notifyAll (fun s id o => Obs.reset w.cfg s id o) w.subs s0 w.heap w.trace
  { w with s := r.1, heap := r.2.1, trace := r.2.2, accepted := [] }

/-- class-specific part of the constructors, run after `subscribe` -/
def Obs.construct (c : Cfg) (s : State) (kind : ObsKind) (tag : Nat := 0) : Obs :=
  match kind with
  | .history => { kind := kind, tag := tag }
  | .unscheduled =>
    -- reset(), then `update` for every operation already in the schedule
    { kind := kind, tag := tag, deques := s.sched.flatten.foldl (fun d x => popJob d x.job) (fullDeques c.I) }
  | .makespanReward => { kind := kind, tag := tag, curMakespan := makespan s }
  | .idleReward => { kind := kind, tag := tag }
  | .recorder => { kind := kind, tag := tag }

/-- `Kind(dispatcher, subscribe=True)`: singleton guard, subscribe, class-specific initialisation.
Returns the new observer's id, or `none` when the guard raises (nothing changes then). -/
def World.construct (w : World) (kind : ObsKind) (tag : Nat := 0) : World × Option Nat :=
  if kind.singleton && w.subs.any (fun id => (w.heap[id]?.map (·.kind)) == some kind) then (w, none)
  else
    let id := w.heap.length
    ({ w with subs := w.subs ++ [id], heap := w.heap ++ [Obs.construct w.cfg w.s kind tag] }, some id)

/-- `Kind(dispatcher, subscribe=False)`: the singleton check still runs, the new observer is NOT subscribed -/
def World.constructDetached (w : World) (kind : ObsKind) (tag : Nat := 0) : World × Option Nat :=
  if kind.singleton && w.subs.any (fun id => (w.heap[id]?.map (·.kind)) == some kind) then (w, none)
  else ({ w with heap := w.heap ++ [Obs.construct w.cfg w.s kind tag] }, some w.heap.length)

/-- `dispatcher.unsubscribe(observer)`: `list.remove` (raises `ValueError` when absent) -/
def World.unsubscribe (w : World) (id : Nat) : World × Bool :=
  if w.subs.contains id then ({ w with subs := w.subs.erase id }, true) else (w, false)

/-- `dispatcher.subscribe(observer)` for an observer that is not subscribed (re-subscription) -/
def World.resubscribe (w : World) (id : Nat) : World × Bool :=
  if w.subs.contains id || id ≥ w.heap.length then (w, false) else ({ w with subs := w.subs ++ [id] }, true)

/-- `dispatcher.create_or_get_observer(Kind)`: first subscribed observer of the class, else construct -/
def World.createOrGet (w : World) (kind : ObsKind) : World × Option Nat :=
  match w.subs.find? (fun id => (w.heap[id]?.map (·.kind)) == some kind) with
  | some id => (w, some id)
  | none => w.construct kind

/-- `dispatcher.create_or_get_observer(Kind, condition=lambda o: o.tag == tag, tag=tag)`: the first
subscribed observer of the class *that satisfies the condition*, else construct one -/
def World.createOrGetCond (w : World) (kind : ObsKind) (tag : Nat) : World × Option Nat :=
  match w.subs.find? (fun id => (w.heap[id]?.map fun o => (o.kind, o.tag)) == some (kind, tag)) with
  | some id => (w, some id)
  | none => w.construct kind tag

/-- a query on the dispatcher of the world -/
def World.ask (w : World) (q : Query) : World × Answer :=
  let r := JS.ask w.cfg w.s q
  ({ w with s := r.2 }, r.1)

inductive WEv
  | disp (j p : Nat) (m : Option Int)
  | reset
  | query (q : Query)
  | construct (k : ObsKind)
  | constructTagged (k : ObsKind) (tag : Nat)
  | constructDetached (k : ObsKind)
  | createOrGet (k : ObsKind)
  | createOrGetCond (k : ObsKind) (tag : Nat)
  | unsub (id : Nat)
  | resub (id : Nat)
deriving Repr, DecidableEq, Inhabited

def World.step (w : World) : WEv → World
  | .disp j p m => (w.dispatch j p m).1
  | .reset => w.reset
  | .query q => (w.ask q).1
  | .construct k => (w.construct k).1
  | .constructTagged k t => (w.construct k t).1
  | .constructDetached k => (w.constructDetached k).1
  | .createOrGet k => (w.createOrGet k).1
  | .createOrGetCond k t => (w.createOrGetCond k t).1
  | .unsub id => (w.unsubscribe id).1
  | .resub id => (w.resubscribe id).1

def World.run (c : Cfg) (evs : List WEv) : World := evs.foldl World.step (World.init c)

end JS

import JobShopModel.Views
import JobShopModel.Core
/-!
# The CP-SAT model `ORToolsSolver` builds, and the schedule it reads back

Mirrors `constraint_programming/_ortools_solver.py`: `_create_variables`, `_add_job_constraints`,
`_add_machine_constraints`, `_set_objective` produce a `CpModelProto`; `_create_schedule` turns a solution into a
`Schedule`.  `cpModel I` is that proto as data (variables with domains, constraints in creation order, the
objective); the harness prints the real solver's proto in the same canonical form and compares.  The *meaning* of
the constraint kinds (`CpCon.holds`) follows the proto's documentation and is part of the trusted base, as is
CP-SAT itself: a returned solution satisfies the model, `OPTIMAL` means no solution has a smaller objective, and
`INFEASIBLE` is reported only for a model without solutions.
-/
namespace JS

/-- an interval `(start variable, constant size, end variable)` -/
abbrev Itv := Nat × Int × Nat

inductive CpCon
  /-- `lo ≤ Σ coeff·var ≤ hi`; `lo = none` is `INT64_MIN` -/
  | lin (terms : List (Int × Nat)) (lo : Option Int) (hi : Int)
  /-- `NewIntervalVar(start, size, end)`: enforces `start + size = end` -/
  | interval (iv : Itv)
  /-- `AddNoOverlap(intervals)` -/
  | noOverlap (ivs : List Itv)
  /-- `AddMaxEquality(target, exprs)` -/
  | linMax (target : Nat) (exprs : List Nat)
deriving Repr, DecidableEq, Inhabited

structure CpModel where
  doms : List (Int × Int)
  cons : List CpCon
  objective : Nat
deriving Repr, DecidableEq, Inhabited

/-- `operation.machine_id` of a non-flexible operation -/
def machOf (I : Instance) (r : OpRef) : Nat := match getOp I r.1 r.2 with | some op => op.machines.headD 0 | none => 0
def durOf (I : Instance) (r : OpRef) : Int := match getOp I r.1 r.2 with | some op => op.dur | none => 0

def startVar (I : Instance) (r : OpRef) : Nat := 2 * opId I r
def endVar (I : Instance) (r : OpRef) : Nat := 2 * opId I r + 1
def makespanVar (I : Instance) : Nat := 2 * numOps I
def itvOf (I : Instance) (r : OpRef) : Itv := (startVar I r, durOf I r, endVar I r)

/-- the operations on machine `m`, in job-major order -/
def opsOn (I : Instance) (m : Nat) : List OpRef := (allOps I).filter fun r => machOf I r == m

/-- `_initialize_model` -/
def cpModel (I : Instance) : CpModel :=
  let H := totalDuration I
  let ops := allOps I
  { doms := List.replicate (2 * numOps I + 1) (0, H),
    cons :=
      (ops.map fun r => CpCon.lin [(-1, startVar I r), (1, endVar I r)] (some (durOf I r)) (durOf I r)) ++
      (ops.filterMap fun r => if r.2 = 0 then none else
        some (CpCon.lin [(1, endVar I (r.1, r.2 - 1)), (-1, startVar I r)] none 0)) ++
      ((List.range (numMachines I)).flatMap fun m =>
        ((opsOn I m).map fun r => CpCon.interval (itvOf I r)) ++ [CpCon.noOverlap ((opsOn I m).map (itvOf I))]) ++
      [CpCon.linMax (makespanVar I) (ops.map (endVar I))],
    objective := makespanVar I }

/-! ## meaning of a model -/

/-- consecutive elements are related -/
def Consec {α} (R : α → α → Prop) : List α → Prop
  | [] => True
  | [_] => True
  | a :: b :: t => R a b ∧ Consec R (b :: t)

def linSum (v : Nat → Int) (terms : List (Int × Nat)) : Int := (terms.map fun cx => cx.1 * v cx.2).sum

/-- the proto's documentation: *"there must exist a sequence so that for each consecutive intervals, we have
`end_i <= start_{i+1}`. In particular, intervals of size zero do matter for this constraint."* -/
def NoOverlap (v : Nat → Int) (ivs : List Itv) : Prop :=
  ∃ order : List Itv, order.Perm ivs ∧ Consec (fun a b => v a.2.2 ≤ v b.1) order

def CpCon.holds (v : Nat → Int) : CpCon → Prop
  | .lin terms lo hi => (match lo with | some l => l ≤ linSum v terms | none => True) ∧ linSum v terms ≤ hi
  | .interval iv => v iv.1 + iv.2.1 = v iv.2.2
  | .noOverlap ivs => NoOverlap v ivs
  | .linMax target exprs => (∀ e ∈ exprs, v e ≤ v target) ∧ ∃ e ∈ exprs, v e = v target

/-- `v` is a solution of the model -/
structure CpModel.Sat (m : CpModel) (v : Nat → Int) : Prop where
  dom : ∀ i lh, m.doms[i]? = some lh → lh.1 ≤ v i ∧ v i ≤ lh.2
  con : ∀ c ∈ m.cons, c.holds v

/-! ## `_create_schedule` -/

/-- `sorted(key=lambda x: (x.start_time, x.end_time))` as a stable insertion sort -/
def keyLe (a b : SOp) : Bool := a.start < b.start || (a.start == b.start && a.end_ ≤ b.end_)

def insertSOp (x : SOp) : List SOp → List SOp
  | [] => [x]
  | y :: ys => if keyLe y x then y :: insertSOp x ys else x :: y :: ys

def sortSOps (l : List SOp) : List SOp := l.foldl (fun acc x => insertSOp x acc) []

def sopOf (I : Instance) (v : Nat → Int) (r : OpRef) : SOp :=
  { job := r.1, pos := r.2, machine := machOf I r, start := v (startVar I r), dur := durOf I r }

/-- the schedule built from a solution: per machine, its operations sorted by `(start, end)` -/
def cpSchedule (I : Instance) (v : Nat → Int) : List (List SOp) :=
  (List.range (numMachines I)).map fun m => sortSOps ((opsOn I m).map (sopOf I v))

/-- `Schedule.check` as run by the constructor: consecutive operations on a machine do not overlap -/
def scheduleCheck (S : List (List SOp)) : Bool :=
  S.all fun ms => (ms.zip ms.tail).all fun ab => decide (ab.1.end_ ≤ ab.2.start)

/-- `Schedule.makespan()` of a schedule given as per-machine lists (reads the last operation of each machine) -/
def scheduleMakespan (S : List (List SOp)) : Int := S.foldl makespanStep 0

/-- `solve`: what is returned for a solution `v` — `none` when the `Schedule` constructor's check raises -/
def cpResult (I : Instance) (v : Nat → Int) : Option (List (List SOp) × Int) :=
  let S := cpSchedule I v
  if scheduleCheck S then some (S, v (makespanVar I)) else none

end JS

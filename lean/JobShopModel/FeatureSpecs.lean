import JobShopModel.Features
/-!
# From-scratch specifications of the feature observers' values (executable)

Every definition here is written from the instance and the dispatcher state only (no observer state): it is the
"independent recomputation" of C11.  They live in the model library so that the driver can print them (`fspec`) and
the correspondence check can compare them with the Python oracle's recomputation from the real schedule — the
right-hand sides of the C11 theorems are validated against the implementation just like the left-hand sides.
The theorems relating the incremental observers to these specifications are in `JobShopProofs` (`FeatPosition`,
`FeatCompleted`, `FeatMachines`, `FeatEst`, `FeatureWorld*`, `Properties/C11World`).
-/
namespace JS

/-- `m` is one of the eligible machines of operation `r` -/
def onMachine (I : Instance) (m : Nat) (r : OpRef) : Bool :=
  match getOp I r.1 r.2 with
  | some op => op.machines.contains m
  | none => false

/-- how many times `m` is listed among the machines of `r` (1 or 0 for valid instances) -/
def machCount (I : Instance) (m : Nat) (r : OpRef) : Int :=
  match getOp I r.1 r.2 with
  | some op => (op.machines.count m : Int)
  | none => 0

/-! ## DurationObserver -/

/-- job level: remaining work of each job = total duration of its unscheduled operations -/
def durJobsSpec (I : Instance) (s : State) : List Int :=
  (List.range I.length).map fun j => (((unscheduledPure I s).filter fun r => r.1 == j).map (opDurF I)).sum

/-- machine level: total duration of the unscheduled operations that may run on the machine -/
def durMachSpec (I : Instance) (s : State) : List Int :=
  (List.range (numMachines I)).map fun m =>
    (((unscheduledPure I s).filter (onMachine I m)).map fun r => machCount I m r * opDurF I r).sum

/-! ## RemainingOperationsObserver / IsCompletedObserver counters -/

/-- job level: the number of unscheduled operations of each job -/
def remJobsSpec (I : Instance) (s : State) : List Int :=
  (List.range I.length).map fun j => (((unscheduledPure I s).filter fun r => r.1 == j).length : Int)

/-- machine level: number of unscheduled operations that may run on the machine -/
def remMachSpec (I : Instance) (s : State) : List Int :=
  (List.range (numMachines I)).map fun m => (((unscheduledPure I s).map (machCount I m)).sum)

/-- the per-job lists `UnscheduledOperationsObserver` keeps -/
def dequesSpec (I : Instance) (s : State) : List (List OpRef) :=
  (List.range I.length).map fun j =>
    ((List.range (I.getD j []).length).drop (s.jobIdx.getD j 0)).map fun p => (j, p)

/-! ## IsScheduledObserver -/

/-- operation level: 1 for scheduled operations, 0 otherwise -/
def schedOpsSpec (I : Instance) (s : State) : List Int :=
  (allOps I).map fun r => if isScheduled s r then 1 else 0

/-- machine and job level: number of ongoing operations -/
def ongoingMachSpec (c : Cfg) (s : State) : List Int :=
  (List.range (numMachines c.I)).map fun m => (((ongoingPure c s).filter fun y => y.machine == m).length : Int)

def ongoingJobsSpec (c : Cfg) (s : State) : List Int :=
  (List.range c.I.length).map fun j => (((ongoingPure c s).filter fun y => y.job == j).length : Int)

/-! ## PositionInJobObserver -/

/-- the value documented for an unscheduled operation: the number of unscheduled operations that precede it in
its job -/
def posSpec (s : State) (r : OpRef) : Int := (r.2 : Int) - (s.jobIdx.getD r.1 0 : Nat)

/-! ## IsCompletedObserver -/

def complOpsSpec (c : Cfg) (s : State) : List Int :=
  (allOps c.I).map fun r => if (completedPure c s).contains r then 1 else 0

/-- a job's flag: it has operations and none of them is unscheduled -/
def complJobsSpec (I : Instance) (s : State) : List Int :=
  (List.range I.length).map fun j =>
    if (remJobsSpec I s).getD j 0 = 0 ∧ (I.getD j []).length ≠ 0 then 1 else 0

/-- some operation of the instance may run on `m` -/
def machineUsed (I : Instance) (m : Nat) : Bool := (allOps I).any (onMachine I m)

/-- a machine's flag: it has operations and none of them is unscheduled -/
def complMachSpec (I : Instance) (s : State) : List Int :=
  (List.range (numMachines I)).map fun m =>
    if (remMachSpec I s).getD m 0 = 0 ∧ machineUsed I m = true then 1 else 0

/-! ## EarliestStartTimeObserver -/

/-- earliest start times of a chain of operations of one job that is free from time `acc` on: each operation
starts when its job predecessor has ended and the earliest of its machines is free -/
def estChain (s : State) : List Op → Int → List Int
  | [], _ => []
  | op :: rest, acc =>
    let st := max acc (((op.machines.map fun m => s.machNext.getD m 0).min?).getD 0)
    st :: estChain s rest (st + op.dur)

/-- earliest start of the unscheduled operation `(j, p)` (`p ≥` the job's next position) -/
def estSpec (I : Instance) (s : State) (r : OpRef) : Int :=
  let next := s.jobIdx.getD r.1 0
  (estChain s ((I.getD r.1 []).drop next) (s.jobNext.getD r.1 0)).getD (r.2 - next) 0

end JS

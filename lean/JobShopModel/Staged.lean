import JobShopModel.World
/-!
# Statement-level model of `Dispatcher.dispatch`

`World.dispatch` (in `World.lean`) is written as "check everything, then update".  Property C09 is about
the *order* of the checks and the mutations in the real method, so here the method is modelled statement by
statement, in source order, returning the world **as it is at the moment the call returns or raises**
(a raised exception does not roll anything back in Python).  `C09_staged_eq` proves it equal to
`World.dispatch`; `C09_dispatch_atomic` that a raise leaves the world untouched.
-/
namespace JS

/-- Python list indexing with an arbitrary integer: negative indices wrap, out of range raises -/
def pyIndex {α} (l : List α) (z : Int) : Option α :=
  if 0 ≤ z then l[z.toNat]? else
  if -(l.length : Int) ≤ z then l[(l.length + z).toNat]? else none

/-- `if machine_id is None: machine_id = operation.machine_id` (the property raises
`UninitializedAttributeError` when the operation has several machines) -/
def resolveNone (op : Op) (m : Option Int) : Except Err Int :=
  match m with
  | some z => .ok z
  | none => if op.machines.length > 1 then .error .uninit else
      match op.machines with
      | m0 :: _ => .ok (m0 : Int)
      | [] => .error .badMachine

/-- the mutating tail of `dispatch`: `Schedule.add`'s append, the three tracking writes, the cache
clear and the notification loop, in that order -/
def World.stagedCommit (w : World) (j p mm : Nat) (so : SOp) : World :=
  -- self.schedule[machine_id].append(scheduled_operation)
  let s1 : State := { w.s with sched := w.s.sched.modify mm (· ++ [so]) }
  -- self._update_tracking_attributes(scheduled_operation): three writes, cache clear
  let s2 : State := { s1 with machNext := s1.machNext.set mm so.end_ }
  let s3 : State := { s2 with jobIdx := s2.jobIdx.set j (p + 1) }
  let s4 : State := { s3 with jobNext := s3.jobNext.set j so.end_ }
  let s5 : State := { s4 with cache := {} }
  -- for subscriber in self.subscribers: subscriber.update(scheduled_operation)
  let r := notifyAll (fun s id o => Obs.update w.cfg s id so o) w.subs s5 w.heap w.trace
  { w with s := r.1, heap := r.2.1, trace := r.2.2, accepted := w.accepted ++ [so] }

def World.dispatchStaged (w : World) (j p : Nat) (m : Option Int) : World × Outcome :=
  match getOp w.cfg.I j p with
  | none => (w, .raised .noSuchOp)
  | some op =>
    -- if not self.is_operation_ready(operation): raise ValidationError
    if w.s.jobIdx.getD j 0 ≠ p then (w, .raised .notReady) else
    -- if machine_id is None: machine_id = operation.machine_id
    match resolveNone op m with
    | .error e => (w, .raised e)
    | .ok z =>
      -- start_time = self.start_time(operation, machine_id)   (list indexing: IndexError out of range)
      match pyIndex w.s.machNext z with
      | none => (w, .raised .badMachine)
      | some mnext =>
        -- scheduled_operation = ScheduledOperation(operation, start_time, machine_id)  (validates machine_id)
        if z < 0 ∨ z.toNat ∉ op.machines then (w, .raised .badMachine) else
        let so : SOp := ⟨j, p, z.toNat, max mnext (w.s.jobNext.getD j 0), op.dur⟩
        -- self.schedule.add(scheduled_operation): _check_start_time_of_new_operation ...
        if !addOk (w.s.sched.getD z.toNat []) so then (w, .raised .overlap) else
        -- ... then the append and everything after it
        (w.stagedCommit j p z.toNat so, .ok)

end JS

import JobShopModel.Basic
/-!
# The dispatcher core

Mirrors `job_shop_lib/dispatching/_dispatcher.py` (`__init__`, `reset`, `dispatch`,
`is_operation_ready`, `start_time`, `_update_tracking_attributes`, `min_start_time`,
`raw_ready_operations`, `earliest_start_time`) and `job_shop_lib/_schedule.py`
(`add`, `_check_start_time_of_new_operation`, `makespan`, `num_scheduled_operations`, `is_complete`).
The state has exactly the fields the Python objects keep.
-/
namespace JS

/-- The memo table `Dispatcher._cache`, one slot per `@_dispatcher_cache` method. -/
structure Cache where
  currentTime : Option Int := none
  available : Option (List OpRef) := none
  rawReady : Option (List OpRef) := none
  unscheduled : Option (List OpRef) := none
  scheduled : Option (List OpRef) := none
  availableMachines : Option (List Nat) := none
  availableJobs : Option (List Nat) := none
  completed : Option (List OpRef) := none
  uncompleted : Option (List OpRef) := none
  ongoing : Option (List SOp) := none
deriving Repr, DecidableEq, Inhabited

structure State where
  /-- `Schedule.schedule`: one append-only list per machine -/
  sched : List (List SOp)
  /-- `_machine_next_available_time` -/
  machNext : List Int
  /-- `_job_next_operation_index` -/
  jobIdx : List Nat
  /-- `_job_next_available_time` -/
  jobNext : List Int
  /-- `_cache` -/
  cache : Cache := {}
deriving Repr, DecidableEq, Inhabited

/-- `Dispatcher.__init__` (the tracking part). -/
def init (I : Instance) : State :=
  { sched := List.replicate (numMachines I) [],
    machNext := List.replicate (numMachines I) 0,
    jobIdx := List.replicate I.length 0,
    jobNext := List.replicate I.length 0,
    cache := {} }

/-- `Dispatcher.reset` (the tracking part; subscribers are handled in `Observers`). -/
def reset (I : Instance) (_s : State) : State := init I

inductive Err
  | notReady      -- ValidationError("Operation is not ready to be scheduled.")
  | uninit        -- UninitializedAttributeError (machine_id=None on a flexible operation)
  | badMachine    -- IndexError / ValidationError: machine not eligible or out of range
  | overlap       -- ValidationError from Schedule.add
  | noOpsLeft     -- ValidationError from next_operation
  | noSuchOp      -- the request names an operation the instance does not have (not expressible in Python)
  | other
deriving Repr, DecidableEq, Inhabited

/-- `Dispatcher.start_time(operation, machine_id)`. -/
def startTime (s : State) (j m : Nat) : Int := max (s.machNext.getD m 0) (s.jobNext.getD j 0)

/-- `Schedule._check_start_time_of_new_operation`: `true` when the new operation may be appended. -/
def addOk (ms : List SOp) (so : SOp) : Bool :=
  match ms.getLast? with
  | none => true
  | some last => decide (last.end_ ≤ so.start)

/-- `Dispatcher.dispatch(operation, machine_id)` with an explicit machine.  Statement order as in the
code: readiness check, start time, `ScheduledOperation` machine validation, `Schedule.add` check and
append, tracking update, cache clear. -/
def dispatch (I : Instance) (s : State) (j p m : Nat) : Except Err State :=
  match getOp I j p with
  | none => .error .noSuchOp
  | some op =>
    if s.jobIdx.getD j 0 ≠ p then .error .notReady else
    if m ∉ op.machines then .error .badMachine else
    let st := startTime s j m
    let so : SOp := ⟨j, p, m, st, op.dur⟩
    if !addOk (s.sched.getD m []) so then .error .overlap else
    .ok { sched := s.sched.modify m (· ++ [so]),
          machNext := s.machNext.set m so.end_,
          jobIdx := s.jobIdx.set j (p+1),
          jobNext := s.jobNext.set j so.end_,
          cache := {} }

/-- Machine resolution of a request: `None` means `operation.machine_id` (raises for flexible
operations); an explicit id may be any integer. -/
def resolveMachine (op : Op) (m : Option Int) : Except Err Nat :=
  match m with
  | none => if op.machines.length > 1 then .error .uninit else
      match op.machines with
      | m0 :: _ => .ok m0
      | [] => .error .badMachine
  | some z => if z < 0 then .error .badMachine else
      if z.toNat ∈ op.machines then .ok z.toNat else .error .badMachine

/-- `Dispatcher.dispatch(operation, machine_id)` for an arbitrary request. -/
def dispatchReq (I : Instance) (s : State) (j p : Nat) (m : Option Int) : Except Err State :=
  match getOp I j p with
  | none => .error .noSuchOp
  | some op =>
    if s.jobIdx.getD j 0 ≠ p then .error .notReady else
    match resolveMachine op m with
    | .error e => .error e
    | .ok mm => dispatch I s j p mm

/-- `Schedule.makespan`: reads the last operation of each machine. -/
def makespanStep (acc : Int) (ms : List SOp) : Int :=
  match ms.getLast? with
  | none => acc
  | some l => max acc l.end_
def makespan (s : State) : Int := s.sched.foldl makespanStep 0

/-- `Schedule.num_scheduled_operations`. -/
def numScheduled (s : State) : Nat := (s.sched.map List.length).sum

/-- `Schedule.is_complete`. -/
def isComplete (I : Instance) (s : State) : Bool := numScheduled s == numOps I

/-- `Dispatcher.raw_ready_operations` (uncached body). -/
def rawReady (I : Instance) (s : State) : List OpRef :=
  (List.range I.length).filterMap fun j =>
    let p := s.jobIdx.getD j 0
    if p < (I.getD j []).length then some (j, p) else none

/-- all start times `start_time(op, m)` for `op ∈ L`, `m ∈ op.machines`, in loop order -/
def startsOf (I : Instance) (s : State) (L : List OpRef) : List Int :=
  L.flatMap fun r => match getOp I r.1 r.2 with
    | some op => op.machines.map (startTime s r.1)
    | none => []

/-- `Dispatcher.min_start_time(operations)`; for a non-empty list of valid operations the `getD`
default is never used. -/
def minStart (I : Instance) (s : State) (L : List OpRef) : Int :=
  match L with
  | [] => makespan s
  | _ => ((startsOf I s L).min?).getD 0

/-- `Dispatcher.earliest_start_time(operation)`. -/
def earliestStart (I : Instance) (s : State) (r : OpRef) : Int :=
  match getOp I r.1 r.2 with
  | some op => max (((op.machines.map fun m => s.machNext.getD m 0).min?).getD 0) (s.jobNext.getD r.1 0)
  | none => 0

end JS

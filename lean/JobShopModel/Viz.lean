import JobShopModel.Core
/-!
# Gantt chart arithmetic and animation frame order

Mirrors `visualization/_plot_gantt_chart.py` (`_plot_machine_schedules`, `_plot_scheduled_operation`,
`_configure_legend`, `_configure_axes`) and the frame naming / loading of
`_gantt_chart_video_and_gif_creation.py` (`_save_frame`: `frame_{n:02d}.png`; `_load_images` after the fix:
`sorted(os.listdir(dir), key=lambda name: (len(name), name))`).  matplotlib itself is not modelled: a bar is
the argument tuple of `broken_barh`, a colour is the job id it is computed from.
-/
namespace JS

/-- one `ax.broken_barh([(x, width)], (y, 9), facecolors=cmap(norm(job)))` call -/
structure Bar where
  y : Nat
  x : Int
  width : Int
  job : Nat
deriving Repr, DecidableEq, Inhabited

/-- the bars in drawing order: machine by machine (`_BASE_Y_POSITION = 1`, `_Y_POSITION_INCREMENT = 10`) -/
def bars (s : State) : List Bar :=
  s.sched.zipIdx.flatMap fun (ms, mi) => ms.map fun x => ⟨1 + 10 * mi, x.start, x.end_ - x.start, x.job⟩

/-- legend entries: the jobs that have a bar, sorted by job id -/
def insertSortedN (x : Nat) : List Nat → List Nat
  | [] => [x]
  | y :: ys => if x < y then x :: y :: ys else if x = y then y :: ys else y :: insertSortedN x ys
def legendJobs (s : State) : List Nat := (s.sched.flatten.map (·.job)).foldr insertSortedN []

/-- `_configure_axes`: the x ticks for a given limit and requested number of ticks -/
def xticks (xlim nTicks : Nat) : List Nat :=
  let step := max 1 (xlim / nTicks)
  let ts := (List.range (xlim / step + 1)).map (· * step)      -- range(0, xlim + 1, step)
  if ts.getLast? == some xlim then ts else ts.dropLast ++ [xlim]

/-- decimal digits, most significant first -/
def decDigits (n : Nat) : List Nat :=
  if h : n < 10 then [n] else decDigits (n / 10) ++ [n % 10]
termination_by n
decreasing_by omega

/-- `f"{n:02d}"` as a digit list -/
def pad2 (ds : List Nat) : List Nat := List.replicate (2 - ds.length) 0 ++ ds
def frameDigits (n : Nat) : List Nat := pad2 (decDigits n)

def digitChar (d : Nat) : Char := Char.ofNat (48 + d)
/-- `f"frame_{n:02d}.png"` -/
def frameName (n : Nat) : String := "frame_" ++ String.ofList ((frameDigits n).map digitChar) ++ ".png"

/-- lexicographic `≤` on digit lists (Python string comparison restricted to equal-length digit strings) -/
def lexLe : List Nat → List Nat → Bool
  | [], _ => true
  | _ :: _, [] => false
  | a :: as, b :: bs => if a < b then true else if a = b then lexLe as bs else false

/-- the sort key `(len(name), name)` on two frame numbers: prefix and suffix of the names are equal, so the names
compare like their digit strings -/
def frameKeyLe (i j : Nat) : Bool :=
  let a := frameDigits i
  let b := frameDigits j
  if a.length < b.length then true else if a.length = b.length then lexLe a b else false

def insertBy (le : Nat → Nat → Bool) (x : Nat) : List Nat → List Nat
  | [] => [x]
  | y :: ys => if le x y then x :: y :: ys else y :: insertBy le x ys

/-- `sorted(listing, key=...)` for frame numbers (a stable sort; the keys are distinct) -/
def loadOrder (listing : List Nat) : List Nat := listing.foldr (insertBy frameKeyLe) []

end JS

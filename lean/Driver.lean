import JobShopModel.Queries
/-!
# Line-protocol driver for the executable model

One command per input line, one reply line per command.  The Python harness
(`/verif/harness`) runs the same command file against the real `job_shop_lib` and diffs the two
output streams.  Grammar: see `/verif/DESIGN.md` §3.5 and `harness/protocol.md`.
-/
open JS

structure World where
  cfg : Cfg := { I := [] }
  s : State := init []
deriving Inhabited

def toks (line : String) : List String := (line.splitOn " ").filter (· ≠ "")

def ints? (ts : List String) : Option (List Int) := ts.mapM String.toInt?
def nats? (ts : List String) : Option (List Nat) := ts.mapM String.toNat?

/-- parse `{<nOps> {<k> <m1..mk> <dur>}*}*` -/
partial def parseOps : Nat → List Int → Option (List Op × List Int)
  | 0, rest => some ([], rest)
  | n+1, k :: rest =>
    let k := k.toNat
    if rest.length < k + 1 then none else
    let ms := (rest.take k).map Int.toNat
    let d := rest.getD k 0
    match parseOps n (rest.drop (k+1)) with
    | some (ops, r) => some ({ machines := ms, dur := d } :: ops, r)
    | none => none
  | _, [] => none

partial def parseJobs : Nat → List Int → Option (List (List Op))
  | 0, [] => some []
  | 0, _ => none
  | n+1, nOps :: rest =>
    match parseOps nOps.toNat rest with
    | some (ops, r) => (parseJobs n r).map (ops :: ·)
    | none => none
  | _, [] => none

def parseFilter : String → Option FilterKind
  | "dom" => some .dominated
  | "nim" => some .nonImmediateMachines
  | "nidle" => some .nonIdleMachines
  | "nio" => some .nonImmediateOps
  | _ => none

def fmtInts (l : List Int) : String := " ".intercalate (l.map toString)
def fmtNats (l : List Nat) : String := " ".intercalate (l.map toString)
def fmtRefs (I : Instance) (l : List OpRef) : String := fmtNats (l.map (opId I))
def lst (s : String) : String := if s.isEmpty then "[]" else "[ " ++ s ++ " ]"

def refOfId (I : Instance) (id : Nat) : Option OpRef := (allOps I)[id]?

def fmtSOp (I : Instance) (x : SOp) : String :=
  s!"{opId I (x.job, x.pos)}:{x.start}:{x.machine}:{x.dur}"

def snapshot (w : World) : String :=
  let I := w.cfg.I
  let sch := " | ".intercalate (w.s.sched.map fun ms => " ".intercalate (ms.map (fmtSOp I)))
  s!"sched {sch} ; mn {fmtInts w.s.machNext} ; ji {fmtNats w.s.jobIdx} ; jn {fmtInts w.s.jobNext}"

def withState {α} (w : World) (r : α × State) (f : α → String) : World × String :=
  ({ w with s := r.2 }, f r.1)

def query (w : World) (ts : List String) : World × String :=
  let c := w.cfg
  let I := c.I
  match ts with
  | ["current_time"] => withState w (qCurrentTime c w.s) toString
  | ["available"] => withState w (qAvailable c w.s) (fun l => lst (fmtRefs I l))
  | ["raw_ready"] => withState w (qRawReady c w.s) (fun l => lst (fmtRefs I l))
  | ["unscheduled"] => withState w (qUnscheduled c w.s) (fun l => lst (fmtRefs I l))
  | ["scheduled"] => withState w (qScheduled c w.s) (fun l => lst (fmtRefs I l))
  | ["uncompleted"] => withState w (qUncompleted c w.s) (fun l => lst (fmtRefs I l))
  | ["completed"] => withState w (qCompleted c w.s) (fun l => lst (fmtRefs I l))
  | ["available_machines"] => withState w (qAvailableMachines c w.s) (fun l => lst (fmtNats l))
  | ["available_jobs"] => withState w (qAvailableJobs c w.s) (fun l => lst (fmtNats l))
  | ["ongoing"] => withState w (qOngoing c w.s) (fun l => lst (" ".intercalate (l.map (fmtSOp I))))
  | ["makespan"] => (w, toString (makespan w.s))
  | ["is_complete"] => (w, toString (isComplete I w.s))
  | ["num_scheduled"] => (w, toString (numScheduled w.s))
  | ["is_scheduled", id] =>
    match id.toNat?.bind (refOfId I) with
    | some r => (w, toString (isScheduled w.s r))
    | none => (w, "bad-op")
  | ["next_operation", j] =>
    match j.toNat? with
    | some j => (match nextOperation I w.s j with
        | .ok r => (w, toString (opId I r))
        | .error _ => (w, "raise"))
    | none => (w, "bad-op")
  | ["earliest_start", id] =>
    match id.toNat?.bind (refOfId I) with
    | some r => (w, toString (earliestStart I w.s r))
    | none => (w, "bad-op")
  | ["start_time", id, m] =>
    match id.toNat?.bind (refOfId I), m.toNat? with
    | some r, some m => (w, toString (startTime w.s r.1 m))
    | _, _ => (w, "bad-op")
  | "min_start" :: ids =>
    match (nats? ids).bind (fun l => l.mapM (refOfId I)) with
    | some L => (w, toString (minStart I w.s L))
    | none => (w, "bad-op")
  | ["is_ongoing", id] =>
    match (id.toNat?.bind (refOfId I)).bind (findSOp w.s) with
    | some x => withState w (qIsOngoing c w.s x) toString
    | none => (w, "bad-op")
  | ["remaining_duration", id] =>
    match (id.toNat?.bind (refOfId I)).bind (findSOp w.s) with
    | some x => withState w (qRemainingDuration c w.s x) toString
    | none => (w, "bad-op")
  | _ => (w, "bad-op")

def step (w : World) (line : String) : World × String :=
  match toks line with
  | "inst" :: n :: rest =>
    match n.toNat?, ints? rest with
    | some n, some xs =>
      (match parseJobs n xs with
       | some I => ({ w with cfg := { w.cfg with I := I }, s := init I },
                    s!"ok {numOps I} {numMachines I} {validB I}")
       | none => (w, "bad-op"))
    | _, _ => (w, "bad-op")
  | ["filter", "none"] => ({ w with cfg := { w.cfg with F := none } }, "ok")
  | "filter" :: "comp" :: fs =>
    match fs.mapM parseFilter with
    | some fl => ({ w with cfg := { w.cfg with F := some fl } }, "ok")
    | none => (w, "bad-op")
  | ["disp", j, p, m] =>
    match j.toNat?, p.toNat? with
    | some j, some p =>
      let mm : Option (Option Int) := if m == "none" then some none else m.toInt?.map some
      (match mm with
       | some mo =>
         (match dispatchReq w.cfg.I w.s j p mo with
          | .ok s' =>
            let st := match (s'.sched.flatten.find? fun x => x.job == j && x.pos == p) with
              | some x => x.start | none => -1
            ({ w with s := s' }, s!"ok {st}")
          | .error _ => (w, "raise"))
       | none => (w, "bad-op"))
    | _, _ => (w, "bad-op")
  | ["reset"] => ({ w with s := reset w.cfg.I w.s }, "ok")
  | ["snap"] => (w, snapshot w)
  | "q" :: ts => query w ts
  | "flt" :: rest =>
    let fs := rest.takeWhile (· ≠ ";")
    let ids := (rest.dropWhile (· ≠ ";")).drop 1
    match fs.mapM parseFilter, (nats? ids).bind (fun l => l.mapM (refOfId w.cfg.I)) with
    | some fl, some L => (w, lst (fmtRefs w.cfg.I (applyFilters w.cfg.I w.s fl L)))
    | _, _ => (w, "bad-op")
  | [] => (w, "")
  | _ => (w, "bad-op")

partial def loop (h : IO.FS.Stream) (out : IO.FS.Stream) (w : World) : IO Unit := do
  let line ← h.getLine
  if line.isEmpty then return ()
  let l := line.trimAscii.toString
  if l == "new" then
    out.putStrLn "ok"
    loop h out {}
  else
    let (w', o) := step w l
    out.putStrLn o
    loop h out w'

def main : IO Unit := do
  let stdin ← IO.getStdin
  let stdout ← IO.getStdout
  loop stdin stdout {}

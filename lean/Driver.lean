import JobShopModel.Staged
import JobShopModel.Rules
import JobShopModel.Equality
import JobShopModel.Views
import JobShopModel.Features
import JobShopModel.FeatureSpecs
import JobShopModel.Generator
import JobShopModel.Viz
import JobShopModel.Env
import JobShopModel.CpSat
/-!
# Line-protocol driver for the executable model

One command per input line, one reply line per command.  The Python harness
(`/verif/harness`) runs the same command file against the real `job_shop_lib` and diffs the two
output streams.  Grammar: see `/verif/DESIGN.md` §3.5 and `harness/protocol.md`.
-/
open JS

def emptyWorld : World := World.init { I := [] }

def toks (line : String) : List String := (line.splitOn " ").filter (· ≠ "")

def ints? (ts : List String) : Option (List Int) := ts.mapM String.toInt?
def nats? (ts : List String) : Option (List Nat) := ts.mapM String.toNat?

/-- parse `{<nOps> {<k> <m1..mk> <dur>}*}*` -/
partial def parseOps : Nat → List Int → Option (List Op × List Int)
  | 0, rest => some ([], rest)
  | n+1, k :: rest =>
    let k := k.toNat
    if rest.length < k + 1 then none else
    let ms := (rest.take k).map Int.toNat
    let d := rest.getD k 0
    match parseOps n (rest.drop (k+1)) with
    | some (ops, r) => some ({ machines := ms, dur := d } :: ops, r)
    | none => none
  | _, [] => none

partial def parseJobs : Nat → List Int → Option (List (List Op))
  | 0, [] => some []
  | 0, _ => none
  | n+1, nOps :: rest =>
    match parseOps nOps.toNat rest with
    | some (ops, r) => (parseJobs n r).map (ops :: ·)
    | none => none
  | _, [] => none

def parseFilter : String → Option FilterKind
  | "dom" => some .dominated
  | "nim" => some .nonImmediateMachines
  | "nidle" => some .nonIdleMachines
  | "nio" => some .nonImmediateOps
  | _ => none

def fmtInts (l : List Int) : String := " ".intercalate (l.map toString)
def fmtNats (l : List Nat) : String := " ".intercalate (l.map toString)
def fmtRefs (I : Instance) (l : List OpRef) : String := fmtNats (l.map (opId I))
def lst (s : String) : String := if s.isEmpty then "[]" else "[ " ++ s ++ " ]"

def refOfId (I : Instance) (id : Nat) : Option OpRef := (allOps I)[id]?

def fmtSOp (I : Instance) (x : SOp) : String :=
  s!"{opId I (x.job, x.pos)}:{x.start}:{x.machine}:{x.dur}"

def snapshot (w : World) : String :=
  let I := w.cfg.I
  let sch := " | ".intercalate (w.s.sched.map fun ms => " ".intercalate (ms.map (fmtSOp I)))
  s!"sched {sch} ; mn {fmtInts w.s.machNext} ; ji {fmtNats w.s.jobIdx} ; jn {fmtInts w.s.jobNext}"

def parseQuery (I : Instance) (ts : List String) : Option Query :=
  let ref? (id : String) : Option OpRef := id.toNat?.bind (refOfId I)
  match ts with
  | ["current_time"] => some .currentTime
  | ["available"] => some .available
  | ["raw_ready"] => some .rawReady
  | ["unscheduled"] => some .unscheduled
  | ["scheduled"] => some .scheduled
  | ["uncompleted"] => some .uncompleted
  | ["completed"] => some .completed
  | ["available_machines"] => some .availableMachines
  | ["available_jobs"] => some .availableJobs
  | ["ongoing"] => some .ongoing
  | ["makespan"] => some .makespan
  | ["is_complete"] => some .isComplete
  | ["num_scheduled"] => some .numScheduled
  | ["is_scheduled", id] => (ref? id).map .isScheduled
  | ["next_operation", j] => j.toNat?.map .nextOperation
  | ["earliest_start", id] => (ref? id).map .earliestStart
  | ["start_time", id, m] => (ref? id).bind fun r => m.toNat?.map (.startTime r)
  | "min_start" :: ids => ((nats? ids).bind fun l => l.mapM (refOfId I)).map .minStart
  | ["is_ongoing", id] => (ref? id).map .isOngoing
  | ["remaining_duration", id] => (ref? id).map .remainingDuration
  | _ => none

def fmtAnswer (I : Instance) : Answer → String
  | .int v => toString v
  | .refs l => lst (fmtRefs I l)
  | .nats l => lst (fmtNats l)
  | .sops l => lst (" ".intercalate (l.map (fmtSOp I)))
  | .bool b => toString b
  | .ref r => toString (opId I r)
  | .raise => "raise"
  | .badOp => "bad-op"

def query (w : World) (ts : List String) : World × String :=
  if ts == ["unsched_observer"] then (w, lst (fmtRefs w.cfg.I (unscheduledPure w.cfg.I w.s))) else
  match parseQuery w.cfg.I ts with
  | some q => let r := w.ask q; (r.1, fmtAnswer w.cfg.I r.2)
  | none => (w, "bad-op")

def parseKind : String → Option ObsKind
  | "history" => some .history
  | "unscheduled" => some .unscheduled
  | "makespan_reward" => some .makespanReward
  | "idle_reward" => some .idleReward
  | "recorder" => some .recorder
  | _ => none

def fmtSnapshot (I : Instance) (sn : Snapshot) : String :=
  let sch := " | ".intercalate (sn.sched.map fun ms => " ".intercalate (ms.map (fmtSOp I)))
  s!"<{sch} ; {fmtInts sn.machNext} ; {fmtNats sn.jobIdx} ; {fmtInts sn.jobNext} ; {sn.currentTime} ; {fmtRefs I sn.unscheduled}>"

def fmtNotif (I : Instance) : Notif → String
  | .update x sn => s!"U {fmtSOp I x} {fmtSnapshot I sn}"
  | .reset sn => s!"R {fmtSnapshot I sn}"

def fmtObs (I : Instance) (id : Nat) (o : Obs) : String :=
  match o.kind with
  | .history => s!"{id}:history " ++ " ".intercalate (o.hist.map (fmtSOp I))
  | .unscheduled => s!"{id}:unscheduled " ++ " ".intercalate (o.deques.map fun d => lst (fmtRefs I d))
  | .makespanReward => s!"{id}:makespan_reward {fmtInts o.rewards} cur {o.curMakespan}"
  | .idleReward => s!"{id}:idle_reward {fmtInts o.rewards}"
  | .recorder => s!"{id}:recorder " ++ " ".intercalate (o.log.map (fmtNotif I))

def worldSnapshot (w : World) : String :=
  let I := w.cfg.I
  let obs := (List.range w.heap.length).map fun id => match w.heap[id]? with
    | some o => fmtObs I id o
    | none => ""
  s!"subs {fmtNats w.subs} || " ++ " || ".intercalate obs

def fmtTrace (w : World) : String :=
  " ".intercalate (w.trace.map fun (id, n) => match n with
    | .update x _ => s!"{id}:U{opId w.cfg.I (x.job, x.pos)}"
    | .reset _ => s!"{id}:R")

def parseScoreFn : String → Option ScoreFn
  | "spt" => some .spt
  | "fcfs" => some .fcfs
  | "mwkr" => some .mwkr
  | "mor" => some .mor
  | _ => none

def parseRule (t : String) : Option RuleKind :=
  match t with
  | "spt" => some .spt
  | "fcfs" => some .fcfs
  | "mwkr" => some .mwkr
  | "mor" => some .mor
  | "random" => some .random
  | "omwkr" => some .observerMwkr
  | _ =>
    if t.startsWith "sb:" then (parseScoreFn (t.drop 3).toString).map .scoreBased
    else if t.startsWith "tb:" then
      let parts := ((t.drop 3).toString.splitOn ",").filter (· ≠ "")
      (parts.mapM parseScoreFn).map .tieBreak
    else none

def parseChooser : String → Option Chooser
  | "first" => some .first
  | "random" => some .random
  | _ => none

/-- run the solver from a fresh dispatcher, logging the selections -/
def solveTrace (c : Cfg) (rule : RuleKind) (ch : Chooser) : Nat → State → List Nat → List String → Option (State × List String)
  | 0, s, _, acc => if isComplete c.I s then some (s, acc) else none
  | fuel + 1, s, draws, acc =>
    if isComplete c.I s then some (s, acc) else
    match solverStep c rule ch s draws with
    | none => none
    | some (s', r, m, draws') => solveTrace c rule ch fuel s' draws' (acc ++ [s!"{opId c.I r}:{m}"])

def splitOnTok (ts : List String) (sep : String) : List (List String) :=
  let rec go (ts : List String) (cur : List String) (acc : List (List String)) : List (List String) :=
    match ts with
    | [] => (cur.reverse :: acc).reverse
    | t :: rest => if t == sep then go rest [] (cur.reverse :: acc) else go rest (t :: cur) acc
  go ts [] []

def parseOpObj (xs : List Int) : Option (OpObj × List Int) :=
  match xs with
  | k :: rest =>
    let k := k.toNat
    if rest.length < k + 4 then none else
    some ({ machines := (rest.take k).map Int.toNat, dur := rest.getD k 0, job := rest.getD (k+1) 0,
            pos := rest.getD (k+2) 0, id := rest.getD (k+3) 0 }, rest.drop (k+4))
  | [] => none

def parseInstSpec (ts : List String) : Option Instance :=
  match ts with
  | n :: rest => match n.toNat?, ints? rest with
    | some n, some xs => parseJobs n xs
    | _, _ => none
  | [] => none

partial def parseHist : List Int → Option (List (Nat × Nat × Nat))
  | [] => some []
  | j :: p :: m :: rest => (parseHist rest).map ((j.toNat, p.toNat, m.toNat) :: ·)
  | _ => none

def replayHist (I : Instance) (h : List (Nat × Nat × Nat)) : State :=
  h.foldl (fun s r => match dispatch I s r.1 r.2.1 r.2.2 with | .ok s' => s' | .error _ => s) (init I)

def schedObjs (I : Instance) (s : State) : List (List SOpObj) :=
  s.sched.map fun ms => ms.map fun x =>
    let op := ((I.getD x.job []).getD x.pos default)
    { op := { machines := op.machines, dur := op.dur, job := x.job, pos := x.pos, id := opId I (x.job, x.pos) },
      start := x.start, machine := x.machine }

def fmtOptInt : Option Int → String
  | some v => toString v
  | none => "nan"

def fmtInstance (I : Instance) : String :=
  " ".intercalate ([toString I.length] ++ I.map fun job =>
    " ".intercalate ([toString job.length] ++ job.map fun op =>
      " ".intercalate ([toString op.machines.length] ++ op.machines.map toString ++ [toString op.dur])))

def fmtViews (I : Instance) : String :=
  let mm := match machinesMatrix I with
    | .flex m => "flex " ++ " / ".intercalate (m.map fun (row : List (List Nat)) =>
        " ".intercalate (row.map fun ms => lst (fmtNats ms)))
    | .single m => "single " ++ " / ".intercalate (m.map fmtNats)
  let obm := " / ".intercalate ((operationsByMachine I).map (fmtRefs I))
  let padded := " / ".intercalate ((durationsMatrixArray I).map fun (row : List (Option Int)) =>
    " ".intercalate (row.map fun v => match v with
      | some x => if x.natAbs ≥ 16777216 then "big" else toString x     -- float32 array: exact below 2^24 only
      | none => "nan"))
  s!"{I.length} {numMachines I} {numOps I} {isFlexible I} | " ++
  " / ".intercalate ((durationsMatrix I).map fmtInts) ++ s!" | {mm} | {obm} | {fmtInts (machineLoads I)} | " ++
  s!"{fmtInts (maxDurationPerMachine I)} | {fmtInts (jobDurations I)} | {totalDuration I} | " ++
  (match maxDurationPerJob I with | some l => lst (fmtInts l) | none => "none") ++ " | " ++
  (match maxDuration I with | some v => toString v | none => "none") ++ s!" | {padded}"

/-- parse `nm {n j...}*` -/
partial def parseSeqs : Nat → List Int → Option (List (List Nat))
  | 0, [] => some []
  | 0, _ => none
  | n+1, k :: rest =>
    let k := k.toNat
    if rest.length < k then none else
    (parseSeqs n (rest.drop k)).map (((rest.take k).map Int.toNat) :: ·)
  | _, [] => none

def fmtSched (I : Instance) (s : State) : String :=
  " | ".intercalate (s.sched.map fun ms => " ".intercalate (ms.map (fmtSOp I)))

def runJobSeq (I : Instance) (seqs : List (List Nat)) : String :=
  match fromJobSequences I (numOps I + 1) seqs (init I) with
  | .ok s => s!"ok {fmtSched I s}"
  | .validationError => "raise"
  | _ => "error"

def step (w : World) (line : String) : World × String :=
  match toks line with
  | "inst" :: n :: rest =>
    match n.toNat?, ints? rest with
    | some n, some xs =>
      (match parseJobs n xs with
       | some I => (World.init { w.cfg with I := I },
                    s!"ok {numOps I} {numMachines I} {validB I}")
       | none => (w, "bad-op"))
    | _, _ => (w, "bad-op")
  | ["filter", "none"] => ({ w with cfg := { w.cfg with F := none } }, "ok")
  | "filter" :: "comp" :: fs =>
    match fs.mapM parseFilter with
    | some fl => ({ w with cfg := { w.cfg with F := some fl } }, "ok")
    | none => (w, "bad-op")
  | ["disp", j, p, m] =>
    match j.toNat?, p.toNat? with
    | some j, some p =>
      let mm : Option (Option Int) := if m == "none" then some none else m.toInt?.map some
      (match mm with
       | some mo =>
         (match w.dispatchStaged j p mo with
          | (w', .ok) =>
            let st := match (w'.s.sched.flatten.find? fun x => x.job == j && x.pos == p) with
              | some x => x.start | none => -1
            (w', s!"ok {st}")
          | (w', _) => (w', "raise"))
       | none => (w, "bad-op"))
    | _, _ => (w, "bad-op")
  | ["reset"] => (w.reset, "ok")
  | ["obs", k] =>
    match parseKind k with
    | some kind => (match w.construct kind with
        | (w', some id) => (w', toString id)
        | (w', none) => (w', "raise"))
    | none => (w, "bad-op")
  | ["obsn", k] =>
    match parseKind k with
    | some kind => (match w.constructDetached kind with
        | (w', some id) => (w', toString id)
        | (w', none) => (w', "raise"))
    | none => (w, "bad-op")
  | ["obsn2", k] =>
    -- constructed with subscribe=False and, if the constructor let it be, subscribed by hand at once
    match parseKind k with
    | some kind => (match w.constructDetached kind with
        | (w', some id) => (match w'.resubscribe id with | (w'', true) => (w'', toString id) | (w'', false) => (w'', "raise"))
        | (w', none) => (w', "raise"))
    | none => (w, "bad-op")
  | ["obs", k, t] =>
    match parseKind k, t.toNat? with
    | some kind, some tag => (match w.construct kind tag with
        | (w', some id) => (w', toString id)
        | (w', none) => (w', "raise"))
    | _, _ => (w, "bad-op")
  | ["cogc", k, t] =>
    match parseKind k, t.toNat? with
    | some kind, some tag => (match w.createOrGetCond kind tag with
        | (w', some id) => (w', toString id)
        | (w', none) => (w', "raise"))
    | _, _ => (w, "bad-op")
  | ["cogk", k, t] =>
    -- `create_or_get_observer(Kind, tag=t)` WITHOUT a condition: the first subscribed observer of the class whatever its tag,
    -- else a new one built with that keyword argument
    match parseKind k, t.toNat? with
    | some kind, some tag =>
      (match w.subs.find? (fun id => (w.heap[id]?.map (·.kind)) == some kind) with
       | some id => (w, toString id)
       | none => (match w.construct kind tag with
          | (w', some id) => (w', toString id)
          | (w', none) => (w', "raise")))
    | _, _ => (w, "bad-op")
  | ["cog", k] =>
    match parseKind k with
    | some kind => (match w.createOrGet kind with
        | (w', some id) => (w', toString id)
        | (w', none) => (w', "raise"))
    | none => (w, "bad-op")
  | ["unsub", id] =>
    match id.toNat? with
    | some id => (match w.unsubscribe id with | (w', true) => (w', "ok") | (w', false) => (w', "raise"))
    | none => (w, "bad-op")
  | ["resub", id] =>
    match id.toNat? with
    | some id => (match w.resubscribe id with | (w', true) => (w', "ok") | (w', false) => (w', "raise"))
    | none => (w, "bad-op")
  | "mark" :: _ => (w, "ok")
  | ["views"] => (w, fmtViews w.cfg.I)
  | ["dict"] => let d := toDict w.cfg.I; (w, fmtInstance (fromMatrices d.1 d.2))
  | ["taillard"] =>
    if isFlexible w.cfg.I then (w, "n/a") else (w, fmtInstance (parseTaillard (renderTaillard w.cfg.I)))
  | ["seqs"] => (w, " / ".intercalate ((jobSequences w.s).map fmtNats))
  | ["rebuild"] => (w, runJobSeq w.cfg.I (jobSequences w.s))
  | "jobseq" :: n :: rest =>
    match n.toNat?, ints? rest with
    | some n, some xs => (match parseSeqs n xs with
        | some seqs => (w, runJobSeq w.cfg.I seqs)
        | none => (w, "bad-op"))
    | _, _ => (w, "bad-op")
  | "eqop" :: rest =>
    match (splitOnTok rest ";").map ints? with
    | [some a, some b] =>
      (match parseOpObj a, parseOpObj b with
       | some (x, _), some (y, _) => (w, s!"{opEq x y} {!opEq x y} {opHash x == opHash y}")
       | _, _ => (w, "bad-op"))
    | _ => (w, "bad-op")
  | "eqsop" :: rest =>
    match (splitOnTok rest ";").map ints? with
    | [some a, some b] =>
      (match parseOpObj a, parseOpObj b with
       | some (x, [s1, m1]), some (y, [s2, m2]) =>
         let sx : SOpObj := ⟨x, s1, m1⟩
         let sy : SOpObj := ⟨y, s2, m2⟩
         (w, s!"{sopEq sx sy} {!sopEq sx sy}")
       | _, _ => (w, "bad-op"))
    | _ => (w, "bad-op")
  | "eqinst" :: rest =>
    match (splitOnTok rest ";").map parseInstSpec with
    | [some a, some b] => (w, s!"{instEq (opObjs a) (opObjs b)} {!instEq (opObjs a) (opObjs b)}")
    | _ => (w, "bad-op")
  | "eqsched" :: rest =>
    match splitOnTok rest ";" with
    | [ia, ha, ib, hb] =>
      (match parseInstSpec ia, (ints? ha).bind parseHist, parseInstSpec ib, (ints? hb).bind parseHist with
       | some a, some h1, some b, some h2 =>
         let r := schedEq (opObjs a, schedObjs a (replayHist a h1)) (opObjs b, schedObjs b (replayHist b h2))
         (w, s!"{r} {!r}")
       | _, _, _, _ => (w, "bad-op"))
    | _ => (w, "bad-op")
  | "eqshift" :: rest =>
    -- the schedule of a history against the same schedule with every start time shifted by k
    match splitOnTok rest ";" with
    | [ia, ha, [k]] =>
      (match parseInstSpec ia, (ints? ha).bind parseHist, k.toInt? with
       | some a, some h1, some kk =>
         let x := schedObjs a (replayHist a h1)
         let y := x.map fun ms => ms.map fun o => { o with start := o.start + kk }
         let r := schedEq (opObjs a, x) (opObjs a, y)
         (w, s!"{r} {!r}")
       | _, _, _ => (w, "bad-op"))
    | _ => (w, "bad-op")
  | "rule" :: r :: rest =>
    match parseRule r with
    | some rule =>
      let draw := (rest.head?.bind String.toNat?).getD 0
      (match selectOp w.cfg w.s rule draw with
       | some x => (w, toString (opId w.cfg.I x))
       | none => (w, "raise"))
    | none => (w, "bad-op")
  | ["scores", f] =>
    match parseScoreFn f with
    | some fn => (w, lst (fmtInts ((List.range w.cfg.I.length).map (score w.cfg w.s fn))))
    | none => (w, "bad-op")
  | "solve" :: r :: ch :: draws =>
    match parseRule r, parseChooser ch, nats? draws with
    | some rule, some chooser, some ds =>
      (match solveTrace w.cfg rule chooser (numOps w.cfg.I + 1) (init w.cfg.I) ds [] with
       | some (s', tr) => (w, s!"ok {" ".intercalate tr} ; {makespan s'} {isComplete w.cfg.I s'}")
       | none => (w, "raise"))
    | _, _, _ => (w, "bad-op")
  | ["elapsed", t0, t1] =>
    match t0.toInt?, t1.toInt? with
    | some a, some b => (w, s!"{elapsedTime a b} DispatchingRuleSolver")
    | _, _ => (w, "bad-op")
  | ["wsnap"] => (w, worldSnapshot w)
  | ["trace"] => (w, lst (fmtTrace w))
  | ["snap"] => (w, snapshot w)
  | "q" :: ts => query w ts
  | ["ready", k] =>
    -- `Dispatcher.is_operation_ready(operation)`: the operation is the next one of its job
    (match k.toNat?.bind (refOfId w.cfg.I) with
     | some r => (w, if w.s.jobIdx.getD r.1 0 == r.2 then "true" else "false")
     | none => (w, "bad-op"))
  | "flt" :: rest =>
    let fs := rest.takeWhile (· ≠ ";")
    let ids := (rest.dropWhile (· ≠ ";")).drop 1
    match fs.mapM parseFilter, (nats? ids).bind (fun l => l.mapM (refOfId w.cfg.I)) with
    | some fl, some L => (w, lst (fmtRefs w.cfg.I (applyFilters w.cfg.I w.s fl L)))
    | _, _ => (w, "bad-op")
  | [] => (w, "")
  | _ => (w, "bad-op")

def fmtNodeKind : NodeKind → String
  | .operation i => s!"o{i}" | .machine m => s!"m{m}" | .job j => s!"j{j}"
  | .global => "g" | .source => "S" | .sink => "T"

def fmtEType : EType → String
  | .conjunctive => "c" | .disjunctive => "d" | .untyped => "u"

def fmtGraph (g : Graph) : String :=
  let nodes := " ".intercalate (g.nodes.map fmtNodeKind)
  let removed := String.join (g.removed.map fun b => if b then "1" else "0")
  let edges := " ".intercalate (g.edges.map fun (u, v, t) => s!"{u}>{v}:{fmtEType t}")
  s!"nodes {nodes} | removed {removed} | edges {edges}"

def parseBuilder : String → Option Builder
  | "disjunctive" => some .disjunctive
  | "agent_task" => some .agentTask
  | "agent_task_jobs" => some .agentTaskJobs
  | "complete_agent_task" => some .completeAgentTask
  | _ => none

/-! ## the feature world -/

structure DW where
  w : World
  fw : FWorld
  env : Option Env := none
  menv : Option MultiEnv := none
  /-- `MostWorkRemainingScorer` (a module-level object) has already looked up / created its observers for this dispatcher -/
  scorer : Bool := false

def emptyDW : DW := { w := emptyWorld, fw := FWorld.init { I := [] } }

def parseFKind : String → Option FKind
  | "is_ready" => some .isReady
  | "earliest_start_time" => some .earliestStart
  | "duration" => some .duration
  | "is_scheduled" => some .isScheduled
  | "position_in_job" => some .positionInJob
  | "remaining_operations" => some .remainingOps
  | "is_completed" => some .isCompleted
  | "unscheduled" => some .unscheduled
  | "history" => some .history
  | "makespan_reward" => some .makespanReward
  | "idle_reward" => some .idleReward
  | _ => none

def fkindName : FKind → String
  | .isReady => "is_ready" | .earliestStart => "earliest_start_time" | .duration => "duration"
  | .isScheduled => "is_scheduled" | .positionInJob => "position_in_job" | .remainingOps => "remaining_operations"
  | .isCompleted => "is_completed" | .composite => "composite" | .unscheduled => "unscheduled"
  | .history => "history" | .makespanReward => "makespan_reward" | .idleReward => "idle_reward"
  | .residual => "residual"

def parseFts (t : String) : Option (Option (List FT)) :=
  if t == "-" then some none else
  (t.toList.mapM fun c => match c with
    | 'o' => some FT.operations | 'm' => some FT.machines | 'j' => some FT.jobs | _ => none).map some

def ftName : FT → String
  | .operations => "o" | .machines => "m" | .jobs => "j"

/-- feature values are float32 in the library: magnitudes from 2^24 on are not exact there and are not compared -/
def fmtFeat (v : Int) : String := if v.natAbs ≥ 16777216 then "big" else toString v

def fmtFObs (I : Instance) (id : Nat) (o : FObs) : String :=
  let cols := " ".intercalate (o.cols.map fun (ft, cs) =>
    ftName ft ++ "=" ++ ";".intercalate (cs.map fun c => ",".intercalate (c.map fmtFeat)))
  match o.kind with
  | .unscheduled => s!"{id}:unscheduled " ++ " ".intercalate (o.deques.map fun d => lst (fmtRefs I d))
  | .history => s!"{id}:history " ++ " ".intercalate (o.hist.map (fmtSOp I))
  | .makespanReward => s!"{id}:makespan_reward {fmtInts o.rewards} cur {o.curMakespan}"
  | .idleReward => s!"{id}:idle_reward {fmtInts o.rewards}"
  | .composite => s!"{id}:composite({fmtNats o.parts}) {cols} names " ++ " ".intercalate (o.names.map fun (ft, ns) =>
      ftName ft ++ "=" ++ ",".intercalate ns)
  | .residual => s!"{id}:residual({fmtNats o.parts}) {fmtGraph o.graph}"
  | k => s!"{id}:{fkindName k} {cols}"

/-- the from-scratch specifications of every feature (`JobShopModel/FeatureSpecs.lean`) in the current dispatcher
state: what the C11 theorems equate the observers with; compared with the Python oracle's recomputation -/
def fspecLine (c : Cfg) (s : State) : String :=
  let I := c.I
  let un := unscheduledPure I s
  let now := currentTimePure c s
  let kv (l : List (Nat × Int)) : String := " ".intercalate (l.map fun kv => s!"{kv.1}:{kv.2}")
  let M := numMachines I
  let estm := (List.range M).map fun m => (((un.filter (onMachine I m)).map (estSpec I s)).min?).getD 0 - now
  let estj := (List.range I.length).filterMap fun j =>
    let n := s.jobIdx.getD j 0
    if n < (I.getD j []).length then some (j, estSpec I s (j, n) - now) else none
  s!"now {now} | est {kv (un.map fun r => (opId I r, estSpec I s r - now))} | estm {fmtInts estm} | estj {kv estj}" ++
  s!" | pos {kv (un.map fun r => (opId I r, posSpec s r))} | durj {fmtInts (durJobsSpec I s)} | durm {fmtInts (durMachSpec I s)}" ++
  s!" | remj {fmtInts (remJobsSpec I s)} | remm {fmtInts (remMachSpec I s)} | sch {fmtInts (schedOpsSpec I s)}" ++
  s!" | ogm {fmtInts (ongoingMachSpec c s)} | ogj {fmtInts (ongoingJobsSpec c s)} | cop {fmtInts (complOpsSpec c s)}" ++
  s!" | cj {fmtInts (complJobsSpec I s)} | cm {fmtInts (complMachSpec I s)}" ++
  " | deq " ++ " / ".intercalate ((dequesSpec I s).map fun d => fmtRefs I d)

def fworldSnapshot (w : FWorld) : String :=
  let obs := (List.range w.heap.length).map fun id => match w.heap[id]? with
    | some o => fmtFObs w.cfg.I id o
    | none => ""
  s!"subs {fmtNats w.subs} || " ++ " || ".intercalate obs

def fmtEObs (o : EObs) : String :=
  let rm := " ".intercalate (o.removed.map fun b => if b then "1" else "0")
  let ei := " ".intercalate (o.edgeIndex.map fun uv => s!"{uv.1}>{uv.2}")
  let fs := " ".intercalate (o.feats.map fun (ft, cs) =>
    ftName ft ++ "=" ++ ";".intercalate (cs.map fun c => ",".intercalate (c.map fmtFeat)))
  s!"rm {rm} | ei {ei} | {fs}"

def fmtSpace (sp : Space) : String :=
  s!"space {sp.nJobs} {sp.nMachines} {sp.nNodes} {sp.nEdges} " ++
    " ".intercalate (((sp.feats.map fun (ft, r, c) => s!"{ftName ft}={r}x{c}").toArray.qsort (· < ·)).toList)

def fmtStepOut (I : Instance) : StepOut → String
  | .raised => "raise"
  | .ok obs r d t av => s!"{fmtEObs obs} || r {r} d {d} t {t} av {lst (fmtRefs I av)}"

def parseReward : String → Option FKind
  | "makespan" => some .makespanReward
  | "idle" => some .idleReward
  | _ => none

/-- `<builder> <rm> <rj> <reward> <pad> ; kind fts ; kind fts …` -/
def parseEnvCfg (ts : List String) : Option EnvCfg :=
  match splitOnTok ts ";" with
  | [b, rm, rj, rw, pad] :: feats =>
    match parseBuilder b, parseReward rw with
    | some bb, some r =>
      let fs := feats.mapM fun f => match f with
        | [k, fts] => (match parseFKind k, parseFts fts with | some kk, some ff => some (kk, ff) | _, _ => none)
        | _ => none
      fs.map fun fs => { builder := bb, feats := fs, reward := r, rmMach := rm == "1", rmJob := rj == "1",
                         usePadding := pad == "1" }
    | _, _ => none
  | _ => none

def fmtCpModel (m : CpModel) : String :=
  let doms := match m.doms with
    | [] => "vars 0"
    | d :: _ => if m.doms.all (· == d) then s!"vars {m.doms.length} dom {d.1} {d.2}"
                else "vars " ++ " ".intercalate (m.doms.map fun d => s!"{d.1}..{d.2}")
  let idxOf (iv : Itv) : String := match m.cons.findIdx? (· == CpCon.interval iv) with | some i => toString i | none => "?"
  let cons := m.cons.map fun c => match c with
    | .lin terms lo hi =>
      "lin " ++ " ".intercalate (terms.map fun t => s!"{t.1}*{t.2}") ++ " in " ++
        (match lo with | some l => toString l | none => "-inf") ++ s!" {hi}"
    | .interval iv => s!"itv {iv.1} {iv.2.1} {iv.2.2}"
    | .noOverlap ivs => "noov " ++ " ".intercalate (ivs.map idxOf)
    | .linMax t es => s!"linmax {t} : {fmtNats es}"
  -- `_initialize_model` sets exactly one solver parameter when no time limit is given
  doms ++ " | " ++ " | ".intercalate cons ++ s!" | min {m.objective} | params log_search_progress: false"

def fmtBars (bs : List Bar) : String :=
  lst (" ".intercalate (bs.map fun b => s!"{b.y}:{b.x}:{b.width}:{b.job}"))

def stepRest (d : DW) (line : String) : DW × String :=
  match toks line with
  | ["fobs", k, fts] =>
    match parseFKind k, parseFts fts with
    | some kind, some f =>
      (match d.fw.construct kind f with
       | (fw', some id) => ({ d with fw := fw' }, toString id)
       | (fw', none) => ({ d with fw := fw' }, "raise"))
    | _, _ => (d, "bad-op")
  | "fcomp" :: rest =>
    let parts : Option (Option (List Nat)) := if rest == ["all"] then some none else (nats? rest).map some
    (match parts with
     | some ps => (match d.fw.constructComposite ps with
        | (fw', some id) => ({ d with fw := fw' }, toString id)
        | (fw', none) => ({ d with fw := fw' }, "raise"))
     | none => (d, "bad-op"))
  | ["fsnap"] => (d, fworldSnapshot d.fw)
  | ["funsubk", k] =>
    -- unsubscribe the first subscribed observer of the given kind
    (match parseFKind k with
     | some kind =>
       (match d.fw.subs.find? (fun id => (d.fw.heap[id]?.map (·.kind)) == some kind) with
        | some id => let r := d.fw.unsubscribe id; ({ d with fw := r.1 }, if r.2 then toString id else "raise")
        | none => (d, "none"))
     | none => (d, "bad-op"))
  | ["funsub", k] =>
    -- `dispatcher.unsubscribe(observer)`: the observer leaves the subscriber list (and is no longer found by create_or_get_observer);
    -- the object itself lives on, unchanged from now on
    (match k.toNat? with
     | some id => let r := d.fw.unsubscribe id; ({ d with fw := r.1 }, if r.2 then "ok" else "raise")
     | none => (d, "bad-op"))
  | ["fspec"] => (d, fspecLine d.fw.cfg d.fw.s)
  | "gen" :: rest =>
    match ints? rest with
    | some (j1 :: j2 :: m1 :: m2 :: d1 :: d2 :: al :: rc :: k1 :: k2 :: n :: draws) =>
      let p : GenParams := ⟨(j1.toNat, j2.toNat), (m1.toNat, m2.toNat), (d1, d2), al != 0, rc != 0, (k1.toNat, k2.toNat)⟩
      (match iterate p n.toNat { draws := draws.map Int.toNat } with
       | .ok (l, _) => (d, " ; ".intercalate (l.map fun (I, name) => s!"{name} {fmtInstance I}"))
       | .error _ => (d, "raise"))
    | _ => (d, "bad-op")
  | "genh" :: rest =>
    -- `h` direct calls of the public helper `create_random_operation()` (no machine pool given: all machines of the largest
    -- shop), then a pass over the generator: the helper consumes draws and nothing else
    match ints? rest with
    | some (j1 :: j2 :: m1 :: m2 :: d1 :: d2 :: al :: rc :: k1 :: k2 :: h :: n :: draws) =>
      let p : GenParams := ⟨(j1.toNat, j2.toNat), (m1.toNat, m2.toNat), (d1, d2), al != 0, rc != 0, (k1.toNat, k2.toNat)⟩
      let rec helper : Nat → List Nat → List String → Except GenFail (List String × List Nat)
        | 0, ds, acc => .ok (acc.reverse, ds)
        | k + 1, ds, acc =>
          match genOp p (List.range m2.toNat) ds with
          | .error e => .error e
          | .ok (op, _, ds') => helper k ds' (s!"{",".intercalate (op.machines.map toString)}:{op.dur}" :: acc)
      (match helper h.toNat (draws.map Int.toNat) [] with
       | .error _ => (d, "raise")
       | .ok (ops, ds) =>
         match iterate p n.toNat { draws := ds } with
         | .ok (l, _) => (d, "ops " ++ " ".intercalate ops ++ " ; " ++ " ; ".intercalate (l.map fun (I, name) => s!"{name} {fmtInstance I}"))
         | .error _ => (d, "raise"))
    | _ => (d, "bad-op")
  | ["graph", b] =>
    match parseBuilder b with
    | some bb => (d, fmtGraph (build bb d.w.cfg.I))
    | none => (d, "bad-op")
  | ["solved"] => (d, fmtGraph (buildSolved d.w.cfg.I d.w.s))
  | "env" :: rest =>
    (match parseEnvCfg rest with
     | none => (d, "bad-op")
     | some ec => match Env.make d.w.cfg ec with
       | none => ({ d with env := none }, "raise")
       | some e => ({ d with env := some e }, fmtSpace e.space))
  | ["eobs"] => (match d.env with
     | some e => (d, match e.observation with | some o => fmtEObs o | none => "raise")
     | none => (d, "bad-op"))
  | ["ereset"] => (match d.env with
     | some e => let (e', o) := e.reset; ({ d with env := some e' }, match o with | some o => fmtEObs o | none => "raise")
     | none => (d, "bad-op"))
  | ["estep", j, m] => (match d.env, j.toNat?, m.toInt? with
     | some e, some j, some m => let (e', o) := e.step j m; ({ d with env := some e' }, fmtStepOut e'.w.cfg.I o)
     | _, _, _ => (d, "bad-op"))
  | ["edisp", j, p, m] => (match d.env, j.toNat?, p.toNat? with
     -- the environment's dispatcher used directly (`env.dispatcher.dispatch(...)`) between two steps
     | some e, some j, some p =>
       let mm : Option Int := if m == "none" then none else m.toInt?
       let r := e.w.dispatch j p mm
       ({ d with env := some { e with w := r.1 } }, if r.2 then "ok" else "raise")
     | _, _, _ => (d, "bad-op"))
  | ["eswap", k] => (match d.env, parseFKind k with
     -- `env.reward_function = Kind(env.dispatcher)`: the replacement is constructed the ordinary way (it subscribes itself;
     -- the constructor raises when a reward observer of that type is already subscribed) and the environment reads it from now on
     | some e, some kind =>
       if kind != .makespanReward && kind != .idleReward then (d, "bad-op") else
       (match e.w.construct kind none with
        | (w', some id) => ({ d with env := some { e with w := w', rew := id } }, "ok")
        | (_, none) => (d, "raise"))
     | _, _ => (d, "bad-op"))
  | ["edreset"] => (match d.env with
     -- `env.dispatcher.reset()` (not `env.reset()`): the dispatcher and every subscriber start over, the environment object is untouched
     | some e => ({ d with env := some { e with w := e.w.reset } }, "ok")
     | none => (d, "bad-op"))
  | ["esched"] => (match d.env with
     | some e => (d, "sched " ++ " | ".intercalate (e.w.s.sched.map fun ms => " ".intercalate (ms.map (fmtSOp e.w.cfg.I))))
     | none => (d, "bad-op"))
  | ["eauto", k] => (match d.env, k.toNat? with
     | some e, some k =>
       let acts := e.legalActions
       if acts.isEmpty then (d, "no-legal-action") else
       let (j, m) := acts.getD (k % acts.length) (0, 0)
       let (e', o) := e.step j m
       ({ d with env := some e' }, s!"act {j} {m} {fmtStepOut e'.w.cfg.I o}")
     | _, _ => (d, "bad-op"))
  | ["edauto", k] => (match d.env, k.toNat? with
     -- the k-th legal decision dispatched on the environment's OWN dispatcher, not through `step` (an expert that drives
     -- `env.dispatcher` directly): the state moves as with `eauto`, nothing is returned
     | some e, some k =>
       let acts := e.legalActions
       if acts.isEmpty then (d, "no-legal-action") else
       let (j, m) := acts.getD (k % acts.length) (0, 0)
       let (e', _) := e.step j m
       ({ d with env := some e' }, "ok")
     | _, _ => (d, "bad-op"))
  | ["mauto", k] => (match d.menv, k.toNat? with
     | some mv, some k =>
       let acts := mv.env.legalActions
       if acts.isEmpty then (d, "no-legal-action") else
       let (j, m) := acts.getD (k % acts.length) (0, 0)
       let (m', o) := mv.step j m
       ({ d with menv := some m' }, s!"act {j} {m} {fmtStepOut m'.env.w.cfg.I o}")
     | _, _ => (d, "bad-op"))
  | ["mbad", k, b] => (match d.menv, k.toNat?, b.toNat? with
     | some mv, some k, some b =>
       -- the k-th ILLEGAL decision in canonical order: jobs 0 … J (one beyond the instance), machine ids -2 … b
       let J := mv.env.w.cfg.I.length
       let cands := (List.range (J + 1)).flatMap fun j =>
         ((List.range (b + 3)).map fun (i : Nat) => (Int.ofNat i - 2)).filterMap fun (m : Int) =>
           if mv.env.legal j m then none else some (j, m)
       let (j, m) := cands.getD (k % cands.length) (0, -2)
       let (m', o) := mv.step j m
       ({ d with menv := some m' }, s!"bad {j} {m} {fmtStepOut m'.env.w.cfg.I o}")
     | _, _, _ => (d, "bad-op"))
  | "menv" :: rest =>
    (match splitOnTok rest ";" with
     | ps :: more =>
       (match ints? ps, parseEnvCfg (" ; ".intercalate (more.dropLast.map (" ".intercalate ·)) |> toks), (more.getLast?.bind nats?) with
        | some [j1, j2, m1, m2, d1, d2, al, rc, k1, k2], some ec, some draws =>
          let p : GenParams := ⟨(j1.toNat, j2.toNat), (m1.toNat, m2.toNat), (d1, d2), al != 0, rc != 0, (k1.toNat, k2.toNat)⟩
          (match MultiEnv.make p ec d.w.cfg.F draws with
           | none => ({ d with menv := none }, "raise")
           | some m => ({ d with menv := some m }, fmtSpace m.space))
        | _, _, _ => (d, "bad-op"))
     | _ => (d, "bad-op"))
  | ["mreset"] => (match d.menv with
     | some m => let (m', o) := m.reset
                 ({ d with menv := some m' }, match o with
                   | some o => s!"{fmtInstance m'.env.w.cfg.I} || {fmtEObs o}" | none => "raise")
     | none => (d, "bad-op"))
  | ["mswap", k] => (match d.menv, parseFKind k with
     -- `multi_env.reward_function = Kind(multi_env.dispatcher)` (forwarded to the current inner environment; the next `reset`
     -- builds a new inner environment from the configuration)
     | some m, some kind =>
       if kind != .makespanReward && kind != .idleReward then (d, "bad-op") else
       (match m.env.w.construct kind none with
        | (w', some id) => ({ d with menv := some { m with env := { m.env with w := w', rew := id } } }, "ok")
        | (_, none) => (d, "raise"))
     | _, _ => (d, "bad-op"))
  | ["mstep", j, mm] => (match d.menv, j.toNat?, mm.toInt? with
     | some m, some j, some mm => let (m', o) := m.step j mm; ({ d with menv := some m' }, fmtStepOut m'.env.w.cfg.I o)
     | _, _, _ => (d, "bad-op"))
  | ["cpnew"] => (d, "ok")
  | ["cpsolve"] => (d, "bad-op")
  | ["cpmodel"] => (d, fmtCpModel (cpModel d.w.cfg.I))
  | "cpsched" :: rest =>
    (match ints? rest with
     | some vals =>
       let v : Nat → Int := fun i => vals.getD i 0
       (match cpResult d.w.cfg.I v with
        | some (S, mk) => (d, s!"ok {" | ".intercalate (S.map fun ms => " ".intercalate (ms.map (fmtSOp d.w.cfg.I)))} ; reported {mk} ; makespan {scheduleMakespan S}")
        | none => (d, "raise"))
     | none => (d, "bad-op"))
  | ["bars"] => (d, fmtBars (bars d.w.s) ++ " ; legend " ++ lst (fmtNats (legendJobs d.w.s)))
  | ["ticks", x, n] =>
    let xlim : Option Nat := if x == "-" then some (makespan d.w.s).toNat else x.toNat?
    (match xlim, n.toNat? with
     | some xl, some nn => (d, s!"xlim {xl} ticks " ++ lst (fmtNats (xticks xl nn)))
     | _, _ => (d, "bad-op"))
  | ["fname", i] => (match i.toNat? with | some k => (d, frameName k) | none => (d, "bad-op"))
  | "frames" :: rest => (match nats? rest with | some l => (d, lst (fmtNats (loadOrder l))) | none => (d, "bad-op"))
  | "animate" :: rest =>
    (match (ints? rest).bind parseHist with
     | some h =>
       let I := d.w.cfg.I
       let frames := (List.range h.length).map fun k => fmtBars (bars (replayHist I (h.take (k + 1))))
       (d, s!"xlim {(makespan (replayHist I h)).toNat} " ++ " / ".intercalate frames)
     | none => (d, "bad-op"))
  | "fresx" :: b :: rm :: rj :: ids =>
    -- the graph handed to the updater was pruned by its owner beforehand (`graph.remove_node(k)` for the given node ids, in order)
    match parseBuilder b, nats? ids with
    | some bb, some ks =>
      let g0 := build bb d.fw.cfg.I
      let g := ks.foldl (fun g k => if k < g.nodes.length && !(g.removed.getD k true) then g.removeNode k else g) g0
      (match d.fw.constructResidual g (rm == "1") (rj == "1") with
       | (fw', some id) => ({ d with fw := fw' }, toString id)
       | (fw', none) => ({ d with fw := fw' }, "raise"))
    | _, _ => (d, "bad-op")
  | ["fresn", b, rm, rj] =>
    -- `ResidualGraphUpdater(dispatcher, graph, subscribe=False, …)`: its IsCompletedObserver is obtained the ordinary way
    -- (create_or_get_observer: subscribed); the updater itself waits for `fsub`
    match parseBuilder b with
    | some bb =>
      (match d.fw.constructResidual (build bb d.fw.cfg.I) (rm == "1") (rj == "1") with
       | (fw', some id) => ({ d with fw := (fw'.unsubscribe id).1 }, toString id)
       | (fw', none) => ({ d with fw := fw' }, "raise"))
    | none => (d, "bad-op")
  | ["fsub", k] =>
    -- `dispatcher.subscribe(observer)`: appended to the subscriber list
    (match (if k == "last" then some (d.fw.heap.length - 1) else k.toNat?) with
     | some id => if id < d.fw.heap.length && !d.fw.subs.contains id then ({ d with fw := { d.fw with subs := d.fw.subs ++ [id] } }, "ok")
                  else (d, "raise")
     | none => (d, "bad-op"))
  | ["fres", b, rm, rj] =>
    match parseBuilder b with
    | some bb =>
      (match d.fw.constructResidual (build bb d.fw.cfg.I) (rm == "1") (rj == "1") with
       | (fw', some id) => ({ d with fw := fw' }, toString id)
       | (fw', none) => ({ d with fw := fw' }, "raise"))
    | none => (d, "bad-op")
  | _ =>
    let (w', out) := step d.w line
    ({ d with w := w' }, out)


def stepAll (d : DW) (line : String) : DW × String :=
  match toks line with
  | "inst" :: _ =>
    let (w', out) := step d.w line
    ({ w := w', fw := FWorld.init w'.cfg }, out)
  | ["redisp"] =>
    -- a new Dispatcher on the same instance object: nothing of the old dispatcher or its observers carries over
    ({ w := World.init d.w.cfg, fw := FWorld.init d.w.cfg }, "ok")
  | "filter" :: _ =>
    let (w', out) := step d.w line
    ({ d with w := w', fw := { d.fw with cfg := w'.cfg } }, out)
  | ["peek", j, p, m] =>
    -- a look-ahead on a deep copy of the dispatcher (`copy.deepcopy(dispatcher).dispatch(...)`): the reply is what the dispatch
    -- would give, nothing of the original changes
    let (_, out) := step d.w ("disp " ++ j ++ " " ++ p ++ " " ++ m)
    (d, out)
  | ["scribble"] => (d, "ok")    -- a third party writes into the arrays a composite handed out: the composite's own business until its next update
  | ["badseq"] => (d, "raise")   -- `Schedule.from_job_sequences` on sequences that admit no schedule: a validation error, nothing else happens
  | ["fork"] => (d, "ok")        -- the scenario goes on with a deep copy of the dispatcher and its observers: same state, other objects
  | ["fork", _] => (d, "ok")
  | ["fork", _, _] => (d, "ok")
  | ["efork"] => (d, "ok")       -- … of the environment
  | ["mfork"] => (d, "ok")
  | ["mother", _] => (d, "ok")   -- another environment is built, reset and dropped somewhere else in the process
  | ["cogb"] => (d, "ok")        -- a look-up of an existing reward observer by its base class: returns a subscriber, creates nothing
  | ["reseat"] => (d, "ok")      -- the schedule's lists re-assigned through the public setter with equal content
  | ["draw"] => (d, "ok")        -- a Gantt chart of the live schedule is drawn and thrown away: looking changes nothing
  | ["stamp"] => (d, "ok")       -- the caller writes notes into `Schedule.metadata`: a dictionary of the user's, no part of the state
  | ["xform"] => (d, "ok")       -- instance transformations applied to the instance produce NEW instances: nothing changes here
  | ["disp", j, p, m] =>
    let (w', out) := step d.w line
    match j.toNat?, p.toNat? with
    | some j, some p =>
      let mm : Option (Option Int) := if m == "none" then some none else m.toInt?.map some
      (match mm with
       | some mo => ({ d with w := w', fw := (d.fw.dispatch j p mo).1 }, out)
       | none => ({ d with w := w' }, out))
    | _, _ => ({ d with w := w' }, out)
  | ["reset"] =>
    let (w', out) := step d.w line
    ({ d with w := w', fw := d.fw.reset }, out)
  | ["q", "unsched_observer"] =>
    -- the harness reads `create_or_get_observer(UnscheduledOperationsObserver)`: from the first such query on, the dispatcher
    -- has that observer among its subscribers
    let (w', out) := step d.w line
    ({ d with w := w', fw := d.fw.getUnscheduled.1 }, out)
  | cmd :: r :: _ =>
    -- `MostWorkRemainingScorer.__call__`: on its first use with a dispatcher it gets a DurationObserver with job features
    -- through create_or_get_observer (an existing one is reused) and - because its condition tests for DurationObserver -
    -- ALWAYS constructs a new IsReadyObserver(feature_types=JOBS); both are subscribed to the dispatcher
    -- the module-level scorer of `observer_based_most_work_remaining_rule` does this once per dispatcher; the harness builds
    -- the other score-based rules (`sb:mwkr`, `tb:…mwkr…`, `scores mwkr`) with a FRESH scorer object per call, each of which
    -- does it again
    let uses : Nat :=
      if cmd == "rule" && r == "omwkr" then (if d.scorer then 0 else 1)
      else if (cmd == "rule" && r == "sb:mwkr") || (cmd == "scores" && r == "mwkr") then 1
      else if cmd == "rule" && r.startsWith "tb:" then (r.splitOn "mwkr").length - 1
      else 0
    if uses > 0 then
      let fw' := (List.range uses).foldl (fun fw _ =>
        let fw1 := match fw.findObs .duration [.jobs] with
          | some _ => fw
          | none => (fw.construct .duration (some [.jobs])).1
        (fw1.construct .isReady (some [.jobs])).1) d.fw
      let (w', out) := step d.w line
      ({ d with w := w', fw := fw', scorer := d.scorer || r == "omwkr" }, out)
    else
      stepRest d line
  | _ => stepRest d line

partial def loop (h : IO.FS.Stream) (out : IO.FS.Stream) (d : DW) : IO Unit := do
  let line ← h.getLine
  if line.isEmpty then return ()
  let l := line.trimAscii.toString
  if l == "new" then
    out.putStrLn "ok"
    loop h out emptyDW
  else
    -- `sstep j p m`: the request reaches the dispatcher through `DispatchingRuleSolver.step` (a user rule names the operation, a user
    -- machine chooser the machine): for the dispatcher it is the request `disp j p m`
    let l := if l.startsWith "sstep " then "disp " ++ (l.drop 6).toString else l
    -- `refilt …`: the caller assigns another filter to the live dispatcher: the configuration changes, nothing else
    let l := if l.startsWith "refilt " then "filter " ++ (l.drop 7).toString else l
    let (d', o) := stepAll d l
    out.putStrLn o
    loop h out d'

def main : IO Unit := do
  let stdin ← IO.getStdin
  let stdout ← IO.getStdout
  loop stdin stdout emptyDW

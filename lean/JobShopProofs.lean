import JobShopProofs.Abstract.Final
import JobShopProofs.Refine
import JobShopProofs.Invariant

import JobShopModel.Basic
import JobShopModel.Core
import JobShopModel.Filters
import JobShopModel.Queries
import JobShopModel.Events

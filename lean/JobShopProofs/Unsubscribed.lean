import JobShopProofs.ObserversTransparent
import JobShopProofs.FeatureWorld
import JobShopProofs.ResidualWorld
/-!
# Unsubscribed and never-subscribed observers receive nothing (C10, feature world)

`FWorld.unsubscribe w id` removes `id` from the subscriber list; the object stays in the heap.  The dispatcher notifies the
subscribers only, every callback writes (a) the observer it is called on, (b) observers it finds with `findObs` — which scans the
subscribers only — and (c) observers it has just created (pushed at the end of the heap, subscribed).  Hence a heap entry that is
not subscribed is never written again: `Off id o w` (entry `id` holds `o` and `id` is not subscribed) is preserved by every event.

This holds for EVERY kind, helpers included: `IsCompletedObserver.reset` and `RemainingOperationsObserver.reset` obtain their
helper with `create_or_get_observer`, i.e. among the subscribers, on every call (they keep no reference), so an unsubscribed helper
is not reset by its would-be owner — the owner builds (and subscribes) a new one instead.  The kind restriction of the target
statements is therefore not needed; the `_any` versions below are stated without it.
-/
namespace JS

/-- events after the unsubscription: anything, including further unsubscriptions of OTHER observers -/
inductive FEvU
  | ev (e : FEv)
  | unsub (k : Nat)

def FWorld.stepU (w : FWorld) : FEvU → FWorld
  | .ev e => w.step e
  | .unsub k => (w.unsubscribe k).1

/-- heap entry `id` holds `o` and is not subscribed -/
def Off (id : Nat) (o : FObs) (w : FWorld) : Prop := w.heap[id]? = some o ∧ id ∉ w.subs

/-! ## (3) the lookups scan the subscribers -/

/-- (3) the lookups never hand out an unsubscribed observer: whatever `findObs` returns is subscribed -/
theorem C10_findObs_subscribed (w : FWorld) (k : FKind) (need : List FT) (id : Nat) (h : w.findObs k need = some id) :
    id ∈ w.subs := by
  unfold FWorld.findObs at h
  exact List.mem_of_find?_eq_some h

/-! ## frame lemmas for `Off` -/

theorem off_push {id : Nat} {o : FObs} {w : FWorld} (h : Off id o w) (x : FObs) : Off id o (w.push x).1 := by
  obtain ⟨h1, h2⟩ := h
  have hlt : id < w.heap.length := (List.getElem?_eq_some_iff.1 h1).1
  refine ⟨?_, ?_⟩
  · simp only [FWorld.push]
    rw [List.getElem?_append_left hlt]; exact h1
  · simp only [FWorld.push, List.mem_append, List.mem_singleton, not_or]
    exact ⟨h2, by omega⟩

theorem push_mem (w : FWorld) (x : FObs) : (w.push x).2 ∈ (w.push x).1.subs := by
  simp [FWorld.push]

theorem off_setObs {id : Nat} {o : FObs} {w : FWorld} (h : Off id o w) {k : Nat} (hk : k ∈ w.subs) (x : FObs) :
    Off id o (w.setObs k x) := by
  obtain ⟨h1, h2⟩ := h
  have hne : k ≠ id := fun e => h2 (e ▸ hk)
  exact ⟨by simp only [FWorld.setObs]; rw [List.getElem?_set_ne hne]; exact h1, h2⟩

theorem good_mem {w w' : FWorld} (g : Good w w') {k : Nat} (hk : k ∈ w.subs) : k ∈ w'.subs := by
  obtain ⟨t, ht⟩ := g.pre
  rw [ht]; exact List.mem_append_left _ hk

theorem getUnscheduled_mem (w : FWorld) : w.getUnscheduled.2 ∈ w.getUnscheduled.1.subs := by
  unfold FWorld.getUnscheduled
  cases h : w.findObs .unscheduled [] with
  | some id => exact C10_findObs_subscribed w _ _ id h
  | none => exact push_mem w _

theorem off_getUnscheduled {id : Nat} {o : FObs} {w : FWorld} (h : Off id o w) : Off id o w.getUnscheduled.1 := by
  unfold FWorld.getUnscheduled
  cases w.findObs .unscheduled [] with
  | some k => exact h
  | none => exact off_push h _

theorem newRemaining_mem (w : FWorld) (fts : List FT) : (w.newRemaining fts).2 ∈ (w.newRemaining fts).1.subs := by
  unfold FWorld.newRemaining
  simp only
  exact good_mem ((good_getUnscheduled _).trans (good_setObs _ _ _)) (push_mem w _)

theorem off_newRemaining {id : Nat} {o : FObs} {w : FWorld} (h : Off id o w) (fts : List FT) :
    Off id o (w.newRemaining fts).1 := by
  unfold FWorld.newRemaining
  simp only
  exact off_setObs (off_getUnscheduled (off_push h _)) (good_mem (good_getUnscheduled _) (push_mem w _)) _

theorem getRemaining_mem (w : FWorld) (need : List FT) : (w.getRemaining need).2 ∈ (w.getRemaining need).1.subs := by
  unfold FWorld.getRemaining
  cases h : w.findObs .remainingOps need with
  | some id => exact C10_findObs_subscribed w _ _ id h
  | none => exact newRemaining_mem w need

theorem off_getRemaining {id : Nat} {o : FObs} {w : FWorld} (h : Off id o w) (need : List FT) :
    Off id o (w.getRemaining need).1 := by
  unfold FWorld.getRemaining
  cases w.findObs .remainingOps need with
  | some k => exact h
  | none => exact off_newRemaining h need

theorem off_isCompletedInit {id : Nat} {o : FObs} {w : FWorld} (h : Off id o w) {k : Nat} (hk : k ∈ w.subs) :
    Off id o (w.isCompletedInit k) := by
  unfold FWorld.isCompletedInit
  simp only
  refine off_setObs (off_getRemaining (off_setObs h hk _) _) ?_ _
  exact good_mem ((good_setObs w _ _).trans (good_getRemaining _ _)) hk

theorem off_resetRemaining {id : Nat} {o : FObs} {w : FWorld} (h : Off id o w) {k : Nat} (hk : k ∈ w.subs) :
    Off id o (w.resetRemaining k) := by
  unfold FWorld.resetRemaining
  simp only
  refine off_setObs (off_setObs (off_getUnscheduled h) (getUnscheduled_mem w) _) ?_ _
  exact good_mem ((good_getUnscheduled w).trans (good_setObs _ _ _)) hk

theorem off_callUpdate {id : Nat} {o : FObs} {w : FWorld} (h : Off id o w) (x : SOp) {k : Nat} (hk : k ∈ w.subs) :
    Off id o (w.callUpdate x k) := by
  obtain ⟨h1, h2⟩ := h
  have hne : k ≠ id := fun e => h2 (e ▸ hk)
  obtain ⟨e1, e2, _, _⟩ := callUpdate_other w x k id hne
  exact ⟨e1.trans h1, e2 ▸ h2⟩

theorem off_callReset {id : Nat} {o : FObs} {w : FWorld} (h : Off id o w) {k : Nat} (hk : k ∈ w.subs) :
    Off id o (w.callReset k) := by
  unfold FWorld.callReset
  cases w.heap[k]? with
  | none => exact h
  | some ob =>
    simp only
    split
    all_goals first
      | exact off_setObs h hk _
      | exact off_resetRemaining h hk
      | exact off_isCompletedInit (off_resetRemaining (off_getRemaining h _) (getRemaining_mem w _))
          (good_mem ((good_getRemaining w _).trans (good_resetRemaining _ _)) hk)

/-- the notification loop: callbacks on subscribers only -/
theorem off_foldl {id : Nat} {o : FObs} (f : FWorld → Nat → FWorld) (hg : ∀ w k, Good w (f w k))
    (hf : ∀ w k, Off id o w → k ∈ w.subs → Off id o (f w k)) :
    ∀ (l : List Nat) (w : FWorld), (∀ k ∈ l, k ∈ w.subs) → Off id o w → Off id o (l.foldl f w)
  | [], _, _, h => h
  | a :: t, w, hl, h => by
    simp only [List.foldl_cons]
    exact off_foldl f hg hf t _ (fun k hk => good_mem (hg w a) (hl k (List.mem_cons_of_mem _ hk)))
      (hf w a h (hl a (List.mem_cons_self ..)))

theorem off_dispatch {id : Nat} {o : FObs} {w : FWorld} (h : Off id o w) (j p : Nat) (m : Option Int) :
    Off id o (w.dispatch j p m).1 := by
  unfold FWorld.dispatch
  cases dispatchReq w.cfg.I w.s j p m with
  | error e => exact h
  | ok s' =>
    simp only
    cases (s'.sched.flatten.find? fun x => x.job == j && x.pos == p) with
    | none => exact h
    | some x =>
      exact off_foldl (fun w k => w.callUpdate x k) (fun w k => good_callUpdate w x k)
        (fun w k hw hk => off_callUpdate hw x hk) w.subs { w with s := s' } (fun k hk => hk) h

theorem off_reset {id : Nat} {o : FObs} {w : FWorld} (h : Off id o w) : Off id o w.reset := by
  unfold FWorld.reset
  exact off_foldl (fun w k => w.callReset k) (fun w k => good_callReset w k)
    (fun w k hw hk => off_callReset hw hk) w.subs { w with s := JS.init w.cfg.I } (fun k hk => hk) h

theorem off_construct {id : Nat} {o : FObs} {w : FWorld} (h : Off id o w) (kind : FKind) (fts : Option (List FT)) :
    Off id o (w.construct kind fts).1 := by
  cases kind <;> simp only [FWorld.construct]
  all_goals
    repeat' split
    all_goals first
      | exact h
      | exact off_push h _
      | exact off_setObs (off_push h _) (push_mem w _) _
      | exact off_setObs (off_getUnscheduled (off_push h _)) (good_mem (good_getUnscheduled _) (push_mem w _)) _
      | exact off_isCompletedInit (off_push h _) (push_mem w _)

theorem off_constructComposite {id : Nat} {o : FObs} {w : FWorld} (h : Off id o w) (parts : Option (List Nat)) :
    Off id o (w.constructComposite parts).1 := by
  unfold FWorld.constructComposite
  simp only
  exact off_setObs (off_push h _) (push_mem w _) _

theorem getIsCompleted_mem (w : FWorld) (need : List FT) : (w.getIsCompleted need).2 ∈ (w.getIsCompleted need).1.subs := by
  unfold FWorld.getIsCompleted
  cases h : w.findObs .isCompleted need with
  | some id => exact C10_findObs_subscribed w _ _ id h
  | none => exact good_mem (good_isCompletedInit _ _) (push_mem w _)

theorem off_getIsCompleted {id : Nat} {o : FObs} {w : FWorld} (h : Off id o w) (need : List FT) :
    Off id o (w.getIsCompleted need).1 := by
  unfold FWorld.getIsCompleted
  cases w.findObs .isCompleted need with
  | some k => exact h
  | none => exact off_isCompletedInit (off_push h _) (push_mem w _)

theorem off_constructResidual {id : Nat} {o : FObs} {w : FWorld} (h : Off id o w) (g : Graph) (rm rj : Bool) :
    Off id o (w.constructResidual g rm rj).1 := by
  unfold FWorld.constructResidual
  by_cases h1 : (w.subs.any fun id => (w.heap[id]?.map (·.kind)) == some FKind.residual) = true
  · rw [if_pos h1]; exact h
  · rw [if_neg h1]
    simp only
    generalize ((if rm then [FT.machines] else []) ++ (if rj then [FT.jobs] else [])) = need
    by_cases h2 : need.isEmpty = true
    · rw [if_pos h2]; exact off_push h _
    · rw [if_neg h2]; exact off_push (off_getIsCompleted h need) _

theorem off_step {id : Nat} {o : FObs} {w : FWorld} (h : Off id o w) (e : FEv) : Off id o (w.step e) := by
  cases e with
  | disp j p m => exact off_dispatch h j p m
  | reset => exact off_reset h
  | construct k fts => exact off_construct h k fts
  | composite parts => exact off_constructComposite h parts
  | residual b rm rj => exact off_constructResidual h _ rm rj

theorem off_unsubscribe {id : Nat} {o : FObs} {w : FWorld} (h : Off id o w) (k : Nat) : Off id o (w.unsubscribe k).1 := by
  unfold FWorld.unsubscribe
  split
  · exact ⟨h.1, fun hm => h.2 (List.mem_of_mem_erase hm)⟩
  · exact h

theorem off_stepU {id : Nat} {o : FObs} {w : FWorld} (h : Off id o w) (e : FEvU) : Off id o (w.stepU e) := by
  cases e with
  | ev e => exact off_step h e
  | unsub k => exact off_unsubscribe h k

theorem off_foldl_stepU {id : Nat} {o : FObs} : ∀ (post : List FEvU) (w : FWorld), Off id o w → Off id o (post.foldl FWorld.stepU w)
  | [], _, h => h
  | e :: t, w, h => by simp only [List.foldl_cons]; exact off_foldl_stepU t _ (off_stepU h e)

/-- `unsubscribe id` leaves the heap alone and, on a duplicate-free subscriber list, removes `id` from it -/
theorem unsubscribe_off (w : FWorld) (hs : w.subs.Nodup) (id : Nat) (o : FObs) (ho : w.heap[id]? = some o) :
    Off id o (w.unsubscribe id).1 := by
  unfold FWorld.unsubscribe
  split
  · exact ⟨ho, fun hm => ((List.Nodup.mem_erase_iff hs).1 hm).1 rfl⟩
  · rename_i hc
    exact ⟨ho, fun hm => hc (by simpa using hm)⟩

/-! ## (1), (2): frozen, for every kind -/

/-- (1), every kind (helpers included): after `unsubscribe id`, whatever happens later — dispatch requests, resets, constructions
of any observers (which may look for helpers), unsubscriptions — entry `id` of the heap is what it was and `id` stays unsubscribed -/
theorem C10_world_unsubscribed_frozen_any (w : FWorld) (hs : w.subs.Nodup) (id : Nat) (o : FObs) (ho : w.heap[id]? = some o)
    (post : List FEvU) :
    (post.foldl FWorld.stepU (w.unsubscribe id).1).heap[id]? = some o ∧ id ∉ (post.foldl FWorld.stepU (w.unsubscribe id).1).subs :=
  off_foldl_stepU post _ (unsubscribe_off w hs id o ho)

/-- (2), every kind -/
theorem C10_world_nonsubscribed_frozen_any (w : FWorld) (id : Nat) (o : FObs) (ho : w.heap[id]? = some o) (hn : id ∉ w.subs)
    (post : List FEvU) :
    (post.foldl FWorld.stepU w).heap[id]? = some o ∧ id ∉ (post.foldl FWorld.stepU w).subs :=
  off_foldl_stepU post w ⟨ho, hn⟩

/-- (1) nothing the dispatcher does reaches an unsubscribed observer: after `unsubscribe id`, for every later history (dispatch
requests, resets, constructions, other unsubscriptions) the heap entry of `id` is exactly what it was.  (`hk` is not used: see
`C10_world_unsubscribed_frozen_any`; `hs` is what makes `list.remove` remove the only occurrence.) -/
theorem C10_world_unsubscribed_frozen (w : FWorld) (hs : w.subs.Nodup) (id : Nat) (o : FObs) (ho : w.heap[id]? = some o)
    (hk : o.kind ≠ .remainingOps ∧ o.kind ≠ .unscheduled ∧ o.kind ≠ .isCompleted)
    (post : List FEvU) :
    (post.foldl FWorld.stepU (w.unsubscribe id).1).heap[id]? = some o ∧ id ∉ (post.foldl FWorld.stepU (w.unsubscribe id).1).subs := by
  have _ := hk
  exact C10_world_unsubscribed_frozen_any w hs id o ho post

/-- (2) an observer that was never subscribed (built with `subscribe=False`: in the model, an entry of the heap that is not in
`subs`) is equally out of reach.  (`hs`, `hk` are not used: see `C10_world_nonsubscribed_frozen_any`.) -/
theorem C10_world_nonsubscribed_frozen (w : FWorld) (hs : SubsOK w) (id : Nat) (o : FObs) (ho : w.heap[id]? = some o)
    (hn : id ∉ w.subs)
    (hk : o.kind ≠ .remainingOps ∧ o.kind ≠ .unscheduled ∧ o.kind ≠ .isCompleted) (post : List FEvU) :
    (post.foldl FWorld.stepU w).heap[id]? = some o ∧ id ∉ (post.foldl FWorld.stepU w).subs := by
  have _ := hs
  have _ := hk
  exact C10_world_nonsubscribed_frozen_any w id o ho hn post

/-- without the duplicate-freeness of the subscriber list (1) fails: `list.remove` removes the first occurrence only -/
example :
    let w : FWorld := { cfg := { I := [] }, s := JS.init [], subs := [0, 0], heap := [{ kind := .history }] }
    0 ∈ (w.unsubscribe 0).1.subs := by decide

/-! ## (4) the residual updater's helper -/

/-- (4) hence an updater attached after its would-be helper was unsubscribed builds a NEW helper: the id of the updater and the
helper ids it records (field `parts`: `[id of its IsCompletedObserver]`, or `[]` when neither kind of node is to be removed) are
subscribed -/
theorem C17_residual_helpers_subscribed (w : FWorld) (hs : SubsOK w) (g : Graph) (rm rj : Bool) (w' : FWorld) (uid : Nat)
    (h : w.constructResidual g rm rj = (w', some uid)) :
    uid ∈ w'.subs ∧ ∀ o, w'.heap[uid]? = some o → ∀ p ∈ o.parts, p ∈ w'.subs := by
  have _ := hs
  unfold FWorld.constructResidual at h
  by_cases h1 : (w.subs.any fun id => (w.heap[id]?.map (·.kind)) == some FKind.residual) = true
  · rw [if_pos h1] at h; cases h
  · rw [if_neg h1] at h
    simp only at h
    generalize ((if rm then [FT.machines] else []) ++ (if rj then [FT.jobs] else [])) = need at h
    by_cases h2 : need.isEmpty = true
    · rw [if_pos h2] at h
      simp only [FWorld.push, Prod.mk.injEq, Option.some.injEq] at h
      obtain ⟨rfl, rfl⟩ := h
      refine ⟨by simp, ?_⟩
      intro o ho p hp
      simp only [List.getElem?_concat_length, Option.some.injEq] at ho
      subst ho
      cases hp
    · rw [if_neg h2] at h
      simp only [FWorld.push, Prod.mk.injEq, Option.some.injEq] at h
      obtain ⟨rfl, rfl⟩ := h
      refine ⟨by simp, ?_⟩
      intro o ho p hp
      simp only [List.getElem?_concat_length, Option.some.injEq] at ho
      subst ho
      simp only [List.mem_singleton] at hp
      subst hp
      exact List.mem_append_left _ (getIsCompleted_mem w need)

/-- (4), in detail: what the updater records.  `parts = []` when neither machine nor job nodes are to be removed (no helper is
obtained at all); otherwise `parts = [p]` where `p` is a SUBSCRIBED `IsCompletedObserver` with the feature types the updater reads -/
theorem C17_residual_helpers_detail (w : FWorld) (g : Graph) (rm rj : Bool) (w' : FWorld) (uid : Nat)
    (h : w.constructResidual g rm rj = (w', some uid)) :
    ∃ o, w'.heap[uid]? = some o ∧ o.kind = .residual ∧
      (rm = false ∧ rj = false → o.parts = []) ∧
      (rm = true ∨ rj = true → ∃ p ic, o.parts = [p] ∧ p ∈ w'.subs ∧ p ≠ uid ∧ w'.heap[p]? = some ic ∧ ic.kind = .isCompleted ∧
        (rm = true → FT.machines ∈ ic.fts) ∧ (rj = true → FT.jobs ∈ ic.fts)) := by
  unfold FWorld.constructResidual at h
  by_cases h1 : (w.subs.any fun id => (w.heap[id]?.map (·.kind)) == some FKind.residual) = true
  · rw [if_pos h1] at h; cases h
  · rw [if_neg h1] at h
    simp only at h
    by_cases h2 : ((if rm then [FT.machines] else []) ++ (if rj then [FT.jobs] else [])).isEmpty = true
    · rw [if_pos h2] at h
      simp only [FWorld.push, Prod.mk.injEq, Option.some.injEq] at h
      obtain ⟨rfl, rfl⟩ := h
      refine ⟨_, List.getElem?_concat_length .., rfl, fun _ => rfl, ?_⟩
      intro hor
      exfalso
      rcases hor with e | e <;> subst e <;> simp at h2
    · rw [if_neg h2] at h
      simp only [FWorld.push, Prod.mk.injEq, Option.some.injEq] at h
      obtain ⟨rfl, rfl⟩ := h
      refine ⟨_, List.getElem?_concat_length .., rfl, ?_, ?_⟩
      · rintro ⟨rfl, rfl⟩; simp at h2
      · intro _
        obtain ⟨_, hm, ic, hic, hk, hn⟩ := RW.rk_getIsCompleted w ((if rm then [FT.machines] else []) ++ (if rj then [FT.jobs] else []))
        have hlt := (List.getElem?_eq_some_iff.1 hic).1
        refine ⟨_, ic, rfl, List.mem_append_left _ hm, Nat.ne_of_lt hlt, ?_, hk, ?_, ?_⟩
        · rw [List.getElem?_append_left hlt]; exact hic
        · rintro rfl; exact hn _ (by simp)
        · rintro rfl; exact hn _ (by simp)

/-- (4), the point of it: an `IsCompletedObserver` (or anything else) `hid` that is in the heap but not subscribed — unsubscribed
before the updater is attached — is neither taken as helper nor touched: the updater's helper is another, subscribed, observer -/
theorem C17_residual_helper_not_unsubscribed (w : FWorld) (g : Graph) (rm rj : Bool) (w' : FWorld) (uid : Nat)
    (h : w.constructResidual g rm rj = (w', some uid)) (hid : Nat) (oh : FObs) (hoh : w.heap[hid]? = some oh) (hn : hid ∉ w.subs) :
    w'.heap[hid]? = some oh ∧ hid ∉ w'.subs ∧ ∀ o, w'.heap[uid]? = some o → hid ∉ o.parts := by
  have hoff : Off hid oh (w.constructResidual g rm rj).1 := off_constructResidual ⟨hoh, hn⟩ g rm rj
  rw [h] at hoff
  refine ⟨hoff.1, hoff.2, fun o ho hp => hoff.2 ?_⟩
  obtain ⟨o', ho', _, h1, h2⟩ := C17_residual_helpers_detail w g rm rj w' uid h
  rw [ho] at ho'; cases ho'
  cases rm <;> cases rj
  · rw [h1 ⟨rfl, rfl⟩] at hp; cases hp
  all_goals
    obtain ⟨p, ic, e, hm, _⟩ := h2 (by simp)
    rw [e, List.mem_singleton] at hp
    rw [hp]; exact hm

/-! ## non-vacuity -/

/-! on `c11Instance`: `isReady` (0), `earliestStart` (1), `history` (2) are constructed, one dispatch; `earliestStart` is
unsubscribed; two more dispatches and a reset: entry 1 is what it was (and stale: a subscribed twin would have been rewritten),
entries 0 and 2 changed, the subscribers are `[0, 2]` -/
set_option maxRecDepth 100000 in
example :
    let w0 := FWorld.run { I := c11Instance }
      [.construct .isReady none, .construct .earliestStart none, .construct .history none, .disp 0 0 (some 1)]
    let w1 := [FEvU.ev (.disp 1 0 none), .ev (.disp 0 1 none), .ev .reset].foldl FWorld.stepU (w0.unsubscribe 1).1
    w0.subs = [0, 1, 2] ∧ (w0.unsubscribe 1).2 = true ∧ w1.subs = [0, 2] ∧ numScheduled w0.s = 1 ∧
    w1.heap[1]? = w0.heap[1]? ∧ (w0.heap[1]?.map (·.kind)) = some .earliestStart := by decide

set_option maxRecDepth 100000 in
example :
    let w0 := FWorld.run { I := c11Instance }
      [.construct .isReady none, .construct .earliestStart none, .construct .history none, .disp 0 0 (some 1)]
    let w1 := [FEvU.ev (.disp 1 0 none), .ev (.disp 0 1 none), .ev .reset].foldl FWorld.stepU (w0.unsubscribe 1).1
    w1.heap[0]? ≠ w0.heap[0]? ∧ w1.heap[2]? ≠ w0.heap[2]? := by decide

/-! the same history without the unsubscription: entry 1 is rewritten -/
set_option maxRecDepth 100000 in
example :
    let w0 := FWorld.run { I := c11Instance }
      [.construct .isReady none, .construct .earliestStart none, .construct .history none, .disp 0 0 (some 1)]
    let w1' := [FEvU.ev (.disp 1 0 none), .ev (.disp 0 1 none), .ev .reset].foldl FWorld.stepU w0
    w1'.heap[1]? ≠ w0.heap[1]? := by decide

/-! helpers too: `isCompleted` (0) creates `remainingOps` (1) and `unscheduled` (2); the helper 1 is unsubscribed; dispatch, reset
(the owner looks its helper up among the subscribers, finds none, builds 3), dispatch: entry 1 is what it was, the new helper 3 is
subscribed and counts -/
set_option maxRecDepth 100000 in
example :
    let w0 := FWorld.run { I := c11Instance } [.construct .isCompleted none, .disp 0 0 (some 1)]
    let w1 := [FEvU.unsub 1, .ev (.disp 1 0 none), .ev .reset, .ev (.disp 1 0 none)].foldl FWorld.stepU w0
    w0.subs = [0, 1, 2] ∧ (w0.heap.map (·.kind)) = [.isCompleted, .remainingOps, .unscheduled] ∧
    w1.subs = [0, 2, 3] ∧ w1.heap[1]? = w0.heap[1]? ∧
    (w1.heap[1]?.map fun o => o.col .jobs) = some [1, 3] ∧
    (w1.heap[3]?.map fun o => (o.kind, o.col .jobs)) = some (.remainingOps, [2, 2]) := by decide

/-! a residual updater attached after its would-be helper was unsubscribed builds a new one -/
set_option maxRecDepth 100000 in
example :
    let w0 := FWorld.run { I := c11Instance } [.construct .isCompleted none]
    let r := (w0.unsubscribe 0).1.constructResidual (build .agentTask c11Instance) true true
    w0.subs = [0, 1, 2] ∧ r.2 = some 4 ∧ r.1.subs = [1, 2, 3, 4] ∧
    (r.1.heap[4]?.map fun o => (o.kind, o.parts)) = some (.residual, [3]) ∧
    (r.1.heap[3]?.map (·.kind)) = some .isCompleted ∧ r.1.heap[0]? = w0.heap[0]? := by decide

end JS

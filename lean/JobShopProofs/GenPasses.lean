import JobShopProofs.Properties.C19
import JobShopProofs.GenRefusal
/-!
# Passes of a generator compose (C19)

Pulling `n + m` instances in one pass (`list(generator)` with `iteration_limit = n + m`) is the same as a pass of `n`
followed by a pass of `m` on the state the first pass left: same instances, same names, same final state, and the same
exception (with the same generator state) when a `generate()` raises.  One `generate()` is a pass of one.
-/
namespace JS

/-- a pass of n + m instances = a pass of n, then a pass of m from where the first one ended -/
theorem C19_passes_concat (p : GenParams) (n m : Nat) (g : GenState) :
    iterate p (n + m) g =
      match iterate p n g with
      | .error e => .error e
      | .ok (l1, g1) =>
        match iterate p m g1 with
        | .error e => .error e
        | .ok (l2, g2) => .ok (l1 ++ l2, g2) := by
  induction n generalizing g with
  | zero =>
    simp only [Nat.zero_add, iterate, List.nil_append]
    cases iterate p m g with
    | error e => rfl
    | ok r => rfl
  | succ n ih =>
    rw [show n + 1 + m = (n + m) + 1 by omega]
    simp only [iterate]
    cases hn : g.next p with
    | error e => rfl
    | ok r =>
      obtain ⟨I, name, g1⟩ := r
      simp only [ih g1]
      cases h1 : iterate p n g1 with
      | error e => rfl
      | ok r1 =>
        obtain ⟨l1, g2⟩ := r1
        simp only []
        cases h2 : iterate p m g2 with
        | error e => rfl
        | ok r2 => rfl

/-- one `generate()` is a pass of one -/
theorem C19_next_is_pass_of_one (p : GenParams) (g : GenState) :
    iterate p 1 g = match g.next p with | .error e => .error e | .ok (I, name, g1) => .ok ([(I, name)], g1) := by
  simp only [iterate]
  cases g.next p with
  | error e => rfl
  | ok r => rfl

/-- hence: `generate()`, then two passes of k - the instances (and names) are those of ONE pass of 1 + k + k on a twin
(same draws, same counter) -/
theorem C19_generate_then_two_passes (p : GenParams) (k : Nat) (g : GenState) (I : Instance) (nm : Nat) (g1 : GenState)
    (l1 : List (Instance × Nat)) (g2 : GenState) (l2 : List (Instance × Nat)) (g3 : GenState)
    (h0 : g.next p = .ok (I, nm, g1)) (h1 : iterate p k g1 = .ok (l1, g2)) (h2 : iterate p k g2 = .ok (l2, g3)) :
    iterate p (1 + k + k) g = .ok ((I, nm) :: l1 ++ l2, g3) := by
  rw [C19_passes_concat p (1 + k) k g, C19_passes_concat p 1 k g, C19_next_is_pass_of_one p g, h0]
  simp only [h1, h2, List.cons_append, List.nil_append]

/-! non-vacuity: `generate()`, a pass of one, another pass of one succeed on these draws, and give the three instances,
names 1, 2, 3 and the final state of one pass of three -/
example :
    let p : GenParams := { jobsRange := (1, 2), machinesRange := (1, 2), durRange := (1, 9) }
    let g : GenState := { draws := [1, 0, 4, 0, 2, 1, 6, 0, 3, 1, 0, 9, 9, 2, 5, 1, 7, 3, 0, 8] }
    let g1 : GenState := { draws := [6, 0, 3, 1, 0, 9, 9, 2, 5, 1, 7, 3, 0, 8], counter := 1 }
    let g2 : GenState := { draws := [0, 9, 9, 2, 5, 1, 7, 3, 0, 8], counter := 2 }
    let g3 : GenState := { draws := [7, 3, 0, 8], counter := 3 }
    let I1 : Instance := [[{ machines := [0], dur := 5 }], [{ machines := [0], dur := 3 }]]
    let I2 : Instance := [[{ machines := [0], dur := 4 }]]
    let I3 : Instance := [[{ machines := [0], dur := 1 }, { machines := [1], dur := 6 }]]
    g.next p = .ok (I1, 1, g1) ∧ iterate p 1 g1 = .ok ([(I2, 2)], g2) ∧ iterate p 1 g2 = .ok ([(I3, 3)], g3) ∧
      iterate p (1 + 1 + 1) g = .ok ([(I1, 1), (I2, 2), (I3, 3)], g3) := by
  refine ⟨by rfl, by rfl, by rfl, by rfl⟩

/-! a refusal in the second pass is the refusal of the long pass, with the same generator state -/
example :
    let p : GenParams := { jobsRange := (1, 3), machinesRange := (2, 3), durRange := (1, 9), allowLess := false }
    let g : GenState := { draws := [1, 0, 4, 0, 2, 1, 6, 0, 3, 1, 0, 9, 9] }
    (∃ l g1, iterate p 1 g = .ok (l, g1) ∧ iterate p 1 g1 = .error (.emptyRange, { draws := [9, 9], counter := 1 })) ∧
      iterate p (1 + 1) g = .error (.emptyRange, { draws := [9, 9], counter := 1 }) := by
  refine ⟨⟨_, _, by rfl, by rfl⟩, by rfl⟩

end JS

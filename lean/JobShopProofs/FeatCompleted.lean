import JobShopProofs.FeatureSpecs
import JobShopProofs.FeatureShape
/-!
# IsCompletedObserver and IsScheduledObserver (machine / job level) against their specifications

One step / initialisation at a time: the operation flags of `IsCompletedObserver` (`complOpsSpec`), its job flags and
job counters (`complJobsSpec`, `remJobsSpec`), and the ongoing-operation counters of `IsScheduledObserver`
(`ongoingMachSpec`, `ongoingJobsSpec`).
-/
namespace JS

/-! ## generic folds -/

theorem getD_eq_getElem' {α} (l : List α) (d : α) {k : Nat} (h : k < l.length) : l.getD k d = l[k] :=
  (List.getElem_eq_getD d).symm

/-- writing 1 at the positions `f r`, `r ∈ rs` -/
theorem foldl_setAt_one {α} (f : α → Nat) : ∀ (rs : List α) (col : List Int) (k : Nat),
    ((rs.foldl (fun col r => setAt col (f r) 1) col).getD k 0 =
      if (∃ r ∈ rs, f r = k) ∧ k < col.length then 1 else col.getD k 0) ∧
    (rs.foldl (fun col r => setAt col (f r) 1) col).length = col.length
  | [], col, k => by simp
  | r :: t, col, k => by
    simp only [List.foldl_cons]
    obtain ⟨h1, h2⟩ := foldl_setAt_one f t (setAt col (f r) 1) k
    rw [h1, h2, setAt_length, getD_setAt]
    refine ⟨?_, rfl⟩
    by_cases hk : k < col.length
    · by_cases ht : ∃ r' ∈ t, f r' = k
      · have : ∃ r' ∈ r :: t, f r' = k := by
          obtain ⟨r', hr', he⟩ := ht
          exact ⟨r', List.mem_cons_of_mem _ hr', he⟩
        rw [if_pos ⟨ht, hk⟩, if_pos ⟨this, hk⟩]
      · rw [if_neg (fun h => ht h.1)]
        by_cases hr : f r = k
        · rw [if_pos ⟨hr, hk⟩, if_pos ⟨⟨r, List.mem_cons_self, hr⟩, hk⟩]
        · have : ¬ ∃ r' ∈ r :: t, f r' = k := by
            rintro ⟨r', hr', he⟩
            rcases List.mem_cons.1 hr' with rfl | hr'
            · exact hr he
            · exact ht ⟨r', hr', he⟩
          rw [if_neg (fun h => hr h.1), if_neg (fun h => this h.1)]
    · rw [if_neg (fun h => hk h.2), if_neg (fun h => hk h.2), if_neg (fun h => hk h.2)]

/-- counting: adding 1 at the positions `f y`, `y ∈ l` -/
theorem foldl_addAt_one {α} (f : α → Nat) : ∀ (l : List α) (acc : List Int) (k : Nat), (∀ y ∈ l, f y < acc.length) →
    ((l.foldl (fun col y => addAt col (f y) 1) acc).getD k 0 =
      acc.getD k 0 + ((l.filter fun y => f y == k).length : Int)) ∧
    (l.foldl (fun col y => addAt col (f y) 1) acc).length = acc.length
  | [], acc, k, _ => by simp
  | y :: t, acc, k, h => by
    simp only [List.foldl_cons]
    have hy := h y (by simp)
    obtain ⟨h1, h2⟩ := foldl_addAt_one f t (addAt acc (f y) 1) k
      (by intro x hx; rw [addAt_length]; exact h x (by simp [hx]))
    rw [h1, h2, addAt_length]
    refine ⟨?_, rfl⟩
    have := getD_modify_add acc (f y) k 1 hy
    simp only [addAt]
    rw [this, List.filter_cons]
    by_cases hk : k = f y
    · subst hk
      simp only [↓reduceIte, beq_self_eq_true, List.length_cons]
      omega
    · have hne : (f y == k) = false := by simpa using fun e => hk e.symm
      simp only [hk, ↓reduceIte, hne, Bool.false_eq_true]
      omega

theorem foldl_addAt_zeros {α} (f : α → Nat) (l : List α) (n : Nat) (h : ∀ y ∈ l, f y < n) :
    l.foldl (fun col y => addAt col (f y) 1) (zeros n) =
      (List.range n).map fun k => ((l.filter fun y => f y == k).length : Int) := by
  have hz : ∀ y ∈ l, f y < (zeros n).length := by intro y hy; rw [zeros_length]; exact h y hy
  apply List.ext_getElem
  · rw [(foldl_addAt_one f l (zeros n) 0 hz).2, zeros_length]; simp
  · intro k h1 h2
    have hk : k < n := by simpa using h2
    rw [← getD_eq_getElem' _ 0 h1, (foldl_addAt_one f l (zeros n) k hz).1]
    simp only [List.getElem_map, List.getElem_range, zeros, List.getD_eq_getElem?_getD, List.getElem?_replicate, hk,
      ↓reduceIte, Option.getD_some]
    omega

/-! ## the stages of `IsCompletedObserver.update` -/

theorem wf_with_remJob {o : FObs} (h : o.WF) (rj : List Int) : ({ o with remJob := rj } : FObs).WF := ⟨h.keys, h.nodup⟩
theorem wf_with_remMach {o : FObs} (h : o.WF) (rm : List Int) : ({ o with remMach := rm } : FObs).WF := ⟨h.keys, h.nodup⟩
theorem col_with_remJob (o : FObs) (rj : List Int) (ft : FT) : ({ o with remJob := rj } : FObs).col ft = o.col ft := rfl
theorem col_with_remMach (o : FObs) (rm : List Int) (ft : FT) : ({ o with remMach := rm } : FObs).col ft = o.col ft := rfl

theorem mem_has {o : FObs} {ft : FT} (h : ft ∈ o.fts) : o.has ft = true := by simpa [FObs.has] using h

theorem icOps_facts (c : Cfg) (s : State) (o : FObs) (hw : o.WF) :
    (icOps c s o).WF ∧ (icOps c s o).fts = o.fts ∧ (icOps c s o).kind = o.kind ∧ (icOps c s o).remJob = o.remJob ∧
    ∀ ft, ft ≠ .operations → (icOps c s o).col ft = o.col ft := by
  unfold icOps
  split
  · exact ⟨hw.setCol _ _, rfl, rfl, rfl, fun ft h => col_setCol_other _ _ _ _ h⟩
  · exact ⟨hw, rfl, rfl, rfl, fun _ _ => rfl⟩

theorem icOps_col (c : Cfg) (s : State) (o : FObs) (hw : o.WF) (hft : FT.operations ∈ o.fts) :
    (icOps c s o).col .operations =
      (completedPure c s).foldl (fun col r => setAt col (opId c.I r) 1) (o.col .operations) := by
  unfold icOps
  rw [if_pos (mem_has hft)]
  exact col_setCol_same o .operations _ (hw.has_col hft)

theorem icMach_facts (ms : List Nat) (o : FObs) (hw : o.WF) :
    (icMach ms o).WF ∧ (icMach ms o).fts = o.fts ∧ (icMach ms o).kind = o.kind ∧ (icMach ms o).remJob = o.remJob ∧
    ∀ ft, ft ≠ .machines → (icMach ms o).col ft = o.col ft := by
  unfold icMach
  split
  · refine ⟨wf_with_remMach (hw.setCol _ _) _, rfl, rfl, rfl, fun ft h => ?_⟩
    dsimp only
    rw [col_with_remMach]
    exact col_setCol_other _ _ _ _ h
  · exact ⟨hw, rfl, rfl, rfl, fun _ _ => rfl⟩

theorem icJobs_facts (x : SOp) (o : FObs) (hw : o.WF) :
    (icJobs x o).WF ∧ (icJobs x o).fts = o.fts ∧ (icJobs x o).kind = o.kind ∧
    ∀ ft, ft ≠ .jobs → (icJobs x o).col ft = o.col ft := by
  unfold icJobs
  split
  · refine ⟨wf_with_remJob (hw.setCol _ _) _, rfl, rfl, fun ft h => ?_⟩
    dsimp only
    rw [col_with_remJob]
    exact col_setCol_other _ _ _ _ h
  · exact ⟨hw, rfl, rfl, fun _ _ => rfl⟩

theorem icJobs_jobs (x : SOp) (o : FObs) (hw : o.WF) (hft : FT.jobs ∈ o.fts) :
    (icJobs x o).remJob = addAt o.remJob x.job (-1) ∧
    (icJobs x o).col .jobs =
      setAt (o.col .jobs) x.job (if (addAt o.remJob x.job (-1)).getD x.job 0 == 0 then 1 else 0) := by
  unfold icJobs
  rw [if_pos (mem_has hft)]
  refine ⟨rfl, ?_⟩
  dsimp only
  rw [col_with_remJob]
  exact col_setCol_same o .jobs _ (hw.has_col hft)

theorem isCompletedUpdate_stages (c : Cfg) (s : State) (x : SOp) (o : FObs) :
    ∃ ms, isCompletedUpdate c s x o = icJobs x (icMach ms (icOps c s o)) := ⟨_, isCompletedUpdate_eq c s x o⟩

/-- structural facts, for every x -/
theorem isCompletedUpdate_wf (c : Cfg) (s : State) (x : SOp) (o : FObs) (hw : o.WF) :
    (isCompletedUpdate c s x o).WF ∧ (isCompletedUpdate c s x o).fts = o.fts ∧
    (isCompletedUpdate c s x o).kind = o.kind := by
  obtain ⟨ms, hms⟩ := isCompletedUpdate_stages c s x o
  rw [hms]
  obtain ⟨a1, a2, a3, _, _⟩ := icOps_facts c s o hw
  obtain ⟨b1, b2, b3, _, _⟩ := icMach_facts ms (icOps c s o) a1
  obtain ⟨c1, c2, c3, _⟩ := icJobs_facts x _ b1
  exact ⟨c1, c2.trans (b2.trans a2), c3.trans (b3.trans a3)⟩

/-! ## operation flags -/

theorem opId_getElem (I : Instance) (k : Nat) (h : k < (allOps I).length) : opId I (allOps I)[k] = k := by
  have h1 : ((allOps I).map (opId I))[k]? = (List.range (numOps I))[k]? := by rw [C14_ids]
  rw [List.getElem?_map, List.getElem?_eq_getElem h, List.getElem?_range (by rwa [length_allOps] at h)] at h1
  simpa using h1

theorem mem_completed_allOps {c : Cfg} {s : State} {r : OpRef} (h : r ∈ completedPure c s) : r ∈ allOps c.I := by
  unfold completedPure at h
  exact ((mem_sortRefs _ _ _).1 h).1

theorem complOps_fold (c : Cfg) (s s' : State)
    (hmono : ∀ r, r ∈ completedPure c s → r ∈ completedPure c s') :
    (completedPure c s').foldl (fun col r => setAt col (opId c.I r) 1) (complOpsSpec c s) = complOpsSpec c s' := by
  apply List.ext_getElem
  · rw [(foldl_setAt_one _ _ _ 0).2]; simp [complOpsSpec]
  · intro k h1 h2
    have hk : k < (allOps c.I).length := by simpa [complOpsSpec] using h2
    have hks : k < (complOpsSpec c s).length := by simpa [complOpsSpec] using hk
    rw [← getD_eq_getElem' _ 0 h1, (foldl_setAt_one _ _ _ k).1, getD_eq_getElem' _ 0 hks]
    have hr0 : (allOps c.I)[k] ∈ allOps c.I := List.getElem_mem hk
    have hid := opId_getElem c.I k hk
    have hiff : (∃ r ∈ completedPure c s', opId c.I r = k) ↔ (allOps c.I)[k] ∈ completedPure c s' := by
      constructor
      · rintro ⟨r, hr, he⟩
        have := opId_inj (mem_completed_allOps hr) hr0 (he.trans hid.symm)
        rw [← this]; exact hr
      · intro h; exact ⟨_, h, hid⟩
    simp only [complOpsSpec, List.getElem_map, List.contains_iff_mem]
    generalize (allOps c.I)[k] = r0 at hiff
    by_cases h' : r0 ∈ completedPure c s'
    · rw [if_pos ⟨hiff.2 h', by simpa using hk⟩, if_pos h']
    · rw [if_neg (fun h => h' (hiff.1 h.1)), if_neg h', if_neg (fun h => h' (hmono _ h))]

/-- operation flags: if the completed set only grows from `s` to `s'`, one update maps the indicator of the completed
operations of `s` to that of `s'` -/
theorem isCompletedUpdate_ops (c : Cfg) (s s' : State) (x : SOp) (o : FObs) (hw : o.WF) (hft : FT.operations ∈ o.fts)
    (hmono : ∀ r, r ∈ completedPure c s → r ∈ completedPure c s')
    (hspec : o.col .operations = complOpsSpec c s) :
    (isCompletedUpdate c s' x o).col .operations = complOpsSpec c s' := by
  obtain ⟨ms, hms⟩ := isCompletedUpdate_stages c s' x o
  rw [hms]
  obtain ⟨a1, _, _, _, _⟩ := icOps_facts c s' o hw
  obtain ⟨b1, _, _, _, b5⟩ := icMach_facts ms (icOps c s' o) a1
  obtain ⟨_, _, _, c4⟩ := icJobs_facts x _ b1
  rw [c4 _ (by decide), b5 _ (by decide), icOps_col c s' o hw hft, hspec, complOps_fold c s s' hmono]

/-! ## job flags and counters -/

theorem getD_addAt_other (l : List Int) (j k : Nat) (v : Int) (h : j ≠ k) : (addAt l j v).getD k 0 = l.getD k 0 := by
  simp only [addAt, List.getD_eq_getElem?_getD, List.getElem?_modify, h, ↓reduceIte]
  cases l[k]? <;> rfl

theorem complJobs_step (I : Instance) (s s' : State) (j : Nat)
    (hrem : remJobsSpec I s' = addAt (remJobsSpec I s) j (-1)) (hlen : (I.getD j []).length ≠ 0) :
    setAt (complJobsSpec I s) j (if (remJobsSpec I s').getD j 0 == 0 then 1 else 0) = complJobsSpec I s' := by
  apply List.ext_getElem
  · simp [setAt, complJobsSpec]
  · intro k h1 h2
    have hk : k < I.length := by simpa [complJobsSpec] using h2
    simp only [setAt, List.getElem_set]
    by_cases hjk : j = k
    · subst hjk
      simp only [↓reduceIte, complJobsSpec, List.getElem_map, List.getElem_range, ne_eq, hlen, not_false_eq_true,
        and_true, beq_iff_eq]
    · simp only [hjk, ↓reduceIte, complJobsSpec, List.getElem_map, List.getElem_range]
      rw [hrem, getD_addAt_other _ _ _ _ hjk]

theorem isCompletedUpdate_jobs (c : Cfg) {s s' : State} {j p m : Nat} {op : Op} (hwf : WF c.I s)
    (hd : DispSpec c.I s s' j p m op) (o : FObs) (hw : o.WF) (hft : FT.jobs ∈ o.fts)
    (hrem : o.remJob = remJobsSpec c.I s) (hspec : o.col .jobs = complJobsSpec c.I s) :
    (isCompletedUpdate c s' (newEntry s j p m op) o).remJob = remJobsSpec c.I s' ∧
    (isCompletedUpdate c s' (newEntry s j p m op) o).col .jobs = complJobsSpec c.I s' := by
  obtain ⟨ms, hms⟩ := isCompletedUpdate_stages c s' (newEntry s j p m op) o
  rw [hms]
  obtain ⟨a1, a2, _, a4, a5⟩ := icOps_facts c s' o hw
  obtain ⟨b1, b2, _, b4, b5⟩ := icMach_facts ms (icOps c s' o) a1
  obtain ⟨e1, e2⟩ := icJobs_jobs (newEntry s j p m op) _ b1 (by rw [b2, a2]; exact hft)
  have hj : (newEntry s j p m op).job = j := rfl
  have hstep := remJobsSpec_dispatch hwf hd
  have hlen : (c.I.getD j []).length ≠ 0 := by
    have : p < (c.I.getD j []).length := getD_length_of_getOp.1 (by simp [hd.hop])
    omega
  rw [e1, e2, hj, b4, a4, b5 _ (by decide), a5 _ (by decide), hrem, hspec, ← hstep]
  exact ⟨rfl, complJobs_step c.I s s' j hstep hlen⟩

/-! ## the initial state -/

theorem init_jobIdx_getD (I : Instance) (j : Nat) : (init I).jobIdx.getD j 0 = 0 := by
  simp only [init, List.getD_eq_getElem?_getD, List.getElem?_replicate]
  split <;> rfl

theorem completed_init (c : Cfg) : completedPure c (init c.I) = [] := by
  apply List.eq_nil_iff_forall_not_mem.2
  intro r hr
  unfold completedPure at hr
  have h1 := ((mem_sortRefs _ _ _).1 hr).2
  have h2 := (List.mem_filter.1 h1).1
  have h3 := ((mem_scheduledPure _ _ _).1 h2).2
  rw [init_jobIdx_getD] at h3
  omega

theorem ongoing_init (c : Cfg) : ongoingPure c (init c.I) = [] := by
  apply List.eq_nil_iff_forall_not_mem.2
  intro y hy
  unfold ongoingPure ongoingAt at hy
  obtain ⟨ms, hms, hy'⟩ := List.mem_flatMap.1 hy
  have : ms = [] := by
    simp only [init] at hms
    exact (List.mem_replicate.1 hms).2
  subst this
  simp at hy'

theorem remJobsSpec_init_getD (I : Instance) (j : Nat) (hj : j < I.length) :
    (remJobsSpec I (init I)).getD j 0 = ((I.getD j []).length : Int) := by
  unfold remJobsSpec
  rw [getD_eq_getElem' _ 0 (by simpa using hj)]
  simp only [List.getElem_map, List.getElem_range, filter_unscheduled_job, hj, ↓reduceIte, unschedJob,
    init_jobIdx_getD, List.drop_zero, List.length_map, List.length_range]

/-- the zero vectors are the specification in the initial state -/
theorem complSpecs_init (c : Cfg) :
    complOpsSpec c (init c.I) = zeros (numOps c.I) ∧ complJobsSpec c.I (init c.I) = zeros c.I.length := by
  constructor
  · unfold complOpsSpec zeros
    rw [completed_init]
    apply List.ext_getElem
    · simp [length_allOps]
    · intro k h1 h2
      simp
  · unfold complJobsSpec zeros
    apply List.ext_getElem
    · simp
    · intro k h1 h2
      have hk : k < c.I.length := by simpa using h1
      simp only [List.getElem_map, List.getElem_range, List.getElem_replicate, remJobsSpec_init_getD c.I k hk]
      rw [if_neg]
      omega

/-! ## ongoing operations -/

theorem mem_ongoingAt {s : State} {t : Int} {y : SOp} (h : y ∈ ongoingAt s t) :
    ∃ m, m < s.sched.length ∧ y ∈ s.sched.getD m [] := by
  unfold ongoingAt at h
  obtain ⟨ms, hms, hy⟩ := List.mem_flatMap.1 h
  have hy' : y ∈ ms := List.mem_reverse.1 ((List.takeWhile_sublist _).subset hy)
  obtain ⟨m, hm, rfl⟩ := List.mem_iff_getElem.1 hms
  exact ⟨m, hm, by simpa [List.getD_eq_getElem?_getD, List.getElem?_eq_getElem hm] using hy'⟩

theorem ongoing_bounds (c : Cfg) (s : State) (hc : CInv c.I s) :
    ∀ y ∈ ongoingPure c s, y.machine < numMachines c.I ∧ y.job < c.I.length := by
  intro y hy
  obtain ⟨m, hm, hym⟩ := mem_ongoingAt hy
  obtain ⟨a, hr, ha, _⟩ := hc.abs
  constructor
  · rw [hc.inList m y hym, ← hc.wf.lenS]; exact hm
  · have hya : y ∈ a.sched := hr.sched.mem_iff.2 (mem_getD_flatten _ _ _ hym)
    obtain ⟨op, hop, _⟩ := ha.sched_op y hya
    exact getOp_job_lt' c.I _ _ op hop

theorem isScheduledCol_indep (c : Cfg) (s : State) (x : SOp) :
    ∀ (o : FObs) (ft ft' : FT) (cc : List Int), ft ≠ ft' →
      isScheduledCol c s x (o.setCol ft' cc) ft = isScheduledCol c s x o ft := by
  intro o ft ft' cc hne
  cases ft <;> simp only [isScheduledCol, col_setCol_other _ _ _ _ hne]

theorem isScheduledUpdate_machines (c : Cfg) (s : State) (x : SOp) (o : FObs) (hw : o.WF) (hft : FT.machines ∈ o.fts)
    (hlt : ∀ y ∈ ongoingPure c s, y.machine < numMachines c.I) :
    (isScheduledUpdate c s x o).col .machines = ongoingMachSpec c s := by
  unfold isScheduledUpdate
  rw [(assignCols_col o (isScheduledCol c s x) hw (isScheduledCol_indep c s x) .machines hft).1]
  simp only [isScheduledCol, ongoingMachSpec]
  exact foldl_addAt_zeros (fun y : SOp => y.machine) _ _ hlt

theorem isScheduledUpdate_jobs (c : Cfg) (s : State) (x : SOp) (o : FObs) (hw : o.WF) (hft : FT.jobs ∈ o.fts)
    (hlt : ∀ y ∈ ongoingPure c s, y.job < c.I.length) :
    (isScheduledUpdate c s x o).col .jobs = ongoingJobsSpec c s := by
  unfold isScheduledUpdate
  rw [(assignCols_col o (isScheduledCol c s x) hw (isScheduledCol_indep c s x) .jobs hft).1]
  simp only [isScheduledCol, ongoingJobsSpec]
  exact foldl_addAt_zeros (fun y : SOp => y.job) _ _ hlt

/-- no operation is running in the initial state -/
theorem ongoingSpecs_init (c : Cfg) :
    ongoingMachSpec c (init c.I) = zeros (numMachines c.I) ∧ ongoingJobsSpec c (init c.I) = zeros c.I.length := by
  unfold ongoingMachSpec ongoingJobsSpec zeros
  rw [ongoing_init]
  constructor <;>
  · apply List.ext_getElem
    · simp
    · intro k h1 h2
      simp

end JS

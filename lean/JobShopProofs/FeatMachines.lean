import JobShopProofs.FeatureSpecs
/-!
# Machine-level feature values: the incremental observers compute the from-scratch specifications

`DurationObserver`, `RemainingOperationsObserver` and `IsCompletedObserver`, machine level: initialisation gives the
specification of `FeatureSpecs`, and one update across an accepted dispatch maps the specification of the old state
to the specification of the new state.
-/
namespace JS

/-! ## generic list facts

Helper lemmas and definitions live in `JS.FeatM` (to avoid name clashes); the target theorems are in `JS`. -/

theorem FeatM.ext_getD_int {l₁ l₂ : List Int} (hl : l₁.length = l₂.length) (h : ∀ k, k < l₁.length → l₁.getD k 0 = l₂.getD k 0) :
    l₁ = l₂ := by
  apply List.ext_getElem hl
  intro k h1 h2
  have := h k h1
  simpa [List.getD_eq_getElem?_getD, List.getElem?_eq_getElem h1, List.getElem?_eq_getElem h2] using this

open FeatM

theorem FeatM.getD_map_range (n : Nat) (f : Nat → Int) (k : Nat) (hk : k < n) : ((List.range n).map f).getD k 0 = f k := by
  simp [List.getD_eq_getElem?_getD, hk]

theorem FeatM.sum_map_flatMap {α β} (f : β → Int) (g : α → List β) : ∀ (l : List α),
    ((l.flatMap g).map f).sum = (l.map fun a => ((g a).map f).sum).sum
  | [] => rfl
  | a :: t => by
    simp only [List.flatMap_cons, List.map_append, List.sum_append, List.map_cons, List.sum_cons]
    rw [sum_map_flatMap f g t]

/-- two families of summands that differ only at `j < n` -/
theorem FeatM.sum_range_single (h h' : Nat → Int) (j : Nat) (d : Int) (hj' : h j = d + h' j)
    (hne : ∀ k, k ≠ j → h k = h' k) : ∀ n, j < n →
    ((List.range n).map h).sum = d + ((List.range n).map h').sum
  | 0, hj => by omega
  | n + 1, hj => by
    simp only [List.range_succ, List.map_append, List.sum_append, List.map_cons, List.map_nil, List.sum_cons,
      List.sum_nil, Int.add_zero]
    by_cases hn : j = n
    · subst hn
      have : ((List.range j).map h) = ((List.range j).map h') := by
        apply List.map_congr_left
        intro k hk
        exact hne k (by have := List.mem_range.1 hk; omega)
      rw [this, hj']
      omega
    · rw [sum_range_single h h' j d hj' hne n (by omega), hne n (fun e => hn e.symm)]
      omega

theorem FeatM.sum_map_filter_zero {α} (f : α → Int) (q : α → Bool) (hq : ∀ a, q a = false → f a = 0) : ∀ (l : List α),
    ((l.filter q).map f).sum = (l.map f).sum
  | [] => rfl
  | a :: t => by
    by_cases h : q a = true
    · simp only [List.filter_cons, h, ↓reduceIte, List.map_cons, List.sum_cons, sum_map_filter_zero f q hq t]
    · have h0 := hq a (by simpa using h)
      simp only [List.filter_cons, h, Bool.false_eq_true, ↓reduceIte, List.map_cons, List.sum_cons, h0,
        sum_map_filter_zero f q hq t, Int.zero_add]

/-! ## the unscheduled operations across a dispatch -/

theorem FeatM.unscheduledPure_eq (I : Instance) (s : State) :
    unscheduledPure I s = (List.range I.length).flatMap (unschedJob I s) := rfl

/-- a sum over the unscheduled operations loses exactly the summand of the dispatched operation -/
theorem FeatM.sum_unscheduled_dispatch {I : Instance} {s s' : State} {j p m : Nat} {op : Op} (hwf : WF I s)
    (hd : DispSpec I s s' j p m op) (f : OpRef → Int) :
    ((unscheduledPure I s).map f).sum = f (j, p) + ((unscheduledPure I s').map f).sum := by
  have hj : j < I.length := getOp_job_lt' I j p op hd.hop
  rw [unscheduledPure_eq, unscheduledPure_eq, sum_map_flatMap, sum_map_flatMap]
  apply sum_range_single _ _ j (f (j, p)) _ _ _ hj
  · rw [(unschedJob_dispatch hwf hd j).2]
    simp only [List.map_cons, List.sum_cons]
  · intro k hk
    rw [(unschedJob_dispatch hwf hd k).1 hk]

theorem dequesSpec_flatten (I : Instance) (s : State) : (dequesSpec I s).flatten = unscheduledPure I s := by
  unfold dequesSpec unscheduledPure
  rw [List.flatMap_def]

/-! ## `machCount` / `onMachine` -/

theorem FeatM.machCount_dispatched {I : Instance} {j p : Nat} {op : Op} (hop : getOp I j p = some op) (k : Nat) :
    machCount I k (j, p) = (op.machines.count k : Int) := by
  simp only [machCount, hop]

theorem FeatM.machCount_of_not_onMachine (I : Instance) (k : Nat) (r : OpRef) (h : onMachine I k r = false) :
    machCount I k r = 0 := by
  unfold onMachine at h
  unfold machCount
  cases hg : getOp I r.1 r.2 with
  | none => rfl
  | some op =>
    simp only [hg] at h ⊢
    have : ¬ k ∈ op.machines := by simpa using h
    rw [List.count_eq_zero_of_not_mem this]
    rfl

theorem FeatM.machCount_nonneg (I : Instance) (k : Nat) (r : OpRef) : 0 ≤ machCount I k r := by
  unfold machCount
  split
  · exact Int.natCast_nonneg _
  · exact Int.le_refl 0

theorem FeatM.machCount_pos_of_onMachine (I : Instance) (k : Nat) (r : OpRef) (h : onMachine I k r = true) :
    0 < machCount I k r := by
  unfold onMachine at h
  unfold machCount
  cases hg : getOp I r.1 r.2 with
  | none => simp [hg] at h
  | some op =>
    simp only [hg] at h ⊢
    have : k ∈ op.machines := by simpa using h
    have := List.count_pos_iff.2 this
    omega

/-- the duration specification without its (redundant) filter -/
theorem FeatM.durMachSpec_eq (I : Instance) (s : State) :
    durMachSpec I s = (List.range (numMachines I)).map fun m =>
      ((unscheduledPure I s).map fun r => machCount I m r * opDurF I r).sum := by
  unfold durMachSpec
  apply List.map_congr_left
  intro m _
  apply sum_map_filter_zero
  intro r hr
  rw [machCount_of_not_onMachine I m r hr, Int.zero_mul]

theorem FeatM.length_remMachSpec (I : Instance) (s : State) : (remMachSpec I s).length = numMachines I := by
  simp [remMachSpec]

theorem FeatM.length_durMachSpec (I : Instance) (s : State) : (durMachSpec I s).length = numMachines I := by
  simp [durMachSpec]

theorem FeatM.length_addAt (l : List Int) (i : Nat) (v : Int) : (addAt l i v).length = l.length := by
  simp [addAt]

/-- `addAt` seen through `getD` (inside the list) -/
theorem FeatM.getD_addAt (l : List Int) (i k : Nat) (v : Int) (hk : k < l.length) :
    (addAt l i v).getD k 0 = l.getD k 0 + (if k = i then v else 0) := by
  unfold addAt
  by_cases h : k = i
  · subst h
    exact getD_modify_add l k k v hk
  · simp only [h, ↓reduceIte, Int.add_zero, List.getD_eq_getElem?_getD, List.getElem?_modify]
    have : ¬ i = k := fun e => h e.symm
    simp [this]

/-- every eligible machine loses one unscheduled operation -/
theorem remMachSpec_dispatch {I : Instance} {s s' : State} {j p m : Nat} {op : Op} (hwf : WF I s)
    (hd : DispSpec I s s' j p m op) :
    remMachSpec I s' = op.machines.foldl (fun col k => addAt col k (-1)) (remMachSpec I s) := by
  have hlt : ∀ k ∈ op.machines, k < (remMachSpec I s).length := by
    intro k hk
    rw [length_remMachSpec]
    exact machine_lt I j p k op hd.hop hk
  have hfold := fun k => foldl_machines_load (-1) op.machines (remMachSpec I s) k hlt
  apply ext_getD_int
  · rw [show (fun col k => addAt col k (-1)) = (fun (acc : List Int) m => acc.modify m (· + (-1))) from rfl,
      (hfold 0).2, length_remMachSpec, length_remMachSpec]
  · intro k hk
    rw [length_remMachSpec] at hk
    rw [show (fun col k => addAt col k (-1)) = (fun (acc : List Int) m => acc.modify m (· + (-1))) from rfl,
      (hfold k).1]
    unfold remMachSpec
    rw [getD_map_range _ _ _ hk, getD_map_range _ _ _ hk, sum_unscheduled_dispatch hwf hd (machCount I k),
      machCount_dispatched hd.hop]
    omega

theorem remMachSpec_dispatch_nonflex {I : Instance} {s s' : State} {j p m : Nat} {op : Op} (hwf : WF I s)
    (hd : DispSpec I s s' j p m op) (hm : op.machines = [m]) :
    remMachSpec I s' = addAt (remMachSpec I s) m (-1) := by
  rw [remMachSpec_dispatch hwf hd, hm]
  rfl

theorem durMachSpec_dispatch_nonflex {I : Instance} {s s' : State} {j p m : Nat} {op : Op} (hwf : WF I s)
    (hd : DispSpec I s s' j p m op) (hm : op.machines = [m]) :
    durMachSpec I s' = addAt (durMachSpec I s) m (-op.dur) := by
  apply ext_getD_int
  · rw [length_addAt, length_durMachSpec, length_durMachSpec]
  · intro k hk
    rw [length_durMachSpec] at hk
    rw [getD_addAt _ _ _ _ (by rw [length_durMachSpec]; exact hk), durMachSpec_eq, durMachSpec_eq,
      getD_map_range _ _ _ hk, getD_map_range _ _ _ hk,
      sum_unscheduled_dispatch hwf hd (fun r => machCount I k r * opDurF I r), machCount_dispatched hd.hop, hm]
    have hdur : opDurF I (j, p) = op.dur := by simp only [opDurF, hd.hop]
    rw [hdur]
    by_cases hkm : k = m
    · subst hkm
      simp only [List.count_singleton_self, ↓reduceIte]
      omega
    · have : ¬ m = k := fun e => hkm e.symm
      simp only [List.count_singleton, beq_iff_eq, this, hkm, ↓reduceIte]
      omega

/-! ## DurationObserver, machine level -/

theorem FeatM.durationInitCol_machines (c : Cfg) (s : State) : durationInitCol c s .machines = durMachSpec c.I s := rfl

theorem durationInit_machines (c : Cfg) (s : State) (o : FObs) (hw : o.WF) (hft : FT.machines ∈ o.fts) :
    (durationInit c s o).col .machines = durMachSpec c.I s := by
  unfold durationInit
  rw [(assignCols_col o _ hw (by intros; rfl) .machines hft).1, durationInitCol_machines]

theorem durationUpdate_machines (c : Cfg) {s s' : State} {j p m : Nat} {op : Op} (hwf : WF c.I s)
    (hd : DispSpec c.I s s' j p m op) (hm : op.machines = [m]) (o : FObs) (hw : o.WF) (hft : FT.machines ∈ o.fts)
    (hspec : o.col .machines = durMachSpec c.I s) :
    (durationUpdate c s' (newEntry s j p m op) o).col .machines = durMachSpec c.I s' := by
  obtain ⟨h1, _⟩ := assignCols_col o (durationUpdateCol c s' (newEntry s j p m op)) hw
    (by
      intro o ft ft' cc hne
      cases ft <;> simp only [durationUpdateCol, col_setCol_other _ _ _ _ hne]) .machines hft
  unfold durationUpdate
  rw [h1]
  simp only [durationUpdateCol, newEntry]
  rw [hspec, durMachSpec_dispatch_nonflex hwf hd hm]

/-! ## RemainingOperationsObserver, machine level -/

theorem remainingUpdate_machines (I : Instance) {s s' : State} {j p m : Nat} {op : Op} (hwf : WF I s)
    (hd : DispSpec I s s' j p m op) (hm : op.machines = [m]) (o : FObs) (hw : o.WF) (hft : FT.machines ∈ o.fts)
    (hspec : o.col .machines = remMachSpec I s) :
    (remainingUpdate (newEntry s j p m op) o).col .machines = remMachSpec I s' := by
  unfold remainingUpdate
  have hhas : o.has .machines = true := by simpa [FObs.has] using hft
  simp only [newEntry]
  split
  · rw [if_pos (show (o.setCol .jobs (addAt (o.col .jobs) j (-1))).has .machines = true from hhas)]
    rw [col_setCol_same _ _ _ ((hw.setCol _ _).has_col hft), col_setCol_other _ _ _ _ (by decide), hspec,
      remMachSpec_dispatch_nonflex hwf hd hm]
  · rw [col_setCol_same _ _ _ (hw.has_col hft), hspec, remMachSpec_dispatch_nonflex hwf hd hm]

/-! ## `RemainingOperationsObserver.initialize_features` -/

/-- one iteration of the initialisation loop -/
def FeatM.remStep (I : Instance) (o : FObs) (r : OpRef) : FObs :=
  let o := if o.has .jobs then o.setCol .jobs (addAt (o.col .jobs) r.1 1) else o
  if o.has .machines then
    match getOp I r.1 r.2 with
    | some op => o.setCol .machines (op.machines.foldl (fun col m => addAt col m 1) (o.col .machines))
    | none => o
  else o

/-- what one iteration does to the machine column -/
def FeatM.machStep (I : Instance) (col : List Int) (r : OpRef) : List Int :=
  match getOp I r.1 r.2 with
  | some op => op.machines.foldl (fun col m => addAt col m 1) col
  | none => col

theorem FeatM.remainingInit_eq (c : Cfg) (deques : List (List OpRef)) (o : FObs) :
    remainingInit c deques o = deques.flatten.foldl (remStep c.I) o := rfl

theorem FeatM.has_iff (o : FObs) (ft : FT) : o.has ft = true ↔ ft ∈ o.fts := by
  simp [FObs.has]

theorem FeatM.remStep_spec (I : Instance) (o : FObs) (r : OpRef) (hw : o.WF) :
    (remStep I o r).WF ∧ (remStep I o r).fts = o.fts ∧
    (FT.jobs ∈ o.fts → (remStep I o r).col .jobs = addAt (o.col .jobs) r.1 1) ∧
    (FT.machines ∈ o.fts → (remStep I o r).col .machines = machStep I (o.col .machines) r) := by
  -- the job part
  have hj : ∃ o1 : FObs, o1 = (if o.has .jobs then o.setCol .jobs (addAt (o.col .jobs) r.1 1) else o) ∧ o1.WF ∧
      o1.fts = o.fts ∧ (FT.jobs ∈ o.fts → o1.col .jobs = addAt (o.col .jobs) r.1 1) ∧
      o1.col .machines = o.col .machines := by
    refine ⟨_, rfl, ?_⟩
    by_cases h : o.has .jobs = true
    · rw [if_pos h]
      exact ⟨hw.setCol _ _, rfl, fun hft => col_setCol_same o .jobs _ (hw.has_col hft),
        col_setCol_other _ _ _ _ (by decide)⟩
    · rw [if_neg h]
      exact ⟨hw, rfl, fun hft => absurd ((has_iff o .jobs).2 hft) h, rfl⟩
  obtain ⟨o1, ho1, hw1, hfts1, hjobs1, hmach1⟩ := hj
  have hstep : remStep I o r = (if o1.has .machines then
      match getOp I r.1 r.2 with
      | some op => o1.setCol .machines (op.machines.foldl (fun col m => addAt col m 1) (o1.col .machines))
      | none => o1
    else o1) := by rw [ho1]; rfl
  rw [hstep]
  by_cases h : o1.has .machines = true
  · rw [if_pos h]
    have hft1 : FT.machines ∈ o1.fts := (has_iff o1 .machines).1 h
    cases hg : getOp I r.1 r.2 with
    | none =>
      refine ⟨hw1, hfts1, hjobs1, fun _ => ?_⟩
      simp only [machStep, hg, hmach1]
    | some op =>
      refine ⟨hw1.setCol _ _, hfts1, fun hft => ?_, fun _ => ?_⟩
      · simp only
        rw [col_setCol_other _ _ _ _ (by decide), hjobs1 hft]
      · simp only [machStep, hg]
        rw [col_setCol_same _ _ _ (hw1.has_col hft1), hmach1]
  · rw [if_neg h]
    refine ⟨hw1, hfts1, hjobs1, fun hft => ?_⟩
    exact absurd ((has_iff o1 .machines).2 (hfts1 ▸ hft)) h

theorem FeatM.remStep_fold (I : Instance) : ∀ (l : List OpRef) (o : FObs), o.WF →
    (l.foldl (remStep I) o).WF ∧ (l.foldl (remStep I) o).fts = o.fts ∧
    (FT.jobs ∈ o.fts → (l.foldl (remStep I) o).col .jobs = l.foldl (fun col r => addAt col r.1 1) (o.col .jobs)) ∧
    (FT.machines ∈ o.fts → (l.foldl (remStep I) o).col .machines = l.foldl (machStep I) (o.col .machines))
  | [], o, hw => ⟨hw, rfl, fun _ => rfl, fun _ => rfl⟩
  | r :: t, o, hw => by
    obtain ⟨h1, h2, h3, h4⟩ := remStep_spec I o r hw
    obtain ⟨k1, k2, k3, k4⟩ := remStep_fold I t (remStep I o r) h1
    simp only [List.foldl_cons]
    refine ⟨k1, k2.trans h2, fun hft => ?_, fun hft => ?_⟩
    · rw [k3 (h2 ▸ hft), h3 hft]
    · rw [k4 (h2 ▸ hft), h4 hft]

theorem FeatM.jobs_fold : ∀ (l : List OpRef) (col : List Int),
    (l.foldl (fun col r => addAt col r.1 1) col).length = col.length ∧
    ∀ k, k < col.length → (l.foldl (fun col r => addAt col r.1 1) col).getD k 0 =
      col.getD k 0 + ((l.filter fun r => r.1 == k).length : Int)
  | [], col => ⟨rfl, fun k _ => by simp⟩
  | r :: t, col => by
    obtain ⟨h1, h2⟩ := jobs_fold t (addAt col r.1 1)
    simp only [List.foldl_cons]
    refine ⟨by rw [h1, length_addAt], fun k hk => ?_⟩
    rw [h2 k (by rw [length_addAt]; exact hk), getD_addAt _ _ _ _ hk, List.filter_cons]
    by_cases hr : r.1 = k
    · subst hr
      simp only [↓reduceIte, beq_self_eq_true, List.length_cons]
      omega
    · have h1 : ¬ k = r.1 := fun e => hr e.symm
      have h2 : (r.1 == k) = false := by simpa using hr
      simp only [h1, h2, ↓reduceIte, Bool.false_eq_true]
      omega

theorem FeatM.machStep_spec (I : Instance) (col : List Int) (r : OpRef) (hlen : numMachines I ≤ col.length) (k : Nat) :
    (machStep I col r).length = col.length ∧ (machStep I col r).getD k 0 = col.getD k 0 + machCount I k r := by
  unfold machStep machCount
  cases hg : getOp I r.1 r.2 with
  | none => simp
  | some op =>
    simp only
    have hlt : ∀ m ∈ op.machines, m < col.length := fun m hm =>
      Nat.lt_of_lt_of_le (machine_lt I r.1 r.2 m op hg hm) hlen
    obtain ⟨h1, h2⟩ := foldl_machines_load 1 op.machines col k hlt
    rw [show (fun col m => addAt col m 1) = (fun (acc : List Int) m => acc.modify m (· + 1)) from rfl, h1, h2]
    simp

theorem FeatM.mach_fold (I : Instance) : ∀ (l : List OpRef) (col : List Int), numMachines I ≤ col.length →
    (l.foldl (machStep I) col).length = col.length ∧
    ∀ k, (l.foldl (machStep I) col).getD k 0 = col.getD k 0 + (l.map (machCount I k)).sum
  | [], col, _ => ⟨rfl, fun k => by simp⟩
  | r :: t, col, hlen => by
    have hs := machStep_spec I col r hlen
    obtain ⟨h1, h2⟩ := mach_fold I t (machStep I col r) (by rw [(hs 0).1]; exact hlen)
    simp only [List.foldl_cons, List.map_cons, List.sum_cons]
    refine ⟨by rw [h1, (hs 0).1], fun k => ?_⟩
    rw [h2 k, (hs k).2]
    omega

theorem FeatM.getD_zeros (n k : Nat) : (zeros n).getD k 0 = 0 := by
  simp only [zeros, List.getD_eq_getElem?_getD, List.getElem?_replicate]
  split <;> rfl

set_option linter.unusedVariables false in
/-- initialisation from the true unscheduled lists gives the specification (flexible instances included) -/
theorem remainingInit_spec (c : Cfg) (s : State) (hwf : WF c.I s) (o : FObs) (hw : o.WF)
    (hz : ∀ ft ∈ o.fts, o.col ft = zeros (numEntities c.I ft)) :
    (FT.jobs ∈ o.fts → (remainingInit c (dequesSpec c.I s) o).col .jobs = remJobsSpec c.I s) ∧
    (FT.machines ∈ o.fts → (remainingInit c (dequesSpec c.I s) o).col .machines = remMachSpec c.I s) ∧
    (remainingInit c (dequesSpec c.I s) o).WF ∧ (remainingInit c (dequesSpec c.I s) o).fts = o.fts := by
  rw [remainingInit_eq, dequesSpec_flatten]
  obtain ⟨h1, h2, h3, h4⟩ := remStep_fold c.I (unscheduledPure c.I s) o hw
  refine ⟨fun hft => ?_, fun hft => ?_, h1, h2⟩
  · rw [h3 hft, hz _ hft]
    obtain ⟨k1, k2⟩ := jobs_fold (unscheduledPure c.I s) (zeros (numEntities c.I .jobs))
    have hl : (zeros (numEntities c.I .jobs)).length = c.I.length := by simp [zeros, numEntities]
    apply ext_getD_int
    · rw [k1, hl]; simp [remJobsSpec]
    · intro k hk
      rw [k1, hl] at hk
      rw [k2 k (by rw [hl]; exact hk), getD_zeros, remJobsSpec, getD_map_range _ _ _ hk]
      omega
  · rw [h4 hft, hz _ hft]
    have hl : (zeros (numEntities c.I .machines)).length = numMachines c.I := by simp [zeros, numEntities]
    obtain ⟨k1, k2⟩ := mach_fold c.I (unscheduledPure c.I s) (zeros (numEntities c.I .machines)) (by rw [hl]; exact Nat.le_refl _)
    apply ext_getD_int
    · rw [k1, hl, length_remMachSpec]
    · intro k hk
      rw [k1, hl] at hk
      rw [k2 k, getD_zeros, remMachSpec, getD_map_range _ _ _ hk]
      omega

/-! ## IsCompletedObserver, machine level -/

/-- the three parts of `IsCompletedObserver.update` -/
def FeatM.icOps (c : Cfg) (s : State) (o : FObs) : FObs :=
  if o.has .operations then
    o.setCol .operations ((completedPure c s).foldl (fun col r => setAt col (opId c.I r) 1) (o.col .operations))
  else o

def FeatM.icMach (ms : List Nat) (o : FObs) : FObs :=
  if o.has .machines then
    let rem := ms.foldl (fun col m => addAt col m (-1)) o.remMach
    let o2 := o.setCol .machines (ms.foldl (fun col m => setAt col m (if rem.getD m 0 == 0 then 1 else 0)) (o.col .machines))
    { o2 with remMach := rem }
  else o

def FeatM.icJobs (x : SOp) (o : FObs) : FObs :=
  if o.has .jobs then
    let rem := addAt o.remJob x.job (-1)
    let o2 := o.setCol .jobs (setAt (o.col .jobs) x.job (if rem.getD x.job 0 == 0 then 1 else 0))
    { o2 with remJob := rem }
  else o

theorem FeatM.isCompletedUpdate_eq (c : Cfg) (s : State) (x : SOp) (o : FObs) :
    isCompletedUpdate c s x o =
      icJobs x (icMach (match getOp c.I x.job x.pos with | some op => op.machines | none => []) (icOps c s o)) := rfl

theorem FeatM.icOps_spec (c : Cfg) (s : State) (o : FObs) (hw : o.WF) :
    (icOps c s o).WF ∧ (icOps c s o).fts = o.fts ∧ (icOps c s o).remMach = o.remMach ∧
    (icOps c s o).col .machines = o.col .machines := by
  unfold icOps
  split
  · exact ⟨hw.setCol _ _, rfl, rfl, col_setCol_other _ _ _ _ (by decide)⟩
  · exact ⟨hw, rfl, rfl, rfl⟩

theorem FeatM.icJobs_spec (x : SOp) (o : FObs) :
    (icJobs x o).remMach = o.remMach ∧ (icJobs x o).col .machines = o.col .machines := by
  unfold icJobs
  split
  · refine ⟨rfl, ?_⟩
    exact col_setCol_other o .jobs .machines _ (by decide)
  · exact ⟨rfl, rfl⟩

theorem FeatM.icMach_spec (ms : List Nat) (o : FObs) (hw : o.WF) (hft : FT.machines ∈ o.fts) :
    (icMach ms o).remMach = ms.foldl (fun col m => addAt col m (-1)) o.remMach ∧
    (icMach ms o).col .machines =
      ms.foldl (fun col m => setAt col m
        (if (ms.foldl (fun col m => addAt col m (-1)) o.remMach).getD m 0 == 0 then 1 else 0)) (o.col .machines) := by
  unfold icMach
  rw [if_pos ((has_iff o .machines).2 hft)]
  refine ⟨rfl, ?_⟩
  exact col_setCol_same o .machines _ (hw.has_col hft)

/-- a fold of `setAt` whose value depends only on the index -/
theorem FeatM.setAt_fold (v : Nat → Int) : ∀ (ms : List Nat) (col : List Int),
    (ms.foldl (fun col m => setAt col m (v m)) col).length = col.length ∧
    ∀ k, (ms.foldl (fun col m => setAt col m (v m)) col).getD k 0 =
      if k ∈ ms ∧ k < col.length then v k else col.getD k 0
  | [], col => ⟨rfl, fun k => by simp⟩
  | m :: t, col => by
    obtain ⟨h1, h2⟩ := setAt_fold v t (setAt col m (v m))
    have hl : (setAt col m (v m)).length = col.length := by simp [setAt]
    simp only [List.foldl_cons]
    refine ⟨by rw [h1, hl], fun k => ?_⟩
    rw [h2 k, hl, getD_setAt]
    by_cases hk : k < col.length
    · by_cases hkt : k ∈ t
      · simp [hkt, hk]
      · by_cases hkm : m = k
        · subst hkm; simp [hk]
        · have : ¬ k = m := fun e => hkm e.symm
          simp [hkt, hkm, this]
    · simp [hk]

/-- machine `k`'s counter after a dispatch -/
theorem FeatM.remMachSpec_dispatch_getD {I : Instance} {s s' : State} {j p m : Nat} {op : Op} (hwf : WF I s)
    (hd : DispSpec I s s' j p m op) (k : Nat) :
    (remMachSpec I s').getD k 0 = (remMachSpec I s).getD k 0 - (op.machines.count k : Int) := by
  have hlt : ∀ k ∈ op.machines, k < (remMachSpec I s).length := by
    intro k hk
    rw [length_remMachSpec]
    exact machine_lt I j p k op hd.hop hk
  rw [remMachSpec_dispatch hwf hd,
    show (fun col k => addAt col k (-1)) = (fun (acc : List Int) m => acc.modify m (· + (-1))) from rfl,
    (foldl_machines_load (-1) op.machines (remMachSpec I s) k hlt).1]
  omega

theorem FeatM.machineUsed_of_getOp {I : Instance} {j p k : Nat} {op : Op} (hop : getOp I j p = some op)
    (hk : k ∈ op.machines) : machineUsed I k = true := by
  unfold machineUsed
  rw [List.any_eq_true]
  refine ⟨(j, p), mem_allOps_of_getOp hop, ?_⟩
  simp only [onMachine, hop]
  simpa using hk

theorem FeatM.length_complMachSpec (I : Instance) (s : State) : (complMachSpec I s).length = numMachines I := by
  simp [complMachSpec]

set_option linter.unusedVariables false in
theorem isCompletedUpdate_machines (c : Cfg) {s s' : State} {j p m : Nat} {op : Op} (hwf : WF c.I s)
    (hd : DispSpec c.I s s' j p m op) (hnd : op.machines.Nodup) (o : FObs) (hw : o.WF) (hft : FT.machines ∈ o.fts)
    (hrem : o.remMach = remMachSpec c.I s) (hspec : o.col .machines = complMachSpec c.I s) :
    (isCompletedUpdate c s' (newEntry s j p m op) o).remMach = remMachSpec c.I s' ∧
    (isCompletedUpdate c s' (newEntry s j p m op) o).col .machines = complMachSpec c.I s' := by
  rw [isCompletedUpdate_eq]
  have hms : (match getOp c.I (newEntry s j p m op).job (newEntry s j p m op).pos with
      | some op => op.machines | none => []) = op.machines := by
    simp only [newEntry, hd.hop]
  rw [hms]
  obtain ⟨a1, a2, a3, a4⟩ := icOps_spec c s' o hw
  obtain ⟨b1, b2⟩ := icMach_spec op.machines (icOps c s' o) a1 (a2 ▸ hft)
  obtain ⟨c1, c2⟩ := icJobs_spec (newEntry s j p m op) (icMach op.machines (icOps c s' o))
  rw [c1, c2, b1, b2, a3, a4, hrem, hspec, ← remMachSpec_dispatch hwf hd]
  refine ⟨rfl, ?_⟩
  obtain ⟨k1, k2⟩ := setAt_fold (fun m => if (remMachSpec c.I s').getD m 0 == 0 then 1 else 0) op.machines
    (complMachSpec c.I s)
  apply ext_getD_int
  · rw [k1, length_complMachSpec, length_complMachSpec]
  · intro k hk
    rw [k1, length_complMachSpec] at hk
    rw [k2 k, length_complMachSpec]
    unfold complMachSpec
    rw [getD_map_range _ _ _ hk, getD_map_range _ _ _ hk]
    by_cases hkm : k ∈ op.machines
    · have hu := machineUsed_of_getOp hd.hop hkm
      simp only [hkm, hk, and_self, ↓reduceIte, hu, and_true, beq_iff_eq]
    · have h0 : op.machines.count k = 0 := List.count_eq_zero_of_not_mem hkm
      have := remMachSpec_dispatch_getD hwf hd k
      rw [h0] at this
      simp only [hkm, false_and, ↓reduceIte]
      rw [this]
      simp

/-! ## the completion flags of the initial state -/

theorem FeatM.unscheduledPure_init (I : Instance) : unscheduledPure I (init I) = allOps I := by
  unfold unscheduledPure allOps
  rw [List.flatMap_def, List.flatMap_def]
  congr 1
  apply List.map_congr_left
  intro j _
  have : (init I).jobIdx.getD j 0 = 0 := by
    simp only [init, List.getD_eq_getElem?_getD, List.getElem?_replicate]
    split <;> rfl
  simp only [this, List.drop_zero]

theorem FeatM.sum_map_pos {α} (f : α → Int) (hf : ∀ a, 0 ≤ f a) : ∀ (l : List α), (∃ a ∈ l, 0 < f a) → 0 < (l.map f).sum
  | [], h => by obtain ⟨a, ha, _⟩ := h; cases ha
  | b :: t, h => by
    simp only [List.map_cons, List.sum_cons]
    have hnn : ∀ (l : List α), 0 ≤ (l.map f).sum := by
      intro l
      induction l with
      | nil => simp
      | cons x l ih => simp only [List.map_cons, List.sum_cons]; have := hf x; omega
    obtain ⟨a, ha, hpos⟩ := h
    rcases List.mem_cons.1 ha with rfl | ha
    · have := hnn t; omega
    · have := sum_map_pos f hf t ⟨a, ha, hpos⟩
      have := hf b
      omega

theorem complMachSpec_init (I : Instance) : complMachSpec I (init I) = zeros (numMachines I) := by
  apply ext_getD_int
  · simp [length_complMachSpec, zeros]
  · intro k hk
    rw [length_complMachSpec] at hk
    rw [getD_zeros]
    unfold complMachSpec
    rw [getD_map_range _ _ _ hk]
    by_cases hu : machineUsed I k = true
    · have hpos : 0 < (remMachSpec I (init I)).getD k 0 := by
        unfold remMachSpec
        rw [getD_map_range _ _ _ hk, unscheduledPure_init]
        apply sum_map_pos _ (machCount_nonneg I k)
        unfold machineUsed at hu
        obtain ⟨r, hr, hon⟩ := List.any_eq_true.1 hu
        exact ⟨r, hr, machCount_pos_of_onMachine I k r hon⟩
      have : ¬ ((remMachSpec I (init I)).getD k 0 = 0) := by omega
      rw [if_neg (fun h => this h.1)]
    · rw [if_neg (fun h => hu h.2)]

end JS

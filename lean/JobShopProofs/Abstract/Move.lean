import JobShopProofs.Abstract.Progress
namespace JS

/-- Moving a ready operation to the slot the dispatcher gives it keeps the extension invariant. -/
theorem move_ok {I : Instance} {s : AState} {T : Asg} {B : Int}
    (hpos : PosDur I) (hinv : AInv I s) (hT : FeasT I T) (hext : Ext I s T) (hB : BoundT I T B)
    (j2 p2 m : Nat) (op2 : Op) (hop2 : getOp I j2 p2 = some op2) (hidx : s.idx j2 = p2) (hm : m ∈ op2.machines)
    (h_end : ∀ j' p' op', getOp I j' p' = some op' → s.idx j' ≤ p' → ¬ (j' = j2 ∧ p' = p2) →
        T.mach j' p' = m → startA s j2 m + op2.dur ≤ T.st j' p')
    (h_succ : ∀ op', getOp I j2 (p2+1) = some op' → startA s j2 m + op2.dur ≤ T.st j2 (p2+1))
    (h_bound : startA s j2 m + op2.dur ≤ B) :
    FeasT I (updT T j2 p2 m (startA s j2 m)) ∧
    Ext I (dispA s j2 p2 m op2) (updT T j2 p2 m (startA s j2 m)) ∧
    BoundT I (updT T j2 p2 m (startA s j2 m)) B := by
  have hd2 : 0 < op2.dur := hpos j2 p2 op2 hop2
  have hsj := startA_ge_jN s j2 m
  have hsm := startA_ge_mN s j2 m
  refine ⟨?_, ?_, ?_⟩
  · constructor
    · intro j p op hop
      by_cases h : j = j2 ∧ p = p2
      · obtain ⟨rfl, rfl⟩ := h
        rw [hop2] at hop; cases hop; simpa using hm
      · rw [updT_mach_other _ _ _ _ _ _ _ h]; exact hT.elig j p op hop
    · intro j p op hop
      by_cases h : j = j2 ∧ p = p2
      · obtain ⟨rfl, rfl⟩ := h
        have := hinv.jN_nonneg j; simp; omega
      · rw [updT_st_other _ _ _ _ _ _ _ h]; exact hT.nonneg j p op hop
    · intro j p op op' hop hop'
      by_cases h : j = j2 ∧ p = p2
      · obtain ⟨rfl, rfl⟩ := h
        rw [hop2] at hop; cases hop
        rw [updT_st_other _ _ _ _ _ _ _ (by omega : ¬ (j = j ∧ p + 1 = p))]
        simpa using h_succ op' hop'
      · by_cases h' : j = j2 ∧ p + 1 = p2
        · obtain ⟨rfl, rfl⟩ := h'
          rw [hop2] at hop'; cases hop'
          rw [updT_st_other _ _ _ _ _ _ _ h]
          have := (dispatched_facts hinv hext j p op hop (by omega)).2 (by omega)
          simp; omega
        · rw [updT_st_other _ _ _ _ _ _ _ h, updT_st_other _ _ _ _ _ _ _ h']
          exact hT.prec j p op op' hop hop'
    · intro j p op j' p' op' hop hop' hne hmach
      by_cases h : j = j2 ∧ p = p2
      · obtain ⟨rfl, rfl⟩ := h
        have h' : ¬ (j' = j ∧ p' = p) := by
          rintro ⟨rfl, rfl⟩; exact hne rfl
        rw [hop2] at hop; cases hop
        rw [updT_mach_other _ _ _ _ _ _ _ h'] at hmach
        rw [updT_st_other _ _ _ _ _ _ _ h']
        simp at hmach ⊢
        by_cases hdis : p' < s.idx j'
        · right
          have := (dispatched_facts hinv hext j' p' op' hop' hdis).1
          rw [← hmach] at this; omega
        · left
          exact h_end j' p' op' hop' (by omega) h' hmach.symm
      · by_cases h' : j' = j2 ∧ p' = p2
        · obtain ⟨rfl, rfl⟩ := h'
          rw [hop2] at hop'; cases hop'
          rw [updT_mach_other _ _ _ _ _ _ _ h] at hmach
          rw [updT_st_other _ _ _ _ _ _ _ h]
          simp at hmach ⊢
          by_cases hdis : p < s.idx j
          · left
            have := (dispatched_facts hinv hext j p op hop hdis).1
            rw [hmach] at this; omega
          · right
            exact h_end j p op hop (by omega) h hmach
        · rw [updT_mach_other _ _ _ _ _ _ _ h, updT_mach_other _ _ _ _ _ _ _ h'] at hmach
          rw [updT_st_other _ _ _ _ _ _ _ h, updT_st_other _ _ _ _ _ _ _ h']
          exact hT.disj j p op j' p' op' hop hop' hne hmach
  · constructor
    · intro x hx
      simp only [dispA, List.mem_append, List.mem_singleton] at hx
      rcases hx with hx | rfl
      · have hlt := hinv.sched_lt x hx
        have h : ¬ (x.job = j2 ∧ x.pos = p2) := by
          rintro ⟨h1, h2⟩; rw [h1] at hlt; omega
        rw [updT_mach_other _ _ _ _ _ _ _ h, updT_st_other _ _ _ _ _ _ _ h]
        exact hext.agree x hx
      · simp
    · intro j p op hop hle
      simp only [dispA] at hle ⊢
      have h : ¬ (j = j2 ∧ p = p2) := by
        rintro ⟨rfl, rfl⟩; simp at hle; omega
      have hund : s.idx j ≤ p := by
        by_cases hj : j = j2
        · subst hj; simp at hle; omega
        · rw [upd_other _ _ _ _ hj] at hle; exact hle
      rw [updT_mach_other _ _ _ _ _ _ _ h, updT_st_other _ _ _ _ _ _ _ h]
      by_cases hmm : T.mach j p = m
      · rw [hmm]; simp [SOp.end_]
        exact h_end j p op hop hund h hmm
      · rw [upd_other _ _ _ _ hmm]; exact hext.later j p op hop hund
  · intro j p op hop
    by_cases h : j = j2 ∧ p = p2
    · obtain ⟨rfl, rfl⟩ := h
      rw [hop2] at hop; cases hop; simpa using h_bound
    · rw [updT_st_other _ _ _ _ _ _ _ h]; exact hB j p op hop

end JS

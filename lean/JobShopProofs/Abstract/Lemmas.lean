import JobShopProofs.Abstract.Basic
namespace JS

theorem exists_min {α} (f : α → Int) : ∀ (l : List α), l ≠ [] → ∃ a ∈ l, ∀ b ∈ l, f a ≤ f b
  | [], h => absurd rfl h
  | [a], _ => ⟨a, by simp, by simp⟩
  | a :: b :: t, _ => by
    obtain ⟨c, hc, hmin⟩ := exists_min f (b :: t) (by simp)
    by_cases h : f a ≤ f c
    · refine ⟨a, by simp, ?_⟩
      intro x hx
      rcases List.mem_cons.1 hx with rfl | hx
      · omega
      · have := hmin x hx; omega
    · refine ⟨c, List.mem_cons_of_mem _ hc, ?_⟩
      intro x hx
      rcases List.mem_cons.1 hx with rfl | hx
      · omega
      · exact hmin x hx

theorem getOp_pred (I : Instance) (j p : Nat) (op : Op) (h : getOp I j (p+1) = some op) :
    ∃ op', getOp I j p = some op' := by
  unfold getOp at *
  cases hj : I[j]? with
  | none => simp [hj] at h
  | some job =>
    simp [hj] at h ⊢
    have hlt : p + 1 < job.length := by
      rcases List.getElem?_eq_some_iff.1 h with ⟨hl, _⟩; exact hl
    exact ⟨job[p], by simp [List.getElem?_eq_getElem (by omega : p < job.length)]⟩

theorem mem_allOps (I : Instance) (j p : Nat) : (j, p) ∈ allOps I ↔ ∃ op, getOp I j p = some op := by
  unfold allOps getOp
  simp only [List.mem_flatMap, List.mem_range, List.mem_map, Prod.mk.injEq, List.getD_eq_getElem?_getD]
  constructor
  · rintro ⟨j', hj', p', hp', rfl, rfl⟩
    have : I[j']? = some I[j'] := List.getElem?_eq_getElem hj'
    simp [this] at hp' ⊢
    exact ⟨(I[j'])[p'], by simp [List.getElem?_eq_getElem hp']⟩
  · rintro ⟨op, h⟩
    cases hj : I[j]? with
    | none => simp [hj] at h
    | some job =>
      simp [hj] at h
      have hjl : j < I.length := (List.getElem?_eq_some_iff.1 hj).1
      have hpl : p < job.length := (List.getElem?_eq_some_iff.1 h).1
      exact ⟨j, hjl, p, by simp [hj, hpl], rfl, rfl⟩

theorem getOp_job_lt (I : Instance) (j p : Nat) (op : Op) (h : getOp I j p = some op) : j < I.length := by
  unfold getOp at h
  cases hj : I[j]? with
  | none => simp [hj] at h
  | some job => exact (List.getElem?_eq_some_iff.1 hj).1

end JS

import JobShopProofs.Abstract.Move
namespace JS

def cands (I : Instance) (s : AState) (m1 : Nat) : List (Nat × Op) :=
  (List.range I.length).filterMap (fun j' =>
    match getOp I j' (s.idx j') with
    | some op' => if m1 ∈ op'.machines then some (j', op') else none
    | none => none)

theorem mem_cands (I : Instance) (s : AState) (m1 j' : Nat) (op' : Op) :
    (j', op') ∈ cands I s m1 ↔ getOp I j' (s.idx j') = some op' ∧ m1 ∈ op'.machines := by
  unfold cands
  simp only [List.mem_filterMap, List.mem_range]
  constructor
  · rintro ⟨a, ha, h⟩
    split at h
    · rename_i op'' hop''
      split at h
      · cases h; exact ⟨hop'', by assumption⟩
      · cases h
    · cases h
  · rintro ⟨h1, h2⟩
    exact ⟨j', getOp_job_lt I j' _ op' h1, by simp [h1, h2]⟩

theorem progress {I : Instance} {s : AState} {T : Asg} {B : Int}
    (hpos : PosDur I) (hinv : AInv I s) (hT : FeasT I T) (hext : Ext I s T) (hB : BoundT I T B)
    (hinc : ∃ j p, Undisp I s j p) :
    ∃ j p m op T', Ready I s j p ∧ getOp I j p = some op ∧ NonDom I s j p ∧ m ∈ op.machines ∧
      FeasT I T' ∧ Ext I (dispA s j p m op) T' ∧ BoundT I T' B := by
  -- the undispatched operation with the smallest start in T
  let U := (allOps I).filter (fun jp => decide (s.idx jp.1 ≤ jp.2))
  have hne : U ≠ [] := by
    obtain ⟨j, p, ⟨op, hop⟩, hle⟩ := hinc
    have : (j, p) ∈ U := by
      simp only [U, List.mem_filter, decide_eq_true_eq]
      exact ⟨(mem_allOps I j p).2 ⟨op, hop⟩, hle⟩
    exact List.ne_nil_of_mem this
  obtain ⟨⟨j1, p1⟩, hmem, hmin⟩ := exists_min (fun jp : Nat × Nat => T.st jp.1 jp.2) U hne
  simp only [U, List.mem_filter, decide_eq_true_eq] at hmem
  obtain ⟨op1, hop1⟩ := (mem_allOps I j1 p1).1 hmem.1
  have hund1 : s.idx j1 ≤ p1 := hmem.2
  have hmin' : ∀ j' p' op', getOp I j' p' = some op' → s.idx j' ≤ p' → T.st j1 p1 ≤ T.st j' p' := by
    intro j' p' op' hop' hle
    have : (j', p') ∈ U := by
      simp only [U, List.mem_filter, decide_eq_true_eq]
      exact ⟨(mem_allOps I j' p').2 ⟨op', hop'⟩, hle⟩
    exact hmin (j', p') this
  have hd1 : 0 < op1.dur := hpos j1 p1 op1 hop1
  -- it is ready
  have hidx1 : s.idx j1 = p1 := by
    apply Classical.byContradiction; intro hcon
    have hlt : s.idx j1 < p1 := by omega
    obtain ⟨q, rfl⟩ : ∃ q, p1 = q + 1 := ⟨p1 - 1, by omega⟩
    obtain ⟨opq, hq⟩ := getOp_pred I j1 q op1 hop1
    have h1 := hT.prec j1 q opq op1 hq hop1
    have h2 := hmin' j1 q opq hq (by omega)
    have h3 := hpos j1 q opq hq
    omega
  have helig1 := hT.elig j1 p1 op1 hop1
  have hs1 : startA s j1 (T.mach j1 p1) ≤ T.st j1 p1 := by
    have h1 := hext.later j1 p1 op1 hop1 hund1
    have h2 := jN_le_st hinv hT hext j1 p1 op1 hidx1 hop1
    unfold startA; omega
  have hb1 := hB j1 p1 op1 hop1
  by_cases hA : ∀ j' op', getOp I j' (s.idx j') = some op' → T.mach j1 p1 ∈ op'.machines →
      startA s j1 (T.mach j1 p1) < startA s j' (T.mach j1 p1) + op'.dur
  · -- case A: dispatch the minimal operation itself on its machine in T
    have hmv := move_ok hpos hinv hT hext hB j1 p1 (T.mach j1 p1) op1 hop1 hidx1 helig1
      (by
        intro j' p' op' hop' hle hne' hmach
        have hd' := hpos j' p' op' hop'
        have hne'' : (j1, p1) ≠ (j', p') := by
          intro h; cases h; exact hne' ⟨rfl, rfl⟩
        have := hT.disj j1 p1 op1 j' p' op' hop1 hop' hne'' hmach.symm
        have := hmin' j' p' op' hop' hle
        omega)
      (by
        intro op' hop'
        have := hT.prec j1 p1 op1 op' hop1 hop'
        omega)
      (by omega)
    exact ⟨j1, p1, T.mach j1 p1, op1, _, ⟨hidx1, by simp [hop1]⟩, hop1,
      ⟨op1, hop1, T.mach j1 p1, helig1, hA⟩, helig1, hmv.1, hmv.2.1, hmv.2.2⟩
  · -- case B: something fits entirely before it on that machine; take the one ending first
    have hA' : ∃ j' op', getOp I j' (s.idx j') = some op' ∧ T.mach j1 p1 ∈ op'.machines ∧
        startA s j' (T.mach j1 p1) + op'.dur ≤ startA s j1 (T.mach j1 p1) := by
      apply Classical.byContradiction; intro hno
      apply hA
      intro j' op' h1 h2
      apply Classical.byContradiction; intro hlt
      exact hno ⟨j', op', h1, h2, by omega⟩
    obtain ⟨j0, op0, h01, h02, h03⟩ := hA'
    have hcne : cands I s (T.mach j1 p1) ≠ [] :=
      List.ne_nil_of_mem ((mem_cands I s _ j0 op0).2 ⟨h01, h02⟩)
    obtain ⟨⟨j2, op2⟩, hc2, hcmin⟩ :=
      exists_min (fun c : Nat × Op => startA s c.1 (T.mach j1 p1) + c.2.dur) (cands I s (T.mach j1 p1)) hcne
    obtain ⟨hop2, hm2⟩ := (mem_cands I s _ j2 op2).1 hc2
    have hd2 : 0 < op2.dur := hpos j2 _ op2 hop2
    have he2 : startA s j2 (T.mach j1 p1) + op2.dur ≤ startA s j1 (T.mach j1 p1) := by
      have := hcmin (j0, op0) ((mem_cands I s _ j0 op0).2 ⟨h01, h02⟩)
      simp only at this; omega
    have hst2 := hmin' j2 (s.idx j2) op2 hop2 (Nat.le_refl _)
    have hmv := move_ok hpos hinv hT hext hB j2 (s.idx j2) (T.mach j1 p1) op2 hop2 rfl hm2
      (by
        intro j' p' op' hop' hle _ _
        have := hmin' j' p' op' hop' hle
        omega)
      (by
        intro op' hop'
        have := hT.prec j2 (s.idx j2) op2 op' hop2 hop'
        omega)
      (by omega)
    refine ⟨j2, s.idx j2, T.mach j1 p1, op2, _, ⟨rfl, by simp [hop2]⟩, hop2, ?_, hm2, hmv.1, hmv.2.1, hmv.2.2⟩
    refine ⟨op2, hop2, T.mach j1 p1, hm2, ?_⟩
    intro j'' op'' h1 h2
    have := hcmin (j'', op'') ((mem_cands I s _ j'' op'').2 ⟨h1, h2⟩)
    simp only at this; omega

end JS

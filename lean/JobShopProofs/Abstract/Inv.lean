import JobShopProofs.Abstract.Lemmas
namespace JS

theorem ainv_init (I : Instance) : AInv I ainit := by
  constructor <;> simp [ainit]

theorem startA_ge_jN (s : AState) (j m : Nat) : s.jN j ≤ startA s j m := by unfold startA; omega
theorem startA_ge_mN (s : AState) (j m : Nat) : s.mN m ≤ startA s j m := by unfold startA; omega

theorem ainv_step (I : Instance) (s : AState) (hinv : AInv I s) (j p m : Nat) (op : Op)
    (hr : Ready I s j p) (hop : getOp I j p = some op) (hd : 0 ≤ op.dur) : AInv I (dispA s j p m op) := by
  have hidx : s.idx j = p := hr.1
  have hjn := hinv.jN_nonneg j
  have hmn := hinv.mN_nonneg m
  have hsj := startA_ge_jN s j m
  have hsm := startA_ge_mN s j m
  constructor
  · -- sched_lt
    intro x hx
    simp only [dispA, List.mem_append, List.mem_singleton] at hx ⊢
    rcases hx with hx | rfl
    · have := hinv.sched_lt x hx
      by_cases hxj : x.job = j
      · rw [hxj] at this; simp [hxj]; omega
      · simp [upd_other _ _ _ _ hxj]; exact this
    · simp
  · -- sched_op
    intro x hx
    simp only [dispA, List.mem_append, List.mem_singleton] at hx
    rcases hx with hx | rfl
    · exact hinv.sched_op x hx
    · exact ⟨op, hop, rfl⟩
  · -- idx_sched
    intro j' p' hlt
    simp only [dispA] at hlt ⊢
    by_cases hj : j' = j
    · subst hj
      simp at hlt
      by_cases hp : p' = p
      · subst hp
        exact ⟨⟨j', p', m, startA s j' m, op.dur⟩, by simp, rfl, rfl⟩
      · obtain ⟨x, hx, h1, h2⟩ := hinv.idx_sched j' p' (by omega)
        exact ⟨x, by simp [hx], h1, h2⟩
    · rw [upd_other _ _ _ _ hj] at hlt
      obtain ⟨x, hx, h1, h2⟩ := hinv.idx_sched j' p' hlt
      exact ⟨x, by simp [hx], h1, h2⟩
  · -- uniq
    intro x hx y hy hj hp
    simp only [dispA, List.mem_append, List.mem_singleton] at hx hy
    rcases hx with hx | rfl <;> rcases hy with hy | rfl
    · exact hinv.uniq x hx y hy hj hp
    · have := hinv.sched_lt x hx
      simp at hj hp; rw [hj] at this; omega
    · have := hinv.sched_lt y hy
      simp at hj hp; rw [← hj] at this; omega
    · rfl
  · -- mN_ge
    intro x hx
    simp only [dispA, List.mem_append, List.mem_singleton] at hx ⊢
    rcases hx with hx | rfl
    · have := hinv.mN_ge x hx
      by_cases hxm : x.machine = m
      · simp [hxm, SOp.end_] at this ⊢; omega
      · rw [upd_other _ _ _ _ hxm]; exact this
    · simp
  · -- jN_last
    intro x hx hlast
    simp only [dispA, List.mem_append, List.mem_singleton] at hx hlast ⊢
    rcases hx with hx | rfl
    · by_cases hxj : x.job = j
      · have := hinv.sched_lt x hx
        simp [hxj] at hlast; rw [hxj] at this; omega
      · rw [upd_other _ _ _ _ hxj] at hlast ⊢
        exact hinv.jN_last x hx hlast
    · simp
  · -- jN_zero
    intro j' h0
    simp only [dispA] at h0 ⊢
    by_cases hj : j' = j
    · subst hj; simp at h0
    · rw [upd_other _ _ _ _ hj] at h0 ⊢; exact hinv.jN_zero j' h0
  · -- idx_valid
    intro j' p' hlt
    simp only [dispA] at hlt
    by_cases hj : j' = j
    · subst hj
      simp at hlt
      by_cases hp : p' = p
      · subst hp; simp [hop]
      · exact hinv.idx_valid j' p' (by omega)
    · rw [upd_other _ _ _ _ hj] at hlt; exact hinv.idx_valid j' p' hlt
  · -- jN_nonneg
    intro j'
    simp only [dispA]
    by_cases hj : j' = j
    · subst hj; simp [SOp.end_]; omega
    · rw [upd_other _ _ _ _ hj]; exact hinv.jN_nonneg j'
  · -- mN_nonneg
    intro m'
    simp only [dispA]
    by_cases hm : m' = m
    · subst hm; simp [SOp.end_]; omega
    · rw [upd_other _ _ _ _ hm]; exact hinv.mN_nonneg m'

end JS

import JobShopModel.Basic
/-!
# Abstract (functional) dispatcher state

History-quantified theorems are proved on this state: tracking vectors are total functions (function
update instead of `List.set`/`getD`), the schedule is the flat list of scheduled operations in dispatch
order.  `JobShopProofs/Refine.lean` relates the concrete list-based `JS.State` of the executable model to
it (`abs`, `abs_dispatch`).
-/
namespace JS

structure AState where
  idx : Nat → Nat
  mN : Nat → Int
  jN : Nat → Int
  sched : List SOp

def upd {β} (f : Nat → β) (a : Nat) (b : β) : Nat → β := fun x => if x = a then b else f x

@[simp] theorem upd_same {β} (f : Nat → β) (a : Nat) (b : β) : upd f a b a = b := by simp [upd]
theorem upd_other {β} (f : Nat → β) (a : Nat) (b : β) (x : Nat) (h : x ≠ a) : upd f a b x = f x := by simp [upd, h]

def ainit : AState := { idx := fun _ => 0, mN := fun _ => 0, jN := fun _ => 0, sched := [] }

def startA (s : AState) (j m : Nat) : Int := max (s.mN m) (s.jN j)

/-- accepted dispatch of (j,p) on m -/
def dispA (s : AState) (j p m : Nat) (op : Op) : AState :=
  let so : SOp := ⟨j, p, m, startA s j m, op.dur⟩
  { idx := upd s.idx j (p+1), mN := upd s.mN m so.end_, jN := upd s.jN j so.end_, sched := s.sched ++ [so] }

def PosDur (I : Instance) : Prop := ∀ j p op, getOp I j p = some op → 0 < op.dur

/-- ready = next op of its job -/
def Ready (I : Instance) (s : AState) (j p : Nat) : Prop := s.idx j = p ∧ (getOp I j p).isSome

/-- not dominated w.r.t. the whole ready set (criterion of `filter_dominated_operations`, positive durations) -/
def NonDom (I : Instance) (s : AState) (j p : Nat) : Prop :=
  ∃ op, getOp I j p = some op ∧ ∃ m ∈ op.machines,
    ∀ j' op', getOp I j' (s.idx j') = some op' → m ∈ op'.machines → startA s j m < startA s j' m + op'.dur

inductive FReach (I : Instance) : AState → Prop
  | init : FReach I ainit
  | step {s j p m op} : FReach I s → Ready I s j p → getOp I j p = some op → NonDom I s j p →
      m ∈ op.machines → FReach I (dispA s j p m op)

structure Asg where
  mach : Nat → Nat → Nat
  st : Nat → Nat → Int

structure FeasT (I : Instance) (T : Asg) : Prop where
  elig : ∀ j p op, getOp I j p = some op → T.mach j p ∈ op.machines
  nonneg : ∀ j p op, getOp I j p = some op → 0 ≤ T.st j p
  prec : ∀ j p op op', getOp I j p = some op → getOp I j (p+1) = some op' → T.st j p + op.dur ≤ T.st j (p+1)
  disj : ∀ j p op j' p' op', getOp I j p = some op → getOp I j' p' = some op' → (j, p) ≠ (j', p') →
      T.mach j p = T.mach j' p' → T.st j p + op.dur ≤ T.st j' p' ∨ T.st j' p' + op'.dur ≤ T.st j p

def BoundT (I : Instance) (T : Asg) (B : Int) : Prop := ∀ j p op, getOp I j p = some op → T.st j p + op.dur ≤ B

structure AInv (I : Instance) (s : AState) : Prop where
  sched_lt : ∀ x ∈ s.sched, x.pos < s.idx x.job
  sched_op : ∀ x ∈ s.sched, ∃ op, getOp I x.job x.pos = some op ∧ x.dur = op.dur
  idx_sched : ∀ j p, p < s.idx j → ∃ x ∈ s.sched, x.job = j ∧ x.pos = p
  uniq : ∀ x ∈ s.sched, ∀ y ∈ s.sched, x.job = y.job → x.pos = y.pos → x = y
  mN_ge : ∀ x ∈ s.sched, x.end_ ≤ s.mN x.machine
  jN_last : ∀ x ∈ s.sched, x.pos + 1 = s.idx x.job → s.jN x.job = x.end_
  jN_zero : ∀ j, s.idx j = 0 → s.jN j = 0
  idx_valid : ∀ j p, p < s.idx j → (getOp I j p).isSome
  jN_nonneg : ∀ j, 0 ≤ s.jN j
  mN_nonneg : ∀ m, 0 ≤ s.mN m

/-- T extends the partial schedule s -/
structure Ext (I : Instance) (s : AState) (T : Asg) : Prop where
  agree : ∀ x ∈ s.sched, T.mach x.job x.pos = x.machine ∧ T.st x.job x.pos = x.start
  later : ∀ j p op, getOp I j p = some op → s.idx j ≤ p → s.mN (T.mach j p) ≤ T.st j p

end JS

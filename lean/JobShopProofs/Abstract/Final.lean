import JobShopProofs.Abstract.Main
namespace JS

theorem filter_length_lt {α} (P Q : α → Bool) : ∀ (l : List α), (∀ a ∈ l, Q a = true → P a = true) →
    (∃ a ∈ l, P a = true ∧ Q a = false) → (l.filter Q).length < (l.filter P).length
  | [], _, h => by obtain ⟨a, ha, _⟩ := h; simp at ha
  | b :: t, himp, h => by
    obtain ⟨a, ha, hPa, hQa⟩ := h
    have hle : (t.filter Q).length ≤ (t.filter P).length := by
      clear ha
      induction t with
      | nil => simp
      | cons c t ih =>
        have hc := himp c (by simp)
        have ih' := ih (fun a ha => himp a (by
          rcases List.mem_cons.1 ha with rfl | ha
          · simp
          · simp [ha]))
        cases hq : Q c <;> cases hp : P c <;> simp [List.filter, hq, hp] at * <;> omega
    rcases List.mem_cons.1 ha with rfl | hat
    · simp [List.filter, hPa, hQa]; omega
    · have ih := filter_length_lt P Q t (fun x hx => himp x (List.mem_cons_of_mem _ hx)) ⟨a, hat, hPa, hQa⟩
      have hb := himp b (by simp)
      cases hq : Q b <;> cases hp : P b <;> simp [List.filter, hq, hp] at * <;> omega

def remaining (I : Instance) (s : AState) : Nat :=
  ((allOps I).filter (fun jp => decide (s.idx jp.1 ≤ jp.2))).length

theorem remaining_step (I : Instance) (s : AState) (j p m : Nat) (op : Op)
    (hr : Ready I s j p) (hop : getOp I j p = some op) :
    remaining I (dispA s j p m op) < remaining I s := by
  unfold remaining
  apply filter_length_lt
  · intro a _ h
    have h' : (dispA s j p m op).idx a.1 ≤ a.2 := by simpa using h
    have : s.idx a.1 ≤ a.2 := by
      simp only [dispA] at h'
      by_cases hj : a.1 = j
      · rw [hj] at h' ⊢; simp at h'; have := hr.1; omega
      · rw [upd_other _ _ _ _ hj] at h'; exact h'
    simpa using this
  · refine ⟨(j, p), (mem_allOps I j p).2 ⟨op, hop⟩, ?_, ?_⟩
    · simp; have := hr.1; omega
    · simp [dispA]

theorem ext_init (I : Instance) (T : Asg) (hT : FeasT I T) : Ext I ainit T := by
  constructor
  · intro x hx; simp [ainit] at hx
  · intro j p op hop _; simp [ainit]; exact hT.nonneg j p op hop

theorem reach_complete (I : Instance) (hpos : PosDur I) (B : Int) :
    ∀ (n : Nat) (s : AState) (T : Asg), remaining I s = n → FReach I s → AInv I s → FeasT I T → Ext I s T →
      BoundT I T B →
      ∃ s', FReach I s' ∧ AInv I s' ∧ (∀ j p, ¬ Undisp I s' j p) ∧ ∀ x ∈ s'.sched, x.end_ ≤ B := by
  intro n
  induction n using Nat.strongRecOn with
  | _ n ih =>
    intro s T hn hreach hinv hT hext hB
    by_cases hinc : ∃ j p, Undisp I s j p
    · obtain ⟨j, p, m, op, T', hr, hop, hnd, hm, hT', hext', hB'⟩ := progress hpos hinv hT hext hB hinc
      have hlt := remaining_step I s j p m op hr hop
      exact ih (remaining I (dispA s j p m op)) (by omega) _ T' rfl
        (FReach.step hreach hr hop hnd hm) (ainv_step I s hinv j p m op hr hop (Int.le_of_lt (hpos j p op hop))) hT' hext' hB'
    · refine ⟨s, hreach, hinv, ?_, ?_⟩
      · intro j p h; exact hinc ⟨j, p, h⟩
      · intro x hx
        obtain ⟨op, hop, hd⟩ := hinv.sched_op x hx
        obtain ⟨_, hs⟩ := hext.agree x hx
        have := hB x.job x.pos op hop
        simp [SOp.end_]; omega

/-- C08 (abstract level): every feasible complete assignment is matched or beaten by a history that only ever
dispatches operations surviving the dominated-operations filter. -/
theorem C08_pruned_reaches (I : Instance) (hpos : PosDur I) (T : Asg) (hT : FeasT I T) (B : Int)
    (hB : BoundT I T B) :
    ∃ s, FReach I s ∧ AInv I s ∧ (∀ j p, ¬ Undisp I s j p) ∧ ∀ x ∈ s.sched, x.end_ ≤ B :=
  reach_complete I hpos B _ ainit T rfl FReach.init (ainv_init I) hT (ext_init I T hT) hB

end JS

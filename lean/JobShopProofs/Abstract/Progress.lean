import JobShopProofs.Abstract.Inv
namespace JS

def Undisp (I : Instance) (s : AState) (j p : Nat) : Prop := (∃ op, getOp I j p = some op) ∧ s.idx j ≤ p

def updT (T : Asg) (j p m : Nat) (t : Int) : Asg :=
  { mach := fun a b => if a = j ∧ b = p then m else T.mach a b,
    st := fun a b => if a = j ∧ b = p then t else T.st a b }

@[simp] theorem updT_mach_same (T j p m t) : (updT T j p m t).mach j p = m := by simp [updT]
@[simp] theorem updT_st_same (T j p m t) : (updT T j p m t).st j p = t := by simp [updT]
theorem updT_mach_other (T j p m t a b) (h : ¬ (a = j ∧ b = p)) : (updT T j p m t).mach a b = T.mach a b := by
  simp [updT, h]
theorem updT_st_other (T j p m t a b) (h : ¬ (a = j ∧ b = p)) : (updT T j p m t).st a b = T.st a b := by
  simp [updT, h]

/-- facts about an already dispatched operation -/
theorem dispatched_facts {I s T} (hinv : AInv I s) (hext : Ext I s T) (j p : Nat) (op : Op)
    (hop : getOp I j p = some op) (hlt : p < s.idx j) :
    T.st j p + op.dur ≤ s.mN (T.mach j p) ∧ (s.idx j = p + 1 → s.jN j = T.st j p + op.dur) := by
  obtain ⟨x, hx, hj, hp⟩ := hinv.idx_sched j p hlt
  obtain ⟨op', hop', hd⟩ := hinv.sched_op x hx
  obtain ⟨hm, hs⟩ := hext.agree x hx
  rw [hj, hp] at hop' hm hs
  have : op' = op := by rw [hop] at hop'; exact (Option.some.inj hop').symm
  subst this
  have h1 := hinv.mN_ge x hx
  constructor
  · rw [hm, hs]; simp [SOp.end_] at h1; omega
  · intro hi
    have := hinv.jN_last x hx (by rw [hj, hp]; omega)
    rw [hj] at this; rw [this, hs]; simp [SOp.end_]; omega

theorem jN_le_st {I s T} (hinv : AInv I s) (hT : FeasT I T) (hext : Ext I s T) (j p : Nat) (op : Op)
    (hidx : s.idx j = p) (hop : getOp I j p = some op) : s.jN j ≤ T.st j p := by
  cases p with
  | zero => rw [hinv.jN_zero j hidx]; exact hT.nonneg j 0 op hop
  | succ q =>
    obtain ⟨opq, hq⟩ := getOp_pred I j q op hop
    have := (dispatched_facts hinv hext j q opq hq (by omega)).2 hidx
    have h2 := hT.prec j q opq op hq hop
    omega

end JS

import JobShopProofs.CompositeShape
import JobShopProofs.EnvLemmas
/-!
# The heap invariant of the feature world

`HeapOK`: every single-column feature observer is shaped, every residual updater holds a consistent graph no larger
than its initial graph, every composite was assembled from shaped parts whose feature types are those its parts have
now.  `WExt w w'`: nothing ever changes an observer's kind, parts, initial graph or (single-column observers) feature
types.  Every operation of the feature world preserves `HeapOK` and extends the world in the sense of `WExt`.
-/
namespace JS

def FKind.single : FKind → Bool
  | .isReady | .earliestStart | .duration | .isScheduled | .positionInJob | .remainingOps | .isCompleted => true
  | _ => false

def CompOK (I : Instance) (heap : List FObs) (o : FObs) : Prop :=
  ∃ hp : List FObs, o.cols = compositeCols hp o.parts ∧
    ∀ i ∈ o.parts, ∃ p q, hp[i]? = some p ∧ heap[i]? = some q ∧ q.kind.single = true ∧ p.Shaped I ∧ p.fts = q.fts

structure ObsOK (I : Instance) (heap : List FObs) (o : FObs) : Prop where
  single : o.kind.single = true → o.Shaped I
  res : o.kind = .residual → GInv o.graph ∧ SizeLe o.graph o.graph0 ∧ GInv o.graph0
  comp : o.kind = .composite → CompOK I heap o

def HeapOK (w : FWorld) : Prop := ∀ (k : Nat) (o : FObs), w.heap[k]? = some o → ObsOK w.cfg.I w.heap o

structure WExt (w w' : FWorld) : Prop where
  cfg : w'.cfg = w.cfg
  step : ∀ (k : Nat) (o : FObs), w.heap[k]? = some o → ∃ o', w'.heap[k]? = some o' ∧ o'.kind = o.kind ∧ o'.parts = o.parts ∧
    o'.graph0 = o.graph0 ∧ (o.kind.single = true → o'.fts = o.fts)

theorem WExt.refl (w : FWorld) : WExt w w := ⟨rfl, fun _ o h => ⟨o, h, rfl, rfl, rfl, fun _ => rfl⟩⟩

theorem WExt.trans {a b c : FWorld} (h1 : WExt a b) (h2 : WExt b c) : WExt a c := by
  refine ⟨h2.cfg.trans h1.cfg, ?_⟩
  intro k o h
  obtain ⟨o1, g1, k1, p1, r1, f1⟩ := h1.step k o h
  obtain ⟨o2, g2, k2, p2, r2, f2⟩ := h2.step k o1 g1
  exact ⟨o2, g2, k2.trans k1, p2.trans p1, r2.trans r1, fun hs => (f2 (k1 ▸ hs)).trans (f1 hs)⟩

def KindAt (w : FWorld) (id : Nat) (k : FKind) : Prop := ∃ o, w.heap[id]? = some o ∧ o.kind = k

theorem KindAt.ext {w w' : FWorld} {id : Nat} {k : FKind} (h : KindAt w id k) (e : WExt w w') : KindAt w' id k := by
  obtain ⟨o, ho, hk⟩ := h
  obtain ⟨o', ho', hk', _⟩ := e.step id o ho
  exact ⟨o', ho', hk'.trans hk⟩

theorem CompOK.ext {I : Instance} {w w' : FWorld} {o : FObs} (h : CompOK I w.heap o) (e : WExt w w') :
    CompOK I w'.heap o := by
  obtain ⟨hp, hc, hall⟩ := h
  refine ⟨hp, hc, ?_⟩
  intro i hi
  obtain ⟨p, q, hp1, hq, hs, hsh, hf⟩ := hall i hi
  obtain ⟨q', hq', hk', _, _, hf'⟩ := e.step i q hq
  exact ⟨p, q', hp1, hq', hk' ▸ hs, hsh, hf.trans (hf' hs).symm⟩

theorem ObsOK.ext {w w' : FWorld} {o : FObs} (h : ObsOK w.cfg.I w.heap o) (e : WExt w w') :
    ObsOK w'.cfg.I w'.heap o := by
  rw [e.cfg]
  exact ⟨h.single, h.res, fun hc => (h.comp hc).ext e⟩

theorem getD_of_some {w : FWorld} {id : Nat} {o : FObs} (h : w.heap[id]? = some o) : w.heap.getD id default = o := by
  simp [List.getD_eq_getElem?_getD, h]

/-! ## primitives -/

theorem setObs_ext (w : FWorld) (id : Nat) (o' : FObs)
    (hrel : ∀ o0, w.heap[id]? = some o0 → o'.kind = o0.kind ∧ o'.parts = o0.parts ∧ o'.graph0 = o0.graph0 ∧
      (o0.kind.single = true → o'.fts = o0.fts)) : WExt w (w.setObs id o') := by
  refine ⟨rfl, ?_⟩
  intro k o hk
  simp only [FWorld.setObs, List.getElem?_set]
  by_cases hik : id = k
  · subst hik
    have hlt : id < w.heap.length := (List.getElem?_eq_some_iff.1 hk).1
    simp only [↓reduceIte, hlt]
    obtain ⟨a, b, c, d⟩ := hrel o hk
    exact ⟨o', rfl, a, b, c, d⟩
  · simp only [hik, ↓reduceIte]
    exact ⟨o, hk, rfl, rfl, rfl, fun _ => rfl⟩

theorem setObs_ok {w : FWorld} (hw : HeapOK w) (id : Nat) (o' : FObs)
    (hrel : ∀ o0, w.heap[id]? = some o0 → o'.kind = o0.kind ∧ o'.parts = o0.parts ∧ o'.graph0 = o0.graph0 ∧
      (o0.kind.single = true → o'.fts = o0.fts))
    (hok : ∀ o0, w.heap[id]? = some o0 → ObsOK w.cfg.I (w.heap.set id o') o') :
    HeapOK (w.setObs id o') ∧ WExt w (w.setObs id o') := by
  have hext := setObs_ext w id o' hrel
  refine ⟨?_, hext⟩
  intro k o hk
  simp only [FWorld.setObs, List.getElem?_set] at hk
  by_cases hik : id = k
  · subst hik
    simp only [↓reduceIte] at hk
    split at hk
    · rename_i hlt
      cases hk
      have : ∃ o0, w.heap[id]? = some o0 := ⟨w.heap[id], List.getElem?_eq_getElem hlt⟩
      obtain ⟨o0, h0⟩ := this
      exact hok o0 h0
    · cases hk
  · simp only [hik, ↓reduceIte] at hk
    exact (hw k o hk).ext hext

theorem single_not_res {k : FKind} (h : k.single = true) : k ≠ .residual ∧ k ≠ .composite := by
  cases k <;> simp [FKind.single] at h ⊢

/-- rewriting a single-column observer by a shape-keeping transformer -/
theorem setObs_keeps {w : FWorld} (hw : HeapOK w) {id : Nat} {o0 o' : FObs} (h0 : w.heap[id]? = some o0)
    (hs : o0.kind.single = true) (hk : Keeps w.cfg.I o0 o') :
    HeapOK (w.setObs id o') ∧ WExt w (w.setObs id o') := by
  apply setObs_ok hw
  · intro o1 h1
    rw [h0] at h1; cases h1
    exact ⟨hk.kind, hk.parts, hk.graph.2, fun _ => hk.fts⟩
  · intro o1 h1
    rw [h0] at h1; cases h1
    have hks : o'.kind.single = true := hk.kind ▸ hs
    exact ⟨fun _ => hk.shaped, fun hr => absurd hr (single_not_res hks).1, fun hc => absurd hc (single_not_res hks).2⟩

/-- rewriting an observer that is neither a feature observer, nor a composite, nor a residual updater -/
theorem setObs_plain {w : FWorld} (hw : HeapOK w) {id : Nat} {o0 o' : FObs} (h0 : w.heap[id]? = some o0)
    (hp : o0.kind.single = false ∧ o0.kind ≠ .residual ∧ o0.kind ≠ .composite)
    (hsame : o'.kind = o0.kind ∧ o'.parts = o0.parts ∧ o'.graph0 = o0.graph0) :
    HeapOK (w.setObs id o') ∧ WExt w (w.setObs id o') := by
  apply setObs_ok hw
  · intro o1 h1
    rw [h0] at h1; cases h1
    exact ⟨hsame.1, hsame.2.1, hsame.2.2, fun h => by rw [hp.1] at h; cases h⟩
  · intro o1 h1
    rw [h0] at h1; cases h1
    refine ⟨fun h => ?_, fun h => ?_, fun h => ?_⟩
    · rw [hsame.1, hp.1] at h; cases h
    · exact absurd (hsame.1 ▸ h) hp.2.1
    · exact absurd (hsame.1 ▸ h) hp.2.2

theorem push_ext (w : FWorld) (o : FObs) : WExt w (w.push o).1 := by
  refine ⟨rfl, ?_⟩
  intro k o' hk
  have hlt : k < w.heap.length := (List.getElem?_eq_some_iff.1 hk).1
  refine ⟨o', ?_, rfl, rfl, rfl, fun _ => rfl⟩
  simp only [FWorld.push]
  rw [List.getElem?_append_left hlt]; exact hk

theorem push_ok {w : FWorld} (hw : HeapOK w) (o : FObs) (hok : ObsOK w.cfg.I (w.heap ++ [o]) o) :
    HeapOK (w.push o).1 ∧ WExt w (w.push o).1 ∧ (w.push o).1.heap[(w.push o).2]? = some o := by
  have hext := push_ext w o
  refine ⟨?_, hext, ?_⟩
  · intro k o' hk
    by_cases hlt : k < w.heap.length
    · have : w.heap[k]? = some o' := by
        simp only [FWorld.push] at hk
        rwa [List.getElem?_append_left hlt] at hk
      exact (hw k o' this).ext hext
    · simp only [FWorld.push] at hk
      rw [List.getElem?_append_right (by omega)] at hk
      have hk0 : k - w.heap.length = 0 := by
        cases hc : k - w.heap.length with
        | zero => rfl
        | succ n => rw [hc] at hk; simp at hk
      rw [hk0] at hk
      simp only [List.getElem?_cons_zero, Option.some.injEq] at hk
      subst hk
      exact hok
  · simp [FWorld.push]

/-- an observer of a kind without invariant clauses -/
theorem obsOK_plain (I : Instance) (heap : List FObs) (o : FObs)
    (hp : o.kind.single = false ∧ o.kind ≠ .residual ∧ o.kind ≠ .composite) : ObsOK I heap o :=
  ⟨fun h => (by rw [hp.1] at h; cases h), fun h => absurd h hp.2.1, fun h => absurd h hp.2.2⟩

/-! ## helper observers -/

theorem getUnscheduled_ok {w : FWorld} (hw : HeapOK w) :
    HeapOK w.getUnscheduled.1 ∧ WExt w w.getUnscheduled.1 ∧ KindAt w.getUnscheduled.1 w.getUnscheduled.2 .unscheduled := by
  unfold FWorld.getUnscheduled
  cases hf : w.findObs .unscheduled [] with
  | some id =>
    obtain ⟨o, ho, hk⟩ := findObs_kind hf
    exact ⟨hw, WExt.refl w, o, ho, hk⟩
  | none =>
    simp only
    obtain ⟨h1, h2, h3⟩ := push_ok hw
      { kind := .unscheduled,
        deques := w.s.sched.flatten.foldl (fun d x => popJobF d x.job) (fullDequesF w.cfg.I) }
      (obsOK_plain _ _ _ ⟨rfl, by simp, by simp⟩)
    exact ⟨h1, h2, _, h3, rfl⟩

theorem shaped_of_heapOK {w : FWorld} (hw : HeapOK w) {id : Nat} {o : FObs} (h : w.heap[id]? = some o)
    (hs : o.kind.single = true) : o.Shaped w.cfg.I := (hw id o h).single hs

theorem newRemaining_ok {w : FWorld} (hw : HeapOK w) (fts : List FT) (hnd : fts.Nodup) :
    HeapOK (w.newRemaining fts).1 ∧ WExt w (w.newRemaining fts).1 ∧
      KindAt (w.newRemaining fts).1 (w.newRemaining fts).2 .remainingOps := by
  unfold FWorld.newRemaining
  simp only
  obtain ⟨h1, e1, g1⟩ := push_ok hw (({ kind := .remainingOps, fts := fts } : FObs).zeroed w.cfg.I)
    ⟨fun _ => zeroed_shaped _ _ hnd, fun h => by simp [FObs.zeroed] at h, fun h => by simp [FObs.zeroed] at h⟩
  generalize hw1 : (w.push (({ kind := .remainingOps, fts := fts } : FObs).zeroed w.cfg.I)) = r1 at h1 e1 g1
  obtain ⟨w1, id⟩ := r1
  simp only at h1 e1 g1 ⊢
  obtain ⟨h2, e2, _⟩ := getUnscheduled_ok h1
  generalize w1.getUnscheduled = r2 at h2 e2
  obtain ⟨w2, uid⟩ := r2
  simp only at h2 e2 ⊢
  obtain ⟨o2, ho2, hk2, _, _, _⟩ := e2.step id _ g1
  have hks : o2.kind.single = true := by rw [hk2]; rfl
  rw [getD_of_some ho2]
  obtain ⟨h3, e3⟩ := setObs_keeps h2 ho2 hks
    (keeps_remainingInit w2.cfg (w2.heap.getD uid default).deques (shaped_of_heapOK h2 ho2 hks))
  refine ⟨h3, e1.trans (e2.trans e3), ?_⟩
  exact KindAt.ext ⟨o2, ho2, hk2⟩ e3

theorem getRemaining_ok {w : FWorld} (hw : HeapOK w) (need : List FT) (hnd : need.Nodup) :
    HeapOK (w.getRemaining need).1 ∧ WExt w (w.getRemaining need).1 ∧
      KindAt (w.getRemaining need).1 (w.getRemaining need).2 .remainingOps := by
  unfold FWorld.getRemaining
  cases hf : w.findObs .remainingOps need with
  | some id =>
    obtain ⟨o, ho, hk⟩ := findObs_kind hf
    exact ⟨hw, WExt.refl w, o, ho, hk⟩
  | none => exact newRemaining_ok hw need hnd

theorem keeps_withRem {I : Instance} {o : FObs} (h : o.Shaped I) (rj rm : List Int) :
    Keeps I o { o with remJob := rj, remMach := rm } :=
  ⟨⟨⟨h.wf.keys, h.wf.nodup⟩, h.one⟩, rfl, rfl, rfl, rfl, rfl⟩

theorem isCompletedInit_ok {w : FWorld} (hw : HeapOK w) {id : Nat} (hk : KindAt w id .isCompleted) :
    HeapOK (w.isCompletedInit id) ∧ WExt w (w.isCompletedInit id) := by
  obtain ⟨o0, h0, hk0⟩ := hk
  have hs0 : o0.kind.single = true := by rw [hk0]; rfl
  have hsh0 := shaped_of_heapOK hw h0 hs0
  unfold FWorld.isCompletedInit
  simp only
  rw [getD_of_some h0]
  obtain ⟨h1, e1⟩ := setObs_keeps hw h0 hs0 (keeps_zeroed (I := w.cfg.I) hsh0.wf.nodup)
  generalize w.setObs id (o0.zeroed w.cfg.I) = w1 at h1 e1
  have hnd : ((o0.zeroed w.cfg.I).fts.filter (· != .operations)).Nodup := hsh0.wf.nodup.filter _
  obtain ⟨h2, e2, _⟩ := getRemaining_ok h1 _ hnd
  generalize w1.getRemaining ((o0.zeroed w.cfg.I).fts.filter (· != .operations)) = r2 at h2 e2
  obtain ⟨w2, rid⟩ := r2
  simp only at h2 e2 ⊢
  obtain ⟨o2, ho2, hk2, _⟩ := (e1.trans e2).step id o0 h0
  have hs2 : o2.kind.single = true := by rw [hk2]; exact hs0
  rw [getD_of_some ho2]
  obtain ⟨h3, e3⟩ := setObs_keeps h2 ho2 hs2 (keeps_withRem (shaped_of_heapOK h2 ho2 hs2) _ _)
  exact ⟨h3, e1.trans (e2.trans e3)⟩

theorem resetRemaining_ok {w : FWorld} (hw : HeapOK w) {id : Nat} (hk : KindAt w id .remainingOps) :
    HeapOK (w.resetRemaining id) ∧ WExt w (w.resetRemaining id) := by
  unfold FWorld.resetRemaining
  simp only
  obtain ⟨h1, e1, ⟨u, hu, hku⟩⟩ := getUnscheduled_ok hw
  generalize w.getUnscheduled = r1 at h1 e1 hu
  obtain ⟨w1, uid⟩ := r1
  simp only at h1 e1 hu ⊢
  rw [getD_of_some hu]
  obtain ⟨h2, e2⟩ := setObs_plain h1 hu (o' := { u with deques := fullDequesF w1.cfg.I })
    ⟨by rw [hku]; rfl, by rw [hku]; simp, by rw [hku]; simp⟩ ⟨rfl, rfl, rfl⟩
  generalize w1.setObs uid { u with deques := fullDequesF w1.cfg.I } = w2 at h2 e2
  obtain ⟨o2, ho2, hk2⟩ := hk.ext (e1.trans e2)
  have hs2 : o2.kind.single = true := by rw [hk2]; rfl
  rw [getD_of_some ho2]
  have hsh := shaped_of_heapOK h2 ho2 hs2
  obtain ⟨h3, e3⟩ := setObs_keeps h2 ho2 hs2
    ((keeps_zeroed hsh.wf.nodup).trans
      (keeps_remainingInit w2.cfg (w2.heap.getD uid default).deques (zeroed_shaped _ _ hsh.wf.nodup)))
  exact ⟨h3, e1.trans (e2.trans e3)⟩

end JS

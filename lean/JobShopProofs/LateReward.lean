import JobShopProofs.RewardWorld
import JobShopProofs.ObserversTransparent
/-!
# C13 for reward observers constructed at any time

`C13_world` (`RewardWorld.lean`) covers reward observers constructed on the fresh dispatcher.  The library lets a user replace
the reward function of an environment later (`env.reward_function = IdleTimeReward(env.dispatcher)`), i.e. construct a reward
observer in an arbitrary state, after an arbitrary history (dispatches, resets, constructions of other observers).  The
telescoping identity then holds *relative to the state at construction* (`C13_late_reward`), and absolutely again after the next
reset; if the observer is constructed on a dispatcher that is fresh or was just reset, the sums are the absolute ones
(`C13_swapped_reward`).

Route: a frame relation `UK` for constructors in ANY dispatcher state (kinds never change, reward observers already in the heap
are untouched — unlike `RewW.PK`, which also has to allow resets), the invariant `Late id kind base w` for the one observer
`id`, preserved by every event with `base` replaced by the fresh state by a reset, alongside `BaseInv` (subscriber list well
formed, dispatcher state reachable).
-/
namespace JS

/-- the state the sums are relative to: the state at construction, or the fresh state once a reset happened afterwards -/
def rewardBase (c : Cfg) (s0 : State) (post : List FEv) : State := if post.any (· == .reset) then init c.I else s0

namespace LateRew

open RewW (IsRew Fresh)

/-! ## constructors, in any dispatcher state, leave the reward observers of the heap alone -/

structure UK (w w' : FWorld) : Prop where
  st : w'.cfg = w.cfg ∧ w'.s = w.s
  old : ∀ (k : Nat) (o : FObs), w.heap[k]? = some o → ∃ o' : FObs, w'.heap[k]? = some o' ∧ o'.kind = o.kind ∧
    (IsRew o.kind → o' = o)

theorem UK.refl (w : FWorld) : UK w w := ⟨⟨rfl, rfl⟩, fun _ o h => ⟨o, h, rfl, fun _ => rfl⟩⟩

theorem UK.trans {a b c : FWorld} (h1 : UK a b) (h2 : UK b c) : UK a c := by
  refine ⟨⟨h2.st.1.trans h1.st.1, h2.st.2.trans h1.st.2⟩, ?_⟩
  intro k o ho
  obtain ⟨o1, g1, k1, r1⟩ := h1.old k o ho
  obtain ⟨o2, g2, k2, r2⟩ := h2.old k o1 g1
  refine ⟨o2, g2, k2.trans k1, ?_⟩
  intro hk
  have hk1 : IsRew o1.kind := by rw [k1]; exact hk
  rw [r2 hk1, r1 hk]

theorem uk_push (w : FWorld) (o : FObs) : UK w (w.push o).1 :=
  ⟨⟨rfl, rfl⟩, fun k o0 h0 => ⟨o0, (FCtor.keep_push w o).keep k o0 h0, rfl, fun _ => rfl⟩⟩

theorem uk_setObs (w : FWorld) (id : Nat) (o' : FObs)
    (h : ∀ o0, w.heap[id]? = some o0 → o'.kind = o0.kind ∧ ¬ IsRew o0.kind) : UK w (w.setObs id o') := by
  refine ⟨⟨rfl, rfl⟩, ?_⟩
  intro k o hk
  by_cases hik : id = k
  · subst hik
    obtain ⟨a, b⟩ := h o hk
    exact ⟨o', FCtor.setObs_get_self hk o', a, fun hr => absurd hr b⟩
  · refine ⟨o, ?_, rfl, fun _ => rfl⟩
    simp only [FWorld.setObs]
    rw [List.getElem?_set_ne hik]; exact hk

/-- rewriting an observer that is not a reward observer, keeping its kind -/
theorem uk_setObs_plain {w : FWorld} {id : Nat} {o0 : FObs} (h0 : w.heap[id]? = some o0) (o' : FObs)
    (hk : o'.kind = o0.kind) (hr : ¬ IsRew o0.kind) : UK w (w.setObs id o') := by
  apply uk_setObs
  intro o1 h1
  rw [h0] at h1; cases h1
  exact ⟨hk, hr⟩

theorem kindAt_uk {w w' : FWorld} {id : Nat} {k : FKind} (h : KindAt w id k) (e : UK w w') : KindAt w' id k := by
  obtain ⟨o, ho, hk⟩ := h
  obtain ⟨o', ho', hk', _⟩ := e.old id o ho
  exact ⟨o', ho', hk'.trans hk⟩

theorem uk_getUnscheduled (w : FWorld) :
    UK w w.getUnscheduled.1 ∧ KindAt w.getUnscheduled.1 w.getUnscheduled.2 .unscheduled := by
  unfold FWorld.getUnscheduled
  cases hf : w.findObs .unscheduled [] with
  | some id =>
    obtain ⟨o, ho, hk⟩ := findObs_kind hf
    exact ⟨UK.refl w, o, ho, hk⟩
  | none => exact ⟨uk_push w _, RW.kindAt_push w _⟩

theorem uk_newRemaining (w : FWorld) (fts : List FT) :
    UK w (w.newRemaining fts).1 ∧ KindAt (w.newRemaining fts).1 (w.newRemaining fts).2 .remainingOps := by
  rw [FCtor.newRemaining_eq]
  simp only
  have e1 := uk_push w (({ kind := .remainingOps, fts := fts } : FObs).zeroed w.cfg.I)
  have k1 : KindAt (w.push (({ kind := .remainingOps, fts := fts } : FObs).zeroed w.cfg.I)).1 w.heap.length .remainingOps :=
    RW.kindAt_push w _
  generalize (w.push (({ kind := .remainingOps, fts := fts } : FObs).zeroed w.cfg.I)).1 = w1 at e1 k1
  obtain ⟨e2, _⟩ := uk_getUnscheduled w1
  generalize w1.getUnscheduled = r2 at e2
  obtain ⟨w2, uid⟩ := r2
  simp only at e2 ⊢
  obtain ⟨o2, ho2, hk2⟩ := kindAt_uk k1 e2
  rw [getD_of_some ho2]
  have e3 := uk_setObs_plain ho2 (remainingInit w2.cfg (w2.heap.getD uid default).deques o2)
    (RW.remainingInit_kind _ _ _) (by rw [hk2]; simp [IsRew])
  exact ⟨e1.trans (e2.trans e3), _, FCtor.setObs_get_self ho2 _, (RW.remainingInit_kind _ _ _).trans hk2⟩

theorem uk_getRemaining (w : FWorld) (need : List FT) :
    UK w (w.getRemaining need).1 ∧ KindAt (w.getRemaining need).1 (w.getRemaining need).2 .remainingOps := by
  unfold FWorld.getRemaining
  cases hf : w.findObs .remainingOps need with
  | some id =>
    obtain ⟨o, ho, hk⟩ := findObs_kind hf
    exact ⟨UK.refl w, o, ho, hk⟩
  | none => exact uk_newRemaining w need

theorem uk_isCompletedInit {w : FWorld} {id : Nat} (hk : KindAt w id .isCompleted) : UK w (w.isCompletedInit id) := by
  obtain ⟨o0, h0, hk0⟩ := hk
  unfold FWorld.isCompletedInit
  simp only
  rw [getD_of_some h0]
  have e1 : UK w (w.setObs id (o0.zeroed w.cfg.I)) := uk_setObs_plain h0 _ rfl (by rw [hk0]; simp [IsRew])
  have g1 : (w.setObs id (o0.zeroed w.cfg.I)).heap[id]? = some (o0.zeroed w.cfg.I) := FCtor.setObs_get_self h0 _
  generalize w.setObs id (o0.zeroed w.cfg.I) = w1 at e1 g1
  obtain ⟨e2, _⟩ := uk_getRemaining w1 ((o0.zeroed w.cfg.I).fts.filter (· != .operations))
  generalize w1.getRemaining ((o0.zeroed w.cfg.I).fts.filter (· != .operations)) = r2 at e2
  obtain ⟨w2, rid⟩ := r2
  simp only at e2 ⊢
  obtain ⟨o2, ho2, hk2, _⟩ := e2.old id _ g1
  have hk2' : o2.kind = .isCompleted := hk2.trans hk0
  rw [getD_of_some ho2]
  have e3 := uk_setObs_plain ho2 { o2 with
      remJob := if o2.has .jobs then (w2.heap.getD rid default).col .jobs else o2.remJob,
      remMach := if o2.has .machines then (w2.heap.getD rid default).col .machines else o2.remMach } rfl
      (by rw [hk2']; simp [IsRew])
  exact e1.trans (e2.trans e3)

theorem uk_getIsCompleted (w : FWorld) (need : List FT) : UK w (w.getIsCompleted need).1 := by
  unfold FWorld.getIsCompleted
  cases hf : w.findObs .isCompleted need with
  | some id => exact UK.refl w
  | none =>
    simp only
    exact (uk_push w _).trans (uk_isCompletedInit (RW.kindAt_push w _))

theorem uk_pushThen (w : FWorld) (base final : FObs) (hb : ¬ IsRew base.kind) (hk : final.kind = base.kind) :
    UK w ((w.push base).1.setObs (w.push base).2 final) := by
  refine (uk_push w base).trans (uk_setObs _ _ _ ?_)
  intro o0 h0
  rw [show (w.push base).2 = w.heap.length from rfl, FCtor.push_get_new] at h0
  cases h0
  exact ⟨hk, hb⟩

theorem uk_constructComposite (w : FWorld) (parts : Option (List Nat)) : UK w (w.constructComposite parts).1 := by
  unfold FWorld.constructComposite
  simp only
  exact uk_pushThen w _ _ (by simp [IsRew]) rfl

theorem uk_remainingCtor (w : FWorld) (base : FObs) (hk : base.kind = .remainingOps) :
    UK w ((w.push base).1.getUnscheduled.1.setObs (w.push base).2
      (remainingInit (w.push base).1.getUnscheduled.1.cfg
        ((w.push base).1.getUnscheduled.1.heap.getD (w.push base).1.getUnscheduled.2 default).deques base)) := by
  have e1 := uk_push w base
  have k1 : KindAt (w.push base).1 w.heap.length .remainingOps := hk ▸ RW.kindAt_push w base
  show UK w ((w.push base).1.getUnscheduled.1.setObs w.heap.length _)
  generalize (w.push base).1 = w1 at e1 k1
  obtain ⟨e2, _⟩ := uk_getUnscheduled w1
  obtain ⟨o2, ho2, hk2⟩ := kindAt_uk k1 e2
  exact e1.trans (e2.trans (uk_setObs_plain ho2 _ ((RW.remainingInit_kind _ _ _).trans (hk.trans hk2.symm))
    (by rw [hk2]; simp [IsRew])))

theorem uk_construct (w : FWorld) (kind : FKind) (fts : Option (List FT)) : UK w (w.construct kind fts).1 := by
  cases kind <;> simp only [FWorld.construct]
  all_goals
    repeat' split
    all_goals first
      | exact UK.refl w
      | exact uk_push w _
      | exact uk_pushThen w _ _ (by simp [FObs.zeroed, IsRew]) (RW.isReadyFeatures_kind _ _ _)
      | exact uk_pushThen w _ _ (by simp [FObs.zeroed, IsRew]) (RW.estFeatures_kind _ _ _)
      | exact uk_pushThen w _ _ (by simp [FObs.zeroed, IsRew]) (RW.durationInit_kind _ _ _)
      | exact uk_pushThen w _ _ (by simp [FObs.zeroed, IsRew]) (RW.positionInit_kind _ _ _)
      | exact uk_remainingCtor w _ rfl
      | exact (uk_push w _).trans (uk_isCompletedInit (RW.kindAt_push w _))

theorem uk_constructResidual (w : FWorld) (g : Graph) (rm rj : Bool) : UK w (w.constructResidual g rm rj).1 := by
  unfold FWorld.constructResidual
  by_cases h1 : (w.subs.any fun id => (w.heap[id]?.map (·.kind)) == some FKind.residual) = true
  · rw [if_pos h1]; exact UK.refl w
  · rw [if_neg h1]
    simp only
    generalize ((if rm then [FT.machines] else []) ++ (if rj then [FT.jobs] else [])) = need
    by_cases h2 : need.isEmpty = true
    · rw [if_pos h2]; exact uk_push w _
    · rw [if_neg h2]; exact (uk_getIsCompleted w need).trans (uk_push _ _)

/-! ## what holds in every feature world, whatever the order of the events -/

structure BaseInv (c : Cfg) (w : FWorld) : Prop where
  cfg : w.cfg = c
  subs : SubsOK w
  reach : ∃ evs, w.s = run c evs

theorem baseInv_init (c : Cfg) : BaseInv c (FWorld.init c) := ⟨rfl, subsOK_init c, [], rfl⟩

theorem baseInv_step {c : Cfg} {w : FWorld} (h : BaseInv c w) (ev : FEv) : BaseInv c (w.step ev) := by
  obtain ⟨h1, h2⟩ := FWorld.step_s w ev
  refine ⟨h1.trans h.cfg, ?_, ?_⟩
  · cases ev with
    | disp j p m => exact (dispatch_keeps w j p m).1 h.subs
    | reset => exact (reset_keeps w).1 h.subs
    | construct k fts => exact (good_construct w k fts).ok h.subs
    | composite parts => exact (good_constructComposite w parts).ok h.subs
    | residual b rm rj => exact (good_constructResidual w _ rm rj).ok h.subs
  · obtain ⟨evs, he⟩ := h.reach
    cases hev : ev.toEv? with
    | none =>
      rw [hev] at h2
      exact ⟨evs, h2.trans he⟩
    | some e =>
      rw [hev] at h2
      refine ⟨evs ++ [e], ?_⟩
      rw [run_snoc, ← he, ← h.cfg]
      exact h2

theorem baseInv_foldl {c : Cfg} : ∀ (evs : List FEv) (w : FWorld), BaseInv c w → BaseInv c (evs.foldl FWorld.step w)
  | [], _, h => h
  | e :: t, w, h => by simp only [List.foldl_cons]; exact baseInv_foldl t _ (baseInv_step h e)

/-! ## the invariant of one reward observer, relative to the state `base` -/

/-- what C13 says about a reward observer, relative to the state `base` -/
structure RelOK (base s : State) (o : FObs) : Prop where
  neg : ∀ r ∈ o.rewards, r ≤ 0
  len : o.rewards.length + numScheduled base = numScheduled s
  mksp : o.kind = .makespanReward → o.rewards.sum = makespan base - makespan s ∧ o.curMakespan = makespan s
  idle : o.kind = .idleReward → o.rewards.sum = idleTotal base - idleTotal s

theorem relOK_fresh (s : State) (o : FObs) (h : Fresh s o) : RelOK s s o := by
  obtain ⟨h1, h2⟩ := h
  refine ⟨?_, ?_, ?_, ?_⟩
  · rw [h1]; intro r hr; cases hr
  · rw [h1]; simp
  · intro hk; rw [h1, h2 hk]; simp
  · intro _; rw [h1]; simp

/-- one notification of a reward observer across an accepted dispatch -/
theorem relOK_upd {c : Cfg} (hv : Valid c.I) {s s' : State} {j p : Nat} {m : Option Int} {mm : Nat} {op : Op}
    (hi : Inv c s) (hdr : dispatchReq c.I s j p m = .ok s') (hdd : dispatch c.I s j p mm = .ok s')
    (hx : newEntry s j p mm op ∈ s'.sched.flatten) (hp : List FObs) (base : State) (o : FObs) (h : RelOK base s o)
    (hr : IsRew o.kind) :
    RelOK base s' (updObs c s' (newEntry s j p mm op) hp o) ∧ (updObs c s' (newEntry s j p mm op) hp o).kind = o.kind := by
  have hn : numScheduled s' = numScheduled s + 1 := numScheduled_dispatch hi.cinv.wf hdd
  have hlen := h.len
  rcases hr with hk | hk
  · have e : updObs c s' (newEntry s j p mm op) hp o =
        { o with curMakespan := max o.curMakespan (newEntry s j p mm op).end_,
                 rewards := o.rewards ++ [o.curMakespan - max o.curMakespan (newEntry s j p mm op).end_] } := by
      simp only [updObs, hk]
    rw [e]
    obtain ⟨h1, h2⟩ := h.mksp hk
    have hm := makespan_dispatch hv hi hdr hx rfl rfl
    refine ⟨⟨?_, ?_, ?_, ?_⟩, rfl⟩
    · intro r hr
      rcases List.mem_append.1 hr with hr | hr
      · exact h.neg r hr
      · simp only [List.mem_singleton] at hr; subst hr; omega
    · simp only [List.length_append, List.length_singleton]; omega
    · intro _
      simp only
      refine ⟨?_, by rw [h2, hm]⟩
      rw [sum_append_singleton, h1, h2, hm]; omega
    · intro hk'
      have hk'' : o.kind = .idleReward := hk'
      rw [hk] at hk''; cases hk''
  · have e : updObs c s' (newEntry s j p mm op) hp o =
        { o with rewards := o.rewards ++
            [-(idleGap (s'.sched.getD (newEntry s j p mm op).machine []).dropLast (newEntry s j p mm op))] } := by
      simp only [updObs, hk]
      rfl
    rw [e]
    have h1 := h.idle hk
    obtain ⟨hid, hge⟩ := RewW.idle_dispatch hv hi hdr hx rfl rfl
    refine ⟨⟨?_, ?_, ?_, ?_⟩, rfl⟩
    · intro r hr
      rcases List.mem_append.1 hr with hr | hr
      · exact h.neg r hr
      · simp only [List.mem_singleton] at hr; subst hr; omega
    · simp only [List.length_append, List.length_singleton]; omega
    · intro hk'
      have hk'' : o.kind = .makespanReward := hk'
      rw [hk] at hk''; cases hk''
    · intro _
      simp only
      rw [sum_append_singleton, h1, hid]; omega

/-- the reward observer `id` of kind `kind` is subscribed and its rewards telescope relative to `base` -/
structure Late (id : Nat) (kind : FKind) (base : State) (w : FWorld) : Prop where
  mem : id ∈ w.subs
  obs : ∃ o, w.heap[id]? = some o ∧ o.kind = kind ∧ RelOK base w.s o

/-- the constructor of a reward observer, in any state -/
theorem late_construct {w0 w1 : FWorld} {kind : FKind} {id : Nat} (hk : IsRew kind)
    (hc : w0.construct kind none = (w1, some id)) : Late id kind w0.s w1 := by
  rcases hk with rfl | rfl
  · simp only [FWorld.construct] at hc
    split at hc
    · cases hc
    · cases hc
      exact ⟨by simp [FWorld.push], _, FCtor.push_get_new _ _, rfl, relOK_fresh _ _ ⟨rfl, fun _ => rfl⟩⟩
  · simp only [FWorld.construct] at hc
    split at hc
    · cases hc
    · cases hc
      exact ⟨by simp [FWorld.push], _, FCtor.push_get_new _ _, rfl,
        relOK_fresh _ _ ⟨rfl, fun h => by cases h⟩⟩

theorem late_frame {w w' : FWorld} {id : Nat} {kind : FKind} {base : State} (hk : IsRew kind) (e : UK w w')
    (g : Good w w') (h : Late id kind base w) : Late id kind base w' := by
  obtain ⟨o, ho, hko, hrel⟩ := h.obs
  obtain ⟨t, ht⟩ := g.pre
  refine ⟨by rw [ht]; exact List.mem_append_left _ h.mem, ?_⟩
  obtain ⟨o', ho', _, r⟩ := e.old id o ho
  have : o' = o := r (by rw [hko]; exact hk)
  subst this
  rw [e.st.2]
  exact ⟨o', ho', hko, hrel⟩

theorem late_reset {w : FWorld} {id : Nat} {kind : FKind} {base : State} (hk : IsRew kind) (h : Late id kind base w) :
    Late id kind (init w.cfg.I) w.reset := by
  obtain ⟨o, ho, hko, _⟩ := h.obs
  obtain ⟨t, ht⟩ := (reset_keeps w).2.1
  refine ⟨by rw [ht]; exact List.mem_append_left _ h.mem, ?_⟩
  unfold FWorld.reset
  obtain ⟨e, hr⟩ := RewW.pk_fold_callReset w.subs { w with s := JS.init w.cfg.I }
  generalize w.subs.foldl (fun w id => w.callReset id) { w with s := JS.init w.cfg.I } = W at e hr
  have hs : W.s = init w.cfg.I := e.st.2
  obtain ⟨o', ho', hk', _⟩ := e.old id o ho
  have hfr := hr id h.mem o' ho' (by rw [hk', hko]; exact hk)
  rw [hs] at hfr ⊢
  exact ⟨o', ho', hk'.trans hko, relOK_fresh _ _ hfr⟩

theorem late_dispatch {w : FWorld} (hv : Valid w.cfg.I) (hb : BaseInv w.cfg w) {id : Nat} {kind : FKind} {base : State}
    (hk : IsRew kind) (h : Late id kind base w) (j p : Nat) (m : Option Int) : Late id kind base (w.dispatch j p m).1 := by
  obtain ⟨o, ho, hko, hrel⟩ := h.obs
  unfold FWorld.dispatch
  cases hdr : dispatchReq w.cfg.I w.s j p m with
  | error e => exact h
  | ok s' =>
    simp only
    obtain ⟨mm, op, hop, _, hdd⟩ := dispatchReq_ok hdr
    obtain ⟨op', hsp⟩ := dispatch_ok hdd
    have hop' := hsp.hop
    rw [hop] at hop'; cases hop'
    obtain ⟨evs, hevs⟩ := hb.reach
    have hi : Inv w.cfg w.s := by rw [hevs]; exact inv_run hv evs
    have hc : CInv w.cfg.I w.s := hi.cinv
    have hvop := hv j p op hop
    have hfind := find_new_entry hc hvop.2.2 hsp
    rw [hfind]
    simp only
    have hx : newEntry w.s j p mm op ∈ s'.sched.flatten := List.mem_of_find?_eq_some hfind
    obtain ⟨f1, f2, _, _, _, f6⟩ :=
      fold_callUpdate_at (newEntry w.s j p mm op) w.subs { w with s := s' } hb.subs.nodup
    show Late id kind base (w.subs.foldl (fun (W : FWorld) i => W.callUpdate (newEntry w.s j p mm op) i) { w with s := s' })
    generalize w.subs.foldl (fun (W : FWorld) i => W.callUpdate (newEntry w.s j p mm op) i) { w with s := s' } = W
      at f1 f2 f6
    obtain ⟨hp, hhp⟩ := f6 id h.mem o ho
    obtain ⟨r1, r2⟩ := relOK_upd hv hi hdr hdd hx hp base o hrel (by rw [hko]; exact hk)
    refine ⟨by rw [f1]; exact h.mem, _, hhp, r2.trans hko, ?_⟩
    rw [f2]; exact r1

/-- every event preserves the invariant; a reset makes the fresh state the new base -/
theorem late_step {c : Cfg} (hv : Valid c.I) {w : FWorld} (hb : BaseInv c w) {id : Nat} {kind : FKind} {base : State}
    (hk : IsRew kind) (h : Late id kind base w) (ev : FEv) :
    Late id kind (if ev == .reset then init c.I else base) (w.step ev) := by
  have hcfg := hb.cfg
  subst hcfg
  cases ev with
  | disp j p m =>
    have hne : (FEv.disp j p m == FEv.reset) = false := by simp
    rw [hne]
    exact late_dispatch hv hb hk h j p m
  | reset =>
    have he : (FEv.reset == FEv.reset) = true := by simp
    rw [he]
    exact late_reset hk h
  | construct k fts =>
    have hne : (FEv.construct k fts == FEv.reset) = false := by simp
    rw [hne]
    exact late_frame hk (uk_construct w k fts) (good_construct w k fts) h
  | composite parts =>
    have hne : (FEv.composite parts == FEv.reset) = false := by simp
    rw [hne]
    exact late_frame hk (uk_constructComposite w parts) (good_constructComposite w parts) h
  | residual b rm rj =>
    have hne : (FEv.residual b rm rj == FEv.reset) = false := by simp
    rw [hne]
    exact late_frame hk (uk_constructResidual w _ rm rj) (good_constructResidual w _ rm rj) h

theorem rewardBase_cons (c : Cfg) (s0 : State) (e : FEv) (t : List FEv) :
    rewardBase c s0 (e :: t) = rewardBase c (if e == .reset then init c.I else s0) t := by
  unfold rewardBase
  simp only [List.any_cons]
  by_cases he : (e == FEv.reset) = true <;> simp [he]

theorem late_foldl {c : Cfg} (hv : Valid c.I) {id : Nat} {kind : FKind} (hk : IsRew kind) :
    ∀ (post : List FEv) (w : FWorld) (base : State), BaseInv c w → Late id kind base w →
      Late id kind (rewardBase c base post) (post.foldl FWorld.step w)
  | [], w, base, _, h => by simpa [rewardBase] using h
  | e :: t, w, base, hb, h => by
    simp only [List.foldl_cons]
    rw [rewardBase_cons]
    exact late_foldl hv hk t _ _ (baseInv_step hb e) (late_step hv hb hk h e)

end LateRew

theorem numScheduled_init (I : Instance) : numScheduled (init I) = 0 := RewW.numScheduled_init I

/-- **C13 for a reward observer constructed at any time.**  A makespan-reward or idle-time-reward observer constructed after
any history `pre` (dispatch requests, resets, constructions of other observers), followed by any history `post`: it stays
subscribed, every reward is non-positive, there is one reward per accepted dispatch since the construction (since the last reset,
once there was one), and the rewards add up to the decrease of minus the makespan / minus the total idle time since then. -/
theorem C13_late_reward (c : Cfg) (hv : Valid c.I) (pre post : List FEv)
    (kind : FKind) (hk : kind = .makespanReward ∨ kind = .idleReward)
    (w1 : FWorld) (id : Nat) (hc : (FWorld.run c pre).construct kind none = (w1, some id)) :
    let w := post.foldl FWorld.step w1
    let base := rewardBase c (FWorld.run c pre).s post
    id ∈ w.subs ∧ ∃ o, w.heap[id]? = some o ∧ o.kind = kind ∧
      (∀ r ∈ o.rewards, r ≤ 0) ∧
      o.rewards.length + numScheduled base = numScheduled w.s ∧
      (kind = .makespanReward → o.rewards.sum = makespan base - makespan w.s ∧ o.curMakespan = makespan w.s) ∧
      (kind = .idleReward → o.rewards.sum = idleTotal base - idleTotal w.s) := by
  intro w base
  have hb0 : LateRew.BaseInv c (FWorld.run c pre) := LateRew.baseInv_foldl pre _ (LateRew.baseInv_init c)
  have hb1 : LateRew.BaseInv c w1 := by
    have := LateRew.baseInv_step hb0 (.construct kind none)
    simp only [FWorld.step] at this
    rw [hc] at this
    exact this
  have hl1 : LateRew.Late id kind (FWorld.run c pre).s w1 := LateRew.late_construct hk hc
  have hl := LateRew.late_foldl hv hk post w1 _ hb1 hl1
  obtain ⟨o, ho, hko, hrel⟩ := hl.obs
  exact ⟨hl.mem, o, ho, hko, hrel.neg, hrel.len, fun h => hrel.mksp (hko.trans h), fun h => hrel.idle (hko.trans h)⟩

/-- constructed on a dispatcher that was just reset (or is fresh) - what `env.reward_function = …` right after `env.reset()`
amounts to - the sums are the absolute ones of the property -/
theorem C13_swapped_reward (c : Cfg) (hv : Valid c.I) (pre post : List FEv)
    (kind : FKind) (hk : kind = .makespanReward ∨ kind = .idleReward)
    (hfresh : (FWorld.run c pre).s = init c.I)
    (w1 : FWorld) (id : Nat) (hc : (FWorld.run c pre).construct kind none = (w1, some id)) :
    let w := post.foldl FWorld.step w1
    ∃ o, w.heap[id]? = some o ∧ (∀ r ∈ o.rewards, r ≤ 0) ∧ o.rewards.length = numScheduled w.s ∧
      (kind = .makespanReward → o.rewards.sum = - makespan w.s) ∧ (kind = .idleReward → o.rewards.sum = - idleTotal w.s) := by
  dsimp only
  obtain ⟨_, o, ho, _, h1, h2, h3, h4⟩ := C13_late_reward c hv pre post kind hk w1 id hc
  have hbase : rewardBase c (FWorld.run c pre).s post = init c.I := by
    unfold rewardBase
    rw [hfresh]
    split <;> rfl
  rw [hbase] at h2 h3 h4
  rw [numScheduled_init] at h2
  rw [makespan_init] at h3
  rw [idleTotal_init] at h4
  refine ⟨o, ho, h1, by simpa using h2, fun h => ?_, fun h => ?_⟩
  · have := (h3 h).1; omega
  · have := h4 h; omega

/-! non-vacuity: two dispatches (machine 1 idle until time 3), THEN an idle-time reward observer is constructed (total idle time 3,
makespan 5 at that moment) and, as first event afterwards, a makespan reward observer; more dispatches (one rejected, two leaving
gaps), another feature observer constructed in between: the rewards add up to `3 - 10` resp. `5 - 10`, three rewards for `5 - 2`
accepted dispatches -/
set_option maxRecDepth 100000 in
example :
    let c : Cfg := { I := c11Instance }
    let pre : List FEv := [.construct .isCompleted none, .disp 0 0 (some 0), .disp 0 1 none]
    let post : List FEv := [.construct .makespanReward none, .disp 1 0 none, .disp 1 0 none, .construct .duration none,
      .disp 1 1 none, .disp 1 2 none]
    let w0 := FWorld.run c pre
    let r := w0.construct .idleReward none
    let w := post.foldl FWorld.step r.1
    r.2 = some 3 ∧ idleTotal w0.s = 3 ∧ makespan w0.s = 5 ∧ numScheduled w0.s = 2 ∧ rewardBase c w0.s post = w0.s ∧
    3 ∈ w.subs ∧ 4 ∈ w.subs ∧
    (w.heap[3]?.map fun o => (o.kind, o.rewards)) = some (.idleReward, [0, -6, -1]) ∧
    (w.heap[4]?.map fun o => (o.kind, o.rewards, o.curMakespan)) = some (.makespanReward, [-4, -1, 0], 10) ∧
    idleTotal w.s = 10 ∧ makespan w.s = 10 ∧ numScheduled w.s = 5 := by decide

/-! the same construction, with a reset afterwards: the sums are the absolute ones again -/
set_option maxRecDepth 100000 in
example :
    let c : Cfg := { I := c11Instance }
    let pre : List FEv := [.construct .isCompleted none, .disp 0 0 (some 0), .disp 0 1 none]
    let post : List FEv := [.construct .makespanReward none, .disp 1 0 none, .reset, .disp 1 0 none, .disp 1 1 none,
      .disp 0 0 (some 1)]
    let w0 := FWorld.run c pre
    let r := w0.construct .idleReward none
    let w := post.foldl FWorld.step r.1
    r.2 = some 3 ∧ idleTotal w0.s = 3 ∧ rewardBase c w0.s post = init c.I ∧ 3 ∈ w.subs ∧ 4 ∈ w.subs ∧
    (w.heap[3]?.map fun o => (o.kind, o.rewards)) = some (.idleReward, [0, -4, 0]) ∧
    (w.heap[4]?.map fun o => (o.kind, o.rewards, o.curMakespan)) = some (.makespanReward, [-4, -1, -2], 7) ∧
    idleTotal w.s = 4 ∧ makespan w.s = 7 ∧ numScheduled w.s = 3 := by decide

end JS

/-
One notification round of the dispatcher (`Dispatcher._update_tracking_attributes` / `Dispatcher.reset`) in which observers may
change the subscriber list from inside their callbacks.

Before the repair the loop `for subscriber in self.subscribers: subscriber.update(op)` walked the LIVE list (an index loop over the
current contents), while `unsubscribe` removed in place; after the repair `subscribe` / `unsubscribe` build a NEW list, so the loop
walks the list object it started with (a snapshot).  `liveRound` models the former, `snapRound` the latter.
-/

namespace JS.Notify

abbrev Id := Nat

/-- what an observer does to the subscriber list when it is called: a function of its own id and the current list (it may remove
itself, remove or add others) -/
abbrev Callback := Id → List Id → List Id

/-- the repaired loop: the snapshot taken at the start is walked; callbacks act on the current list -/
def snapRound (cb : Callback) : List Id → List Id → List Id × List Id
  | [], cur => ([], cur)
  | o :: rest, cur =>
    let cur' := cb o cur
    let (ns, fin) := snapRound cb rest cur'
    (o :: ns, fin)

/-- the old loop: index-based over the live list (fuel = an upper bound on the number of iterations) -/
def liveRound (cb : Callback) : Nat → Nat → List Id → List Id × List Id
  | 0, _, cur => ([], cur)
  | fuel + 1, i, cur =>
    match cur[i]? with
    | none => ([], cur)
    | some o =>
      let cur' := cb o cur
      let (ns, fin) := liveRound cb fuel (i + 1) cur'
      (o :: ns, fin)

/-- the callback of a one-shot observer `k`: it removes itself; everybody else leaves the list alone -/
def oneShot (k : Id) : Callback := fun o cur => if o = k then cur.erase k else cur

/-! ### unfolding lemmas -/

theorem snapRound_nil (cb : Callback) (cur : List Id) : snapRound cb [] cur = ([], cur) := rfl

theorem snapRound_cons (cb : Callback) (o : Id) (rest cur : List Id) :
    snapRound cb (o :: rest) cur = (o :: (snapRound cb rest (cb o cur)).1, (snapRound cb rest (cb o cur)).2) := rfl

theorem liveRound_zero (cb : Callback) (i : Nat) (cur : List Id) : liveRound cb 0 i cur = ([], cur) := rfl

theorem liveRound_none (cb : Callback) (fuel i : Nat) (cur : List Id) (h : cur[i]? = none) :
    liveRound cb (fuel + 1) i cur = ([], cur) := by
  simp only [liveRound, h]

theorem liveRound_some (cb : Callback) (fuel i : Nat) (cur : List Id) (o : Id) (h : cur[i]? = some o) :
    liveRound cb (fuel + 1) i cur
      = (o :: (liveRound cb fuel (i + 1) (cb o cur)).1, (liveRound cb fuel (i + 1) (cb o cur)).2) := by
  simp only [liveRound, h]

/-! ### the repaired loop -/

/-- (1) repaired semantics: whatever the callbacks do to the list, exactly the subscribers present at the start are notified, each
once, in subscription order -/
theorem C10_snapRound_notifies_snapshot (cb : Callback) (subs cur : List Id) : (snapRound cb subs cur).1 = subs := by
  induction subs generalizing cur with
  | nil => rfl
  | cons o rest ih => simp only [snapRound_cons, ih]

/-- (2) … and the final list is the callbacks' doing alone (the fold of the callbacks over the snapshot) -/
theorem C10_snapRound_final (cb : Callback) (subs cur : List Id) :
    (snapRound cb subs cur).2 = subs.foldl (fun l o => cb o l) cur := by
  induction subs generalizing cur with
  | nil => rfl
  | cons o rest ih => simp only [snapRound_cons, ih, List.foldl_cons]

/-! ### the old loop while nothing changes -/

/-- as long as no callback of a subscriber still to be visited changes the list, the old loop walks the rest of the list -/
theorem liveRound_stable (cb : Callback) (fuel i : Nat) (cur : List Id)
    (hq : ∀ o, o ∈ cur.drop i → cb o cur = cur) (hf : cur.length < fuel + i) :
    liveRound cb fuel i cur = (cur.drop i, cur) := by
  induction fuel generalizing i with
  | zero =>
    have : cur.drop i = [] := List.drop_eq_nil_of_le (by omega)
    simp only [liveRound_zero, this]
  | succ fuel ih =>
    by_cases hi : i < cur.length
    · have hget : cur[i]? = some cur[i] := List.getElem?_eq_getElem hi
      have hdrop : cur.drop i = cur[i] :: cur.drop (i + 1) := List.drop_eq_getElem_cons hi
      have hcb : cb cur[i] cur = cur := hq _ (by rw [hdrop]; exact List.mem_cons_self)
      have hq' : ∀ o, o ∈ cur.drop (i + 1) → cb o cur = cur := by
        intro o ho
        exact hq o (by rw [hdrop]; exact List.mem_cons_of_mem _ ho)
      rw [liveRound_some cb fuel i cur _ hget, hcb, ih (i + 1) hq' (by omega), hdrop]
    · have hget : cur[i]? = none := List.getElem?_eq_none (by omega)
      have : cur.drop i = [] := List.drop_eq_nil_of_le (by omega)
      rw [liveRound_none cb fuel i cur hget, this]

/-- (3) when no callback touches the list, the old loop does the same as the repaired one (the two semantics differ only under
re-entrant changes) -/
theorem C10_liveRound_quiet (subs : List Id) : liveRound (fun _ l => l) (subs.length + 1) 0 subs = (subs, subs) := by
  have h := liveRound_stable (fun _ l => l) (subs.length + 1) 0 subs (fun _ _ => rfl) (by omega)
  simpa using h

/-! ### the old loop with a one-shot observer -/

theorem oneShot_ne (k o : Id) (cur : List Id) (h : o ≠ k) : oneShot k o cur = cur := by
  simp only [oneShot, if_neg h]

theorem oneShot_self (k : Id) (cur : List Id) : oneShot k k cur = cur.erase k := by
  simp only [oneShot, if_true]

/-- once `k` has left, the old loop simply walks the rest -/
theorem liveRound_oneShot_after (k : Id) (fuel i : Nat) (cur : List Id) (hk : k ∉ cur) (hf : cur.length < fuel + i) :
    liveRound (oneShot k) fuel i cur = (cur.drop i, cur) := by
  apply liveRound_stable _ _ _ _ _ hf
  intro o ho
  apply oneShot_ne
  intro h
  exact hk (h ▸ List.mem_of_mem_drop ho)

theorem erase_mid (pre : List Id) (k : Id) (rest : List Id) (hk : k ∉ pre) :
    (pre ++ k :: rest).erase k = pre ++ rest := by
  rw [List.erase_append_right _ hk, List.erase_cons_head]

/-- the old loop from any position up to the one-shot observer `k`: the subscribers before `k` and `k` itself are notified, then
`k` leaves, the index moves on past the subscriber that has just slid into `k`'s place, and the rest `post` is notified -/
theorem liveRound_oneShot_upto (pre : List Id) (k nxt : Id) (post : List Id) (hnd : (pre ++ k :: nxt :: post).Nodup)
    (fuel i : Nat) (hi : i ≤ pre.length) (hf : (pre ++ k :: nxt :: post).length < fuel + i) :
    liveRound (oneShot k) fuel i (pre ++ k :: nxt :: post) = (pre.drop i ++ k :: post, pre ++ nxt :: post) := by
  have hkpre : k ∉ pre := by
    intro h
    have := (List.nodup_append.1 hnd).2.2 k h k List.mem_cons_self
    exact this rfl
  have hktail : k ∉ nxt :: post := by
    have := (List.nodup_append.1 hnd).2.1
    exact (List.nodup_cons.1 this).1
  induction fuel generalizing i with
  | zero => simp only [List.length_append, List.length_cons] at hf; omega
  | succ fuel ih =>
    by_cases hlt : i < pre.length
    · have hget : (pre ++ k :: nxt :: post)[i]? = some pre[i] := by
        rw [List.getElem?_append_left hlt, List.getElem?_eq_getElem hlt]
      have hne : pre[i] ≠ k := fun h => hkpre (h ▸ List.getElem_mem hlt)
      have hdrop : pre.drop i = pre[i] :: pre.drop (i + 1) := List.drop_eq_getElem_cons hlt
      rw [liveRound_some _ fuel i _ _ hget, oneShot_ne k _ _ hne, ih (i + 1) (by omega) (by omega), hdrop]
      rfl
    · have hieq : i = pre.length := by omega
      subst hieq
      have hget : (pre ++ k :: nxt :: post)[pre.length]? = some k := by
        rw [List.getElem?_append_right (Nat.le_refl _)]
        simp
      have hk' : k ∉ pre ++ nxt :: post := by
        intro h
        rcases List.mem_append.1 h with h | h
        · exact hkpre h
        · exact hktail h
      have hlen : (pre ++ nxt :: post).length < fuel + (pre.length + 1) := by
        simp only [List.length_append, List.length_cons] at hf ⊢
        omega
      have hdrop : (pre ++ nxt :: post).drop (pre.length + 1) = post := by
        rw [List.drop_append]
        simp
      rw [liveRound_some _ fuel _ _ _ hget, oneShot_self, erase_mid pre k _ hkpre,
        liveRound_oneShot_after k fuel _ _ hk' hlen, hdrop]
      simp

/-- (4) the defect: under the old loop a one-shot observer makes the NEXT subscriber miss the notification - for EVERY
duplicate-free list with the one-shot observer `k` somewhere before the end, the subscriber right after `k` is not notified although
it stays subscribed -/
theorem C10_liveRound_skips_next (pre : List Id) (k nxt : Id) (post : List Id) (hnd : (pre ++ k :: nxt :: post).Nodup) :
    let subs := pre ++ k :: nxt :: post
    nxt ∉ (liveRound (oneShot k) (subs.length + 1) 0 subs).1 ∧ nxt ∈ (liveRound (oneShot k) (subs.length + 1) 0 subs).2 := by
  intro subs
  have hsubs : subs = pre ++ k :: nxt :: post := rfl
  have h := liveRound_oneShot_upto pre k nxt post hnd (subs.length + 1) 0 (Nat.zero_le _) (by rw [hsubs]; omega)
  rw [hsubs] at h ⊢
  rw [h]
  have hnpre : nxt ∉ pre := by
    intro hm
    have := (List.nodup_append.1 hnd).2.2 nxt hm nxt (List.mem_cons_of_mem _ List.mem_cons_self)
    exact this rfl
  have htail := (List.nodup_append.1 hnd).2.1
  have hnk : nxt ≠ k := by
    intro e
    exact (List.nodup_cons.1 htail).1 (e ▸ List.mem_cons_self)
  have hnpost : nxt ∉ post := (List.nodup_cons.1 (List.nodup_cons.1 htail).2).1
  refine ⟨?_, ?_⟩
  · simp only [List.drop_zero, List.mem_append, List.mem_cons, not_or]
    exact ⟨hnpre, hnk, hnpost⟩
  · simp only [List.mem_append, List.mem_cons, true_or, or_true]

/-- the exact outcome of the old round with a one-shot observer: everybody but `nxt` is notified -/
theorem liveRound_oneShot_eq (pre : List Id) (k nxt : Id) (post : List Id) (hnd : (pre ++ k :: nxt :: post).Nodup) :
    liveRound (oneShot k) ((pre ++ k :: nxt :: post).length + 1) 0 (pre ++ k :: nxt :: post)
      = (pre ++ k :: post, pre ++ nxt :: post) := by
  have h := liveRound_oneShot_upto pre k nxt post hnd ((pre ++ k :: nxt :: post).length + 1) 0 (Nat.zero_le _) (by omega)
  simpa using h

/-! ### the repaired loop with a one-shot observer -/

theorem foldl_oneShot_not_mem (k : Id) (l cur : List Id) (hk : k ∉ l) :
    l.foldl (fun c o => oneShot k o c) cur = cur := by
  induction l generalizing cur with
  | nil => rfl
  | cons o rest ih =>
    have ho : o ≠ k := fun e => hk (e ▸ List.mem_cons_self)
    have hr : k ∉ rest := fun h => hk (List.mem_cons_of_mem _ h)
    rw [List.foldl_cons, oneShot_ne k o cur ho, ih cur hr]

theorem foldl_oneShot_mem (k : Id) (l cur : List Id) (hk : k ∈ l) (hnd : l.Nodup) :
    l.foldl (fun c o => oneShot k o c) cur = cur.erase k := by
  induction l generalizing cur with
  | nil => exact absurd hk List.not_mem_nil
  | cons o rest ih =>
    have hnd' := List.nodup_cons.1 hnd
    by_cases ho : o = k
    · subst ho
      rw [List.foldl_cons, oneShot_self, foldl_oneShot_not_mem o rest _ hnd'.1]
    · have hr : k ∈ rest := by
        rcases List.mem_cons.1 hk with e | h
        · exact absurd e.symm ho
        · exact h
      rw [List.foldl_cons, oneShot_ne k o cur ho, ih cur hr hnd'.2]

/-- (5) under the repaired loop the same observer harms nobody: everybody is notified, and only `k` has left -/
theorem C10_snapRound_oneShot (subs : List Id) (k : Id) (hk : k ∈ subs) (hnd : subs.Nodup) :
    (snapRound (oneShot k) subs subs).1 = subs ∧ (snapRound (oneShot k) subs subs).2 = subs.erase k := by
  refine ⟨C10_snapRound_notifies_snapshot _ _ _, ?_⟩
  rw [C10_snapRound_final]
  exact foldl_oneShot_mem k subs subs hk hnd

/-! ### the concrete episode of the finding -/

example : (liveRound (oneShot 7) 10 0 [7, 1, 2]).1 = [7, 2] := by decide
example : (liveRound (oneShot 7) 10 0 [7, 1, 2]).2 = [1, 2] := by decide
example : (snapRound (oneShot 7) [7, 1, 2] [7, 1, 2]).1 = [7, 1, 2] := by decide
example : (snapRound (oneShot 7) [7, 1, 2] [7, 1, 2]).2 = [1, 2] := by decide

end JS.Notify

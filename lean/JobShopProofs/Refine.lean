import JobShopModel.Events
import JobShopProofs.Abstract.Inv
/-!
# Refinement: the concrete list-based dispatcher state vs. the abstract functional state

`Rel s a` relates a concrete `State` (what the Python objects hold) with an abstract `AState`:
tracking vectors agree pointwise (through `getD`) and the abstract schedule is a permutation of the
flattened per-machine lists.  `rel_dispatch`: an accepted concrete `dispatch` is exactly the abstract
step `dispA`.
-/
namespace JS

/-- validity of an instance: the only instances the properties speak about -/
def Valid (I : Instance) : Prop :=
  ∀ j p op, getOp I j p = some op → op.machines ≠ [] ∧ op.machines.Nodup ∧ 0 ≤ op.dur

/-- the executable check `validB` (printed by the driver for every instance of the correspondence run)
implies `Valid` -/
theorem valid_of_validB {I : Instance} (h : validB I = true) : Valid I := by
  intro j p op hop
  unfold getOp at hop
  cases hj : I[j]? with
  | none => simp [hj] at hop
  | some job =>
    simp only [hj, Option.bind_some] at hop
    have hjob : job ∈ I := List.mem_of_getElem? hj
    have hopm : op ∈ job := List.mem_of_getElem? hop
    simp only [validB, List.all_eq_true] at h
    have := h job hjob op hopm
    simp only [validOp, Bool.and_eq_true, Bool.not_eq_true', decide_eq_true_eq] at this
    refine ⟨?_, this.1.2, this.2⟩
    intro he; simp [he] at this

structure WF (I : Instance) (s : State) : Prop where
  lenS : s.sched.length = numMachines I
  lenM : s.machNext.length = numMachines I
  lenI : s.jobIdx.length = I.length
  lenN : s.jobNext.length = I.length

theorem foldl_max_ge {α} (f : α → Nat) : ∀ (l : List α) (a : Nat), a ≤ l.foldl (fun b x => max b (f x)) a
  | [], a => by simp
  | x :: t, a => by
    simp only [List.foldl_cons]
    have := foldl_max_ge f t (max a (f x)); omega

theorem foldl_max_mem {α} (f : α → Nat) : ∀ (l : List α) (a : Nat) (x : α), x ∈ l →
    f x ≤ l.foldl (fun b x => max b (f x)) a
  | [], _, _, h => by simp at h
  | y :: t, a, x, h => by
    simp only [List.foldl_cons]
    rcases List.mem_cons.1 h with rfl | h
    · have := foldl_max_ge f t (max a (f x)); omega
    · exact foldl_max_mem f t _ x h

/-- every machine id of the instance is below `num_machines` -/
theorem machine_lt (I : Instance) (j p m : Nat) (op : Op) (hop : getOp I j p = some op) (hm : m ∈ op.machines) :
    m < numMachines I := by
  unfold getOp at hop
  cases hj : I[j]? with
  | none => simp [hj] at hop
  | some job =>
    simp [hj] at hop
    have hjob : job ∈ I := List.mem_of_getElem? hj
    have hopm : op ∈ job := List.mem_of_getElem? hop
    have h1 : m + 1 ≤ opMax op := foldl_max_mem (fun m => m + 1) op.machines 0 m hm
    have h2 : opMax op ≤ jobMax job := foldl_max_mem opMax job 0 op hopm
    have h3 : jobMax job ≤ numMachines I := foldl_max_mem jobMax I 0 job hjob
    omega

theorem wf_init (I : Instance) : WF I (init I) := by constructor <;> simp [init]

theorem getD_set_eq {α} (l : List α) (i : Nat) (a d : α) (h : i < l.length) (k : Nat) :
    (l.set i a).getD k d = if k = i then a else l.getD k d := by
  simp only [List.getD_eq_getElem?_getD, List.getElem?_set]
  by_cases hk : k = i
  · subst hk; simp [h]
  · have : ¬ i = k := fun h => hk h.symm
    simp [hk, this]

theorem getD_modify_eq {α} (l : List α) (f : α → α) (i : Nat) (d : α) (h : i < l.length) (k : Nat) :
    (l.modify i f).getD k d = if k = i then f (l.getD i d) else l.getD k d := by
  simp only [List.getD_eq_getElem?_getD, List.getElem?_modify]
  by_cases hk : k = i
  · subst hk; simp [h]
  · have : ¬ i = k := fun h => hk h.symm
    simp [hk, this]

/-- appending to the `m`-th inner list appends to the flattening, up to permutation -/
theorem flatten_modify_perm {α} : ∀ (l : List (List α)) (m : Nat) (a : α), m < l.length →
    (l.modify m (· ++ [a])).flatten.Perm (l.flatten ++ [a])
  | [], _, _, h => by simp at h
  | x :: t, 0, a, _ => by
    simp only [List.modify_zero_cons, List.flatten_cons]
    -- (x ++ [a]) ++ t.flatten ~ (x ++ t.flatten) ++ [a]
    rw [List.append_assoc, List.append_assoc]
    exact List.Perm.append_left x List.perm_append_comm
  | x :: t, m+1, a, h => by
    simp only [List.modify_succ_cons, List.flatten_cons, List.append_assoc]
    exact List.Perm.append_left x (flatten_modify_perm t m a (by simpa using h))

/-- concrete state ↔ abstract state -/
structure Rel (s : State) (a : AState) : Prop where
  idx : ∀ j, a.idx j = s.jobIdx.getD j 0
  mN : ∀ m, a.mN m = s.machNext.getD m 0
  jN : ∀ j, a.jN j = s.jobNext.getD j 0
  sched : a.sched.Perm s.sched.flatten

theorem rel_init (I : Instance) : Rel (init I) ainit := by
  constructor <;> intros <;> simp [init, ainit, List.getD_eq_getElem?_getD, List.getElem?_replicate]
  all_goals (split <;> rfl)

theorem rel_startTime {s : State} {a : AState} (h : Rel s a) (j m : Nat) : startTime s j m = startA a j m := by
  simp [startTime, startA, h.mN, h.jN]

/-- everything an accepted concrete dispatch tells us -/
structure DispSpec (I : Instance) (s s' : State) (j p m : Nat) (op : Op) : Prop where
  hop : getOp I j p = some op
  hidx : s.jobIdx.getD j 0 = p
  hm : m ∈ op.machines
  addok : addOk (s.sched.getD m []) ⟨j, p, m, startTime s j m, op.dur⟩ = true
  eq : s' = { sched := s.sched.modify m (· ++ [⟨j, p, m, startTime s j m, op.dur⟩]),
              machNext := s.machNext.set m (startTime s j m + op.dur),
              jobIdx := s.jobIdx.set j (p+1),
              jobNext := s.jobNext.set j (startTime s j m + op.dur),
              cache := {} }

theorem dispatch_ok {I : Instance} {s s' : State} {j p m : Nat} (hd : dispatch I s j p m = .ok s') :
    ∃ op, DispSpec I s s' j p m op := by
  unfold dispatch at hd
  split at hd
  · cases hd
  · rename_i op hop
    split at hd
    · cases hd
    · rename_i hidx
      split at hd
      · cases hd
      · rename_i hm
        simp only at hd
        split at hd
        · cases hd
        · rename_i hadd
          simp only [Decidable.not_not] at hidx hm
          simp only [Bool.not_eq_true, Bool.not_eq_false'] at hadd
          refine ⟨op, hop, hidx, hm, ?_, ?_⟩
          · simpa using hadd
          · cases hd; simp [SOp.end_]

theorem getOp_job_lt' (I : Instance) (j p : Nat) (op : Op) (h : getOp I j p = some op) : j < I.length := by
  unfold getOp at h
  cases hj : I[j]? with
  | none => simp [hj] at h
  | some job => exact (List.getElem?_eq_some_iff.1 hj).1

/-- The concrete dispatch refines the abstract one. -/
theorem rel_dispatch {I : Instance} {s s' : State} {a : AState} {j p m : Nat} {op : Op}
    (hwf : WF I s) (hr : Rel s a) (hd : DispSpec I s s' j p m op) :
    WF I s' ∧ Rel s' (dispA a j p m op) := by
  have hj : j < I.length := getOp_job_lt' I j p op hd.hop
  have hmlt := machine_lt I j p m op hd.hop hd.hm
  have hst := rel_startTime hr j m
  rw [hd.eq]
  refine ⟨?_, ?_⟩
  · constructor <;> simp [hwf.lenS, hwf.lenM, hwf.lenI, hwf.lenN]
  · constructor
    · intro k
      simp only [dispA, upd]
      rw [getD_set_eq _ _ _ _ (by rw [hwf.lenI]; exact hj), hr.idx]
    · intro k
      simp only [dispA, upd, SOp.end_]
      rw [getD_set_eq _ _ _ _ (by rw [hwf.lenM]; exact hmlt), hr.mN, hst]
    · intro k
      simp only [dispA, upd, SOp.end_]
      rw [getD_set_eq _ _ _ _ (by rw [hwf.lenN]; exact hj), hr.jN, hst]
    · simp only [dispA]
      rw [← hst]
      exact (List.Perm.append_right _ hr.sched).trans
        (flatten_modify_perm _ _ _ (by rw [hwf.lenS]; exact hmlt)).symm

end JS

import JobShopProofs.Refine
/-!
# The reachable-state invariant of the dispatcher

`AInv`/`AInv2` are permutation-invariant facts about the abstract state; `CInv` adds what is specific
to the per-machine lists of the concrete state (each list holds its own machine's operations, in time
order, and the machine's next-available time is the end of its last operation).  `cinv_dispatch`:
preserved by every accepted dispatch; `dispatch_accepts`: a ready operation on an eligible machine is
always accepted (the `Schedule.add` check never fires).
-/
namespace JS

structure AInv2 (I : Instance) (a : AState) : Prop where
  elig : ∀ x ∈ a.sched, ∀ op, getOp I x.job x.pos = some op → x.machine ∈ op.machines
  start_nonneg : ∀ x ∈ a.sched, 0 ≤ x.start
  dur_nonneg : ∀ x ∈ a.sched, 0 ≤ x.dur
  jN_ge : ∀ x ∈ a.sched, x.end_ ≤ a.jN x.job
  keys_nodup : (a.sched.map fun x => (x.job, x.pos)).Nodup
  idx_count : ∀ j, (a.sched.filter fun x => x.job == j).length = a.idx j
  jobOrder : ∀ x ∈ a.sched, ∀ y ∈ a.sched, x.job = y.job → x.pos < y.pos → x.end_ ≤ y.start

theorem ainv2_init (I : Instance) : AInv2 I ainit := by
  constructor <;> simp [ainit]

theorem ainv2_step (I : Instance) (s : AState) (hinv : AInv I s) (h2 : AInv2 I s) (j p m : Nat) (op : Op)
    (hr : Ready I s j p) (hop : getOp I j p = some op) (hd : 0 ≤ op.dur) (hm : m ∈ op.machines) :
    AInv2 I (dispA s j p m op) := by
  have hidx : s.idx j = p := hr.1
  have hjn := hinv.jN_nonneg j
  have hmn := hinv.mN_nonneg m
  have hsj := startA_ge_jN s j m
  have hsm := startA_ge_mN s j m
  constructor
  · intro x hx op' hop'
    simp only [dispA, List.mem_append, List.mem_singleton] at hx
    rcases hx with hx | rfl
    · exact h2.elig x hx op' hop'
    · simp only at hop'
      rw [hop] at hop'; cases hop'; exact hm
  · intro x hx
    simp only [dispA, List.mem_append, List.mem_singleton] at hx
    rcases hx with hx | rfl
    · exact h2.start_nonneg x hx
    · simp only; omega
  · intro x hx
    simp only [dispA, List.mem_append, List.mem_singleton] at hx
    rcases hx with hx | rfl
    · exact h2.dur_nonneg x hx
    · exact hd
  · intro x hx
    simp only [dispA, List.mem_append, List.mem_singleton] at hx ⊢
    rcases hx with hx | rfl
    · have := h2.jN_ge x hx
      by_cases hxj : x.job = j
      · simp [hxj, SOp.end_] at this ⊢; omega
      · rw [upd_other _ _ _ _ hxj]; exact this
    · simp
  · simp only [dispA, List.map_append, List.map_cons, List.map_nil]
    rw [List.nodup_append]
    refine ⟨h2.keys_nodup, by simp, ?_⟩
    intro a ha b hb
    simp only [List.mem_singleton] at hb
    subst hb
    intro hab
    simp only [List.mem_map] at ha
    obtain ⟨x, hx, hxa⟩ := ha
    have := hinv.sched_lt x hx
    rw [hab] at hxa
    simp only [Prod.mk.injEq] at hxa
    rw [hxa.1, hxa.2] at this
    omega
  · intro j'
    simp only [dispA, List.filter_append, List.length_append]
    by_cases hj : j' = j
    · subst hj
      simp [h2.idx_count, hidx]
    · have : ¬ j = j' := fun h => hj h.symm
      simp [h2.idx_count, upd_other _ _ _ _ hj, this]
  · intro x hx y hy hxy hlt
    simp only [dispA, List.mem_append, List.mem_singleton] at hx hy
    rcases hx with hx | rfl <;> rcases hy with hy | rfl
    · exact h2.jobOrder x hx y hy hxy hlt
    · have := h2.jN_ge x hx
      simp only at hxy
      rw [hxy] at this
      simp only; omega
    · have := hinv.sched_lt y hy
      simp only at hxy hlt
      rw [← hxy] at this; omega
    · simp at hlt

/-- the reachable-state invariant on the concrete state -/
structure CInv (I : Instance) (s : State) : Prop where
  wf : WF I s
  abs : ∃ a, Rel s a ∧ AInv I a ∧ AInv2 I a
  inList : ∀ m, ∀ x ∈ s.sched.getD m [], x.machine = m
  ordered : ∀ m, (s.sched.getD m []).Pairwise (fun a b => a.end_ ≤ b.start)
  lastEnd : ∀ m, s.machNext.getD m 0 = ((s.sched.getD m []).getLast?.map SOp.end_).getD 0

theorem getD_replicate_nil {α} (n k : Nat) : (List.replicate n ([] : List α)).getD k [] = [] := by
  simp only [List.getD_eq_getElem?_getD, List.getElem?_replicate]
  split <;> rfl

theorem cinv_init (I : Instance) : CInv I (init I) := by
  refine ⟨wf_init I, ⟨ainit, rel_init I, ainv_init I, ainv2_init I⟩, ?_, ?_, ?_⟩
  · intro m x hx; simp only [init, getD_replicate_nil] at hx; cases hx
  · intro m; simp only [init, getD_replicate_nil]; exact List.Pairwise.nil
  · intro m
    simp only [init, getD_replicate_nil]
    simp only [List.getD_eq_getElem?_getD, List.getElem?_replicate]
    split <;> rfl

theorem mem_getD_flatten {α} (l : List (List α)) (m : Nat) (x : α) (h : x ∈ l.getD m []) : x ∈ l.flatten := by
  simp only [List.getD_eq_getElem?_getD] at h
  cases hm : l[m]? with
  | none => simp [hm] at h
  | some ms =>
    simp [hm] at h
    exact List.mem_flatten.2 ⟨ms, List.mem_of_getElem? hm, h⟩

theorem cinv_dispatch {I : Instance} {s s' : State} {j p m : Nat} {op : Op} (hv : 0 ≤ op.dur)
    (hc : CInv I s) (hd : DispSpec I s s' j p m op) : CInv I s' := by
  obtain ⟨a, hr, ha, ha2⟩ := hc.abs
  have hready : Ready I a j p := ⟨by rw [hr.idx]; exact hd.hidx, by simp [hd.hop]⟩
  obtain ⟨hwf', hr'⟩ := rel_dispatch hc.wf hr hd
  have hmlt := machine_lt I j p m op hd.hop hd.hm
  have hlenS : m < s.sched.length := by rw [hc.wf.lenS]; exact hmlt
  have hlenM : m < s.machNext.length := by rw [hc.wf.lenM]; exact hmlt
  have hsched : ∀ k, s'.sched.getD k [] =
      if k = m then s.sched.getD m [] ++ [⟨j, p, m, startTime s j m, op.dur⟩] else s.sched.getD k [] := by
    intro k; rw [hd.eq]; exact getD_modify_eq _ _ _ _ hlenS k
  have hmn : ∀ k, s'.machNext.getD k 0 = if k = m then startTime s j m + op.dur else s.machNext.getD k 0 := by
    intro k; rw [hd.eq]; exact getD_set_eq _ _ _ _ hlenM k
  refine ⟨hwf', ⟨_, hr', ainv_step I a ha j p m op hready hd.hop hv,
    ainv2_step I a ha ha2 j p m op hready hd.hop hv hd.hm⟩, ?_, ?_, ?_⟩
  · intro k x hx
    rw [hsched] at hx
    by_cases hk : k = m
    · subst hk
      simp only [↓reduceIte, List.mem_append, List.mem_singleton] at hx
      rcases hx with hx | rfl
      · exact hc.inList k x hx
      · rfl
    · simp only [hk, ↓reduceIte] at hx; exact hc.inList k x hx
  · intro k
    rw [hsched]
    by_cases hk : k = m
    · subst hk
      simp only [↓reduceIte]
      rw [List.pairwise_append]
      refine ⟨hc.ordered k, by simp, ?_⟩
      intro x hx y hy
      simp only [List.mem_singleton] at hy
      subst hy
      have hxf : x ∈ a.sched := hr.sched.mem_iff.2 (mem_getD_flatten _ _ _ hx)
      have h1 := ha.mN_ge x hxf
      rw [hc.inList k x hx, hr.mN] at h1
      simp only [startTime]; omega
    · simp only [hk, ↓reduceIte]; exact hc.ordered k
  · intro k
    rw [hsched, hmn]
    by_cases hk : k = m
    · subst hk; simp [SOp.end_]
    · simp only [hk, ↓reduceIte]; exact hc.lastEnd k

/-- A ready operation on an eligible machine is always accepted: the `Schedule.add` check cannot fire. -/
theorem dispatch_accepts {I : Instance} {s : State} {j p m : Nat} {op : Op} (hc : CInv I s)
    (hop : getOp I j p = some op) (hidx : s.jobIdx.getD j 0 = p) (hm : m ∈ op.machines) :
    ∃ s', dispatch I s j p m = .ok s' := by
  have hadd : addOk (s.sched.getD m []) ⟨j, p, m, startTime s j m, op.dur⟩ = true := by
    unfold addOk
    have hl := hc.lastEnd m
    cases hlast : (s.sched.getD m []).getLast? with
    | none => rfl
    | some last =>
      simp only [hlast, Option.map_some, Option.getD_some] at hl
      have : last.end_ ≤ startTime s j m := by simp only [startTime]; omega
      simpa using this
  unfold dispatch
  simp only [hop, hidx, ne_eq, not_true_eq_false, ↓reduceIte, hm, hadd, Bool.not_true, Bool.false_eq_true]
  exact ⟨_, rfl⟩

end JS

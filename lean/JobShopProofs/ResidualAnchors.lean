import JobShopProofs.Properties.C17
import JobShopProofs.FeatureSpecs
import JobShopProofs.EdgeType
import JobShopProofs.EnvLemmas
/-!
# Residual graphs: anchors of the unscheduled operations

The clause of C17 "no unscheduled operation's node is ever removed" (and "a machine / job node is removed only when all its
operations are scheduled"), at the graph level.  An operation node cannot be swept as isolated while it keeps an edge to an
*anchor* — its job successor, the sink, a machine it may run on, its job — and no anchor of an unscheduled operation is removed
explicitly by the residual graph updater.

* `Anch I g r`: the node of `r` is in `g` and has an edge to one of its anchors.  Every builder gives every operation an anchor
  (`anch_build`); `remove_node` of a node that is neither the operation nor one of its anchors keeps `Anch` (`anch_removeNode`,
  `anch_removeIf`: an edge whose ends are not the removed node survives, and so do its ends, `RA.edgeAt_removeNode`); so does one
  update of the residual graph updater, for every unscheduled operation (`anch_residualUpdate`).
* `AnchM I g m r` / `AnchJ I g r`: the node of machine `m` / of `r`'s job is in `g` and has an edge to the node of `r`.  The agent-task
  builders establish them (`anchM_build`, `anchJ_build`) and one update of the residual graph updater keeps them while `r` is
  unscheduled (`anchM_residualUpdate`, `anchJ_residualUpdate`): a machine or job node is removed only when all its operations are
  scheduled.
* All three are instances of `RA.stable_residualUpdate`.  The hypothesis on the node list is "the first `num_operations` nodes are
  the operation nodes" (`RA.build_opnodes`, kept by every update: `RA.residualUpdate_opnodes`); the weaker "operation nodes sit at
  their operation id" does not suffice (`RA.weak_hnodes_counterexample`).
-/
namespace JS

/-- node kinds that anchor operation `r`: its job successor, the sink (if `r` is the last operation of its job), a
machine it may run on, its job -/
def AnchorOf (I : Instance) (r : OpRef) : NodeKind → Prop
  | .operation i => i = opId I (r.1, r.2 + 1) ∧ r.2 + 1 < (I.getD r.1 []).length
  | .sink => r.2 + 1 = (I.getD r.1 []).length
  | .machine m => onMachine I m r = true
  | .job j => j = r.1
  | _ => False

/-- operation `r`'s node is in the graph and has an edge to one of its anchors -/
def Anch (I : Instance) (g : Graph) (r : OpRef) : Prop :=
  g.present (opId I r) = true ∧ g.nodes.getD (opId I r) .global = .operation (opId I r) ∧
  ∃ e ∈ g.adj.getD (opId I r) [], AnchorOf I r (g.nodes.getD e.1 .global)

/-- the node of kind `k` (a machine node, a job node) is in the graph and has an edge to the node of operation `r` -/
def AnchK (I : Instance) (g : Graph) (k : NodeKind) (r : OpRef) : Prop :=
  g.present (nodeIdOf g k) = true ∧ ∃ e ∈ g.adj.getD (nodeIdOf g k) [], e.1 = opId I r

/-- machine `m`'s node is in the graph and has an edge to the node of operation `r` -/
def AnchM (I : Instance) (g : Graph) (m : Nat) (r : OpRef) : Prop := AnchK I g (.machine m) r

/-- the node of `r`'s job is in the graph and has an edge to the node of operation `r` -/
def AnchJ (I : Instance) (g : Graph) (r : OpRef) : Prop := AnchK I g (.job r.1) r

/-! ## removal of a node -/

/-- `a` is in the graph and `e` is one of its outgoing edges -/
def RA.EdgeAt (g : Graph) (a : Nat) (e : Nat × EType) : Prop := g.present a = true ∧ e ∈ g.adj.getD a []

theorem RA.dropNode_present_ne (g : Graph) (v o : Nat) (h : o ≠ v) : (g.dropNode v).present o = g.present o := by
  simp only [Graph.present, Graph.dropNode, List.getD_eq_getElem?_getD, List.getElem?_set]
  rw [if_neg (fun h' => h h'.symm)]
  rfl

theorem RA.dropNode_mem_adj (g : Graph) (v o : Nat) (e : Nat × EType) (hov : o ≠ v) (hev : e.1 ≠ v)
    (he : e ∈ g.adj.getD o []) : e ∈ (g.dropNode v).adj.getD o [] := by
  simp only [Graph.dropNode, List.getD_eq_getElem?_getD, List.getElem?_map, List.getElem?_set] at he ⊢
  rw [if_neg (fun h => hov h.symm)]
  cases h : g.adj[o]? with
  | none => simp [h] at he
  | some l =>
    simp only [h, Option.getD_some, Option.map_some, List.mem_filter, bne_iff_ne, ne_eq] at he ⊢
    exact ⟨he, hev⟩

theorem RA.edgeAt_dropNode {g : Graph} {a : Nat} {e : Nat × EType} (h : RA.EdgeAt g a e) (v : Nat)
    (hva : v ≠ a) (hve : v ≠ e.1) : RA.EdgeAt (g.dropNode v) a e :=
  ⟨by rw [RA.dropNode_present_ne g v _ (fun h => hva h.symm)]; exact h.1,
    RA.dropNode_mem_adj g v _ e (fun h => hva h.symm) (fun h => hve h.symm) h.2⟩

theorem RA.edgeAt_foldl_dropNode {a : Nat} {e : Nat × EType} : ∀ (l : List Nat) (g : Graph),
    RA.EdgeAt g a e → a ∉ l → e.1 ∉ l → RA.EdgeAt (l.foldl (fun g v => g.dropNode v) g) a e
  | [], _, h, _, _ => h
  | b :: t, g, h, h1, h2 => by
    simp only [List.foldl_cons]
    apply RA.edgeAt_foldl_dropNode t _ (RA.edgeAt_dropNode h b (fun e => h1 (by simp [e])) (fun e => h2 (by simp [e])))
    · exact fun hm => h1 (by simp [hm])
    · exact fun hm => h2 (by simp [hm])

/-- the two ends of an edge are not isolated -/
theorem RA.edgeAt_degree {g : Graph} {a : Nat} {e : Nat × EType} (h : RA.EdgeAt g a e) :
    g.degree a ≠ 0 ∧ g.degree e.1 ≠ 0 := by
  obtain ⟨h1, h3⟩ := h
  constructor
  · unfold Graph.degree
    have := List.length_pos_of_mem h3
    omega
  · unfold Graph.degree
    have hlt : a < g.nodes.length := by
      simp only [Graph.present, Bool.and_eq_true, decide_eq_true_eq] at h1; exact h1.1
    have hmem : (a, e.1, e.2) ∈ g.edges := (mem_edges_iff g _ _ _).2 ⟨hlt, h1, h3⟩
    have : (a, e.1, e.2) ∈ g.edges.filter fun x => x.2.1 == e.1 := by
      rw [List.mem_filter]; exact ⟨hmem, by simp⟩
    have := List.length_pos_of_mem this
    omega

/-- `remove_node(u)` keeps every edge that does not touch `u`, and its source node: the sweep of isolated nodes cannot take a
node that still has an edge -/
theorem RA.edgeAt_removeNode {g : Graph} {a : Nat} {e : Nat × EType} (h : RA.EdgeAt g a e) (u : Nat)
    (hua : u ≠ a) (hue : u ≠ e.1) : RA.EdgeAt (g.removeNode u) a e := by
  have h1 := RA.edgeAt_dropNode h u hua hue
  obtain ⟨d1, d2⟩ := RA.edgeAt_degree h1
  unfold Graph.removeNode
  simp only
  apply RA.edgeAt_foldl_dropNode _ _ h1
  · intro hm
    simp only [List.mem_filter, Bool.and_eq_true, beq_iff_eq] at hm
    exact d1 hm.2.2
  · intro hm
    simp only [List.mem_filter, Bool.and_eq_true, beq_iff_eq] at hm
    exact d2 hm.2.2

/-- removing a node that is neither the operation's own node nor one of its anchors keeps the anchor (the sweep of isolated
nodes cannot take a node that still has an edge) -/
theorem anch_removeNode {I : Instance} {g : Graph} (hg : GInv g) {r : OpRef} (h : Anch I g r) (u : Nat)
    (hu : u < g.nodes.length) (hne : u ≠ opId I r) (hna : ¬ AnchorOf I r (g.nodes.getD u .global)) :
    Anch I (g.removeNode u) r := by
  have _ := hg
  have _ := hu
  obtain ⟨h1, h2, e, he, ha⟩ := h
  have hue : u ≠ e.1 := by
    intro heq
    apply hna
    rw [heq]; exact ha
  obtain ⟨k1, k2⟩ := RA.edgeAt_removeNode (⟨h1, he⟩ : RA.EdgeAt g _ e) u hne hue
  refine ⟨k1, ?_, e, k2, ?_⟩
  · rw [removeNode_nodes]; exact h2
  · rw [removeNode_nodes]; exact ha

/-- `cond && !removed[nid]` implies that `nid` is a node of the graph -/
theorem RA.removeIf_cond_lt {g : Graph} (hg : GInv g) {nid : Nat} {cond : Bool}
    (hc : (cond && !(g.removed.getD nid true)) = true) : cond = true ∧ nid < g.nodes.length := by
  simp only [Bool.and_eq_true, Bool.not_eq_true'] at hc
  refine ⟨hc.1, ?_⟩
  rw [← hg.lenR]
  apply Classical.byContradiction; intro hn
  have : g.removed[nid]? = none := List.getElem?_eq_none (by omega)
  simp [List.getD_eq_getElem?_getD, this] at hc

theorem anch_removeIf {I : Instance} {g : Graph} (hg : GInv g) {r : OpRef} (h : Anch I g r) (nid : Nat) (cond : Bool)
    (hsafe : cond = true → nid < g.nodes.length → nid ≠ opId I r ∧ ¬ AnchorOf I r (g.nodes.getD nid .global)) :
    Anch I (removeIf g nid cond) r := by
  unfold removeIf
  split
  · rename_i hc
    obtain ⟨hc1, hlt⟩ := RA.removeIf_cond_lt hg hc
    obtain ⟨a, b⟩ := hsafe hc1 hlt
    exact anch_removeNode hg h nid hlt a b
  · exact h

/-- a node that is in the graph under the id `nodeIdOf g k` has kind `k` -/
theorem RA.nodeIdOf_get {g : Graph} {k : NodeKind} (h : g.present (nodeIdOf g k) = true) :
    g.nodes.getD (nodeIdOf g k) .global = k := by
  have hlt : List.idxOf k g.nodes < g.nodes.length := by
    simp only [Graph.present, Bool.and_eq_true, decide_eq_true_eq] at h; exact h.1
  unfold nodeIdOf
  rw [List.getD_eq_getElem?_getD, List.getElem?_eq_getElem hlt, Option.getD_some]
  exact List.getElem_idxOf hlt

/-- removing a node that is neither the operation's node nor the machine (job) node keeps the edge between them, and both nodes -/
theorem anchK_removeNode {I : Instance} {g : Graph} {k : NodeKind} {r : OpRef} (h : AnchK I g k r) (u : Nat)
    (hne : u ≠ opId I r) (hnk : g.nodes.getD u .global ≠ k) : AnchK I (g.removeNode u) k r := by
  obtain ⟨h1, e, he, hee⟩ := h
  have hid : nodeIdOf (g.removeNode u) k = nodeIdOf g k := by unfold nodeIdOf; rw [removeNode_nodes]
  have hua : u ≠ nodeIdOf g k := by
    intro heq; apply hnk; rw [heq]; exact RA.nodeIdOf_get h1
  obtain ⟨k1, k2⟩ := RA.edgeAt_removeNode (⟨h1, he⟩ : RA.EdgeAt g _ e) u hua (by rw [hee]; exact hne)
  unfold AnchK
  rw [hid]
  exact ⟨k1, e, k2, hee⟩

theorem anchK_removeIf {I : Instance} {g : Graph} (hg : GInv g) {k : NodeKind} {r : OpRef} (h : AnchK I g k r)
    (nid : Nat) (cond : Bool)
    (hsafe : cond = true → nid < g.nodes.length → nid ≠ opId I r ∧ ¬ (g.nodes.getD nid .global = k)) :
    AnchK I (removeIf g nid cond) k r := by
  unfold removeIf
  split
  · rename_i hc
    obtain ⟨hc1, hlt⟩ := RA.removeIf_cond_lt hg hc
    obtain ⟨a, b⟩ := hsafe hc1 hlt
    exact anchK_removeNode h nid a b
  · exact h

/-- the operation node at the other end of a machine (job) node's edge is in the graph too -/
theorem anchK_present {I : Instance} {g : Graph} (hg : GInv g) {k : NodeKind} {r : OpRef} (h : AnchK I g k r) :
    g.present (nodeIdOf g k) = true ∧ g.present (opId I r) = true := by
  obtain ⟨h1, e, he, hee⟩ := h
  exact ⟨h1, by rw [← hee]; exact hg.target _ e he⟩

/-! ## the residual graph updater -/

/-- `P` survives the conditional removal of every node other than node `o` whose kind is not in `D` -/
def RA.Stable (P : Graph → Prop) (o : Nat) (D : NodeKind → Prop) : Prop :=
  ∀ g, GInv g → P g → ∀ (nid : Nat) (cond : Bool),
    (cond = true → nid < g.nodes.length → nid ≠ o ∧ ¬ D (g.nodes.getD nid .global)) → P (removeIf g nid cond)

theorem RA.stable_anch (I : Instance) (r : OpRef) : RA.Stable (fun g => Anch I g r) (opId I r) (AnchorOf I r) :=
  fun _ hg h nid cond hs => anch_removeIf hg h nid cond hs

theorem RA.stable_anchK (I : Instance) (k : NodeKind) (r : OpRef) :
    RA.Stable (fun g => AnchK I g k r) (opId I r) (fun k' => k' = k) :=
  fun _ hg h nid cond hs => anchK_removeIf hg h nid cond hs

/-- what every removal of the updater preserves: the graph invariant, the node list, the property -/
structure RA.RInv (P : Graph → Prop) (ns : List NodeKind) (g : Graph) : Prop where
  ginv : GInv g
  nodes : g.nodes = ns
  holds : P g

theorem RA.fold_removeIf {α} {P : Graph → Prop} {o : Nat} {D : NodeKind → Prop} (hst : RA.Stable P o D)
    (ns : List NodeKind) (f : Graph → α → Nat) (cnd : Graph → α → Bool) : ∀ (L : List α) (g : Graph), RA.RInv P ns g →
      (∀ a ∈ L, ∀ g', g'.nodes = ns → cnd g' a = true → f g' a < ns.length →
        f g' a ≠ o ∧ ¬ D (ns.getD (f g' a) .global)) →
      RA.RInv P ns (L.foldl (fun g a => removeIf g (f g a) (cnd g a)) g)
  | [], _, h, _ => h
  | a :: t, g, h, hs => by
    simp only [List.foldl_cons]
    apply RA.fold_removeIf hst ns f cnd t
    · refine ⟨ginv_removeIf h.ginv _ _, by rw [removeIf_nodes]; exact h.nodes, ?_⟩
      apply hst g h.ginv h.holds
      intro hc hlt
      rw [h.nodes] at hlt ⊢
      exact hs a (by simp) g h.nodes hc hlt
    · intro a' ha'
      exact hs a' (by simp [ha'])

/-- removal of the flagged entities' nodes, when no flagged entity is in `D` -/
theorem RA.rinv_removeFlagged {P : Graph → Prop} {o : Nat} {D : NodeKind → Prop} (hst : RA.Stable P o D)
    {ns : List NodeKind} {g : Graph} (h : RA.RInv P ns g) (hno : ns.getD o .global = .operation o)
    (flags : List Int) (kind : Nat → NodeKind) (hk : ∀ i, kind i ≠ .operation o)
    (hsafe : ∀ i, flags[i]? = some 1 → ¬ D (kind i)) :
    RA.RInv P ns (removeFlagged g flags kind) := by
  unfold removeFlagged
  apply RA.fold_removeIf hst ns (fun g (fm : Int × Nat) => nodeIdOf g (kind fm.2)) (fun _ fm => fm.1 == 1) _ g h
  intro a ha g' hg' hc hlt
  have hfl : flags[a.2]? = some a.1 := List.mem_zipIdx_iff_getElem?.1 ha
  have ha1 : a.1 = 1 := by simpa using hc
  rw [ha1] at hfl
  simp only [nodeIdOf, hg'] at hlt ⊢
  have hget : ns.getD (List.idxOf (kind a.2) ns) .global = kind a.2 := by
    rw [List.getD_eq_getElem?_getD, List.getElem?_eq_getElem hlt, Option.getD_some]
    exact List.getElem_idxOf hlt
  constructor
  · intro heq
    rw [heq, hno] at hget
    exact hk a.2 hget.symm
  · rw [hget]; exact hsafe a.2 hfl

theorem RA.sum_nonneg : ∀ (l : List Int), (∀ x ∈ l, 0 ≤ x) → 0 ≤ l.sum
  | [], _ => by simp
  | a :: t, h => by
    have h1 := h a (by simp)
    have h2 := RA.sum_nonneg t (fun x hx => h x (by simp [hx]))
    simp only [List.sum_cons]; omega

theorem RA.sum_zero_of_nonneg : ∀ (l : List Int), (∀ x ∈ l, 0 ≤ x) → l.sum = 0 → ∀ x ∈ l, x = 0
  | [], _, _ => by simp
  | a :: t, h, hs => by
    have h1 := h a (by simp)
    have h2 := RA.sum_nonneg t (fun x hx => h x (by simp [hx]))
    simp only [List.sum_cons] at hs
    intro x hx
    rcases List.mem_cons.1 hx with rfl | hx
    · omega
    · exact RA.sum_zero_of_nonneg t (fun x hx => h x (by simp [hx])) (by omega) x hx

/-- a machine whose completion flag is 1 is not a machine of any unscheduled operation -/
theorem RA.complMach_flag {I : Instance} {s : State} {m : Nat} (h : (complMachSpec I s)[m]? = some 1) {r : OpRef}
    (hr : r ∈ unscheduledPure I s) : onMachine I m r = false := by
  unfold complMachSpec at h
  rw [List.getElem?_map] at h
  have hm : m < numMachines I := by
    apply Classical.byContradiction; intro hn
    rw [List.getElem?_eq_none (by simp; omega)] at h; cases h
  rw [List.getElem?_range hm] at h
  simp only [Option.map_some, Option.some.injEq] at h
  have h0 : (remMachSpec I s).getD m 0 = 0 := by
    apply Classical.byContradiction; intro hn
    rw [if_neg (fun hh => hn hh.1)] at h; cases h
  unfold remMachSpec at h0
  rw [List.getD_eq_getElem?_getD, List.getElem?_map, List.getElem?_range hm] at h0
  simp only [Option.map_some, Option.getD_some] at h0
  have hz := RA.sum_zero_of_nonneg _ (by
    intro x hx
    obtain ⟨r', _, rfl⟩ := List.mem_map.1 hx
    unfold machCount; split <;> omega) h0 (machCount I m r) (List.mem_map_of_mem hr)
  unfold machCount at hz
  unfold onMachine
  cases hop : getOp I r.1 r.2 with
  | none => rfl
  | some op =>
    rw [hop] at hz
    simp only at hz ⊢
    have : op.machines.count m = 0 := by omega
    have hnm : m ∉ op.machines := List.count_eq_zero.1 this
    simpa using hnm

/-- a job whose completion flag is 1 has no unscheduled operation -/
theorem RA.complJobs_flag {I : Instance} {s : State} {j : Nat} (h : (complJobsSpec I s)[j]? = some 1) {r : OpRef}
    (hr : r ∈ unscheduledPure I s) : j ≠ r.1 := by
  unfold complJobsSpec at h
  rw [List.getElem?_map] at h
  have hj : j < I.length := by
    apply Classical.byContradiction; intro hn
    rw [List.getElem?_eq_none (by simp; omega)] at h; cases h
  rw [List.getElem?_range hj] at h
  simp only [Option.map_some, Option.some.injEq] at h
  have h0 : (remJobsSpec I s).getD j 0 = 0 := by
    apply Classical.byContradiction; intro hn
    rw [if_neg (fun hh => hn hh.1)] at h; cases h
  unfold remJobsSpec at h0
  rw [List.getD_eq_getElem?_getD, List.getElem?_map, List.getElem?_range hj] at h0
  simp only [Option.map_some, Option.getD_some] at h0
  intro heq
  have hmem : r ∈ (unscheduledPure I s).filter fun r => r.1 == j := by
    rw [List.mem_filter]; exact ⟨hr, by simp [heq]⟩
  have := List.length_pos_of_mem hmem
  omega

/-- a completed operation is neither the unscheduled operation `r` nor its job successor -/
theorem RA.completed_safe {c : Cfg} {s : State} {r r' : OpRef} (hr : r ∈ unscheduledPure c.I s)
    (hr' : r' ∈ completedPure c s) :
    opId c.I r' ≠ opId c.I r ∧
    ¬ (opId c.I r' = opId c.I (r.1, r.2 + 1) ∧ r.2 + 1 < (c.I.getD r.1 []).length) := by
  unfold completedPure at hr'
  obtain ⟨hall', hf⟩ := (mem_sortRefs _ _ _).1 hr'
  have hs' := (mem_scheduledPure _ _ _).1 (List.mem_filter.1 hf).1
  obtain ⟨hsome, hle⟩ := (mem_unscheduledPure _ _ _).1 hr
  have hall : r ∈ allOps c.I := (mem_allOps' _ _).2 hsome
  constructor
  · intro heq
    have := opId_inj hall' hall heq
    subst this
    omega
  · rintro ⟨heq, hlt⟩
    have hall2 : (r.1, r.2 + 1) ∈ allOps c.I := (mem_allOps' _ _).2 (getD_length_of_getOp.2 hlt)
    have := opId_inj hall' hall2 heq
    subst this
    simp only at hs'
    omega

/-- the machine stage and the job stage of the updater -/
theorem RA.rinv_stages {P : Graph → Prop} {o : Nat} {D : NodeKind → Prop} (hst : RA.Stable P o D)
    {ns : List NodeKind} {g1 : Graph} (h1 : RA.RInv P ns g1) (hno : ns.getD o .global = .operation o)
    (b1 b2 : Bool) (fm fj : List Int) (c1 c2 : Graph → Bool)
    (hm : b1 = true → ∀ m, fm[m]? = some 1 → ¬ D (.machine m))
    (hj : b2 = true → ∀ j, fj[j]? = some 1 → ¬ D (.job j)) :
    RA.RInv P ns
      (let g2 := if b1 && c1 g1 then removeFlagged g1 fm .machine else g1
       if b2 && c2 g2 then removeFlagged g2 fj .job else g2) := by
  have hkM : ∀ i, NodeKind.machine i ≠ .operation o := by intro i hh; cases hh
  have hkJ : ∀ i, NodeKind.job i ≠ .operation o := by intro i hh; cases hh
  have h2 : RA.RInv P ns (if b1 && c1 g1 then removeFlagged g1 fm .machine else g1) := by
    split
    · rename_i hc
      simp only [Bool.and_eq_true] at hc
      exact RA.rinv_removeFlagged hst h1 hno _ _ hkM (hm hc.1)
    · exact h1
  simp only
  generalize (if (b1 && c1 g1) = true then removeFlagged g1 fm .machine else g1) = g2 at h2
  split
  · rename_i hc
    simp only [Bool.and_eq_true] at hc
    exact RA.rinv_removeFlagged hst h2 hno _ _ hkJ (hj hc.1)
  · exact h2

/-- one update of the residual graph updater keeps every property of the graph that survives the removal of the nodes other than
`r`'s node, `r`'s job successor, the machines `r` may run on and `r`'s job — for an unscheduled `r` -/
theorem RA.stable_residualUpdate {P : Graph → Prop} {D : NodeKind → Prop} (c : Cfg) (s : State) (heap : List FObs) (o : FObs)
    (r : OpRef) (hst : RA.Stable P (opId c.I r) D)
    (hDop : ∀ i, D (.operation i) → i = opId c.I (r.1, r.2 + 1) ∧ r.2 + 1 < (c.I.getD r.1 []).length)
    (hDm : ∀ m, D (.machine m) → onMachine c.I m r = true)
    (hDj : ∀ j, D (.job j) → j = r.1)
    (hg : GInv o.graph)
    (hnodes : ∀ k, k < numOps c.I → o.graph.nodes[k]? = some (.operation k))
    (hflagsM : ∀ i ic, o.parts.head? = some i → heap[i]? = some ic → o.rmMach = true → ic.col .machines = complMachSpec c.I s)
    (hflagsJ : ∀ i ic, o.parts.head? = some i → heap[i]? = some ic → o.rmJob = true → ic.col .jobs = complJobsSpec c.I s)
    (hr : r ∈ unscheduledPure c.I s) (h : P o.graph) :
    P (residualUpdate c s heap o) := by
  have h0 : RA.RInv P o.graph.nodes o.graph := ⟨hg, rfl, h⟩
  have hall : r ∈ allOps c.I := (mem_allOps' _ _).2 ((mem_unscheduledPure _ _ _).1 hr).1
  have hno : o.graph.nodes.getD (opId c.I r) .global = .operation (opId c.I r) := by
    rw [List.getD_eq_getElem?_getD, hnodes _ (opId_lt hall), Option.getD_some]
  -- stage 1: completed operations
  have h1 : RA.RInv P o.graph.nodes (removeCompletedOps c.I o.graph (completedPure c s)) := by
    unfold removeCompletedOps
    apply RA.fold_removeIf hst o.graph.nodes (fun _ r' => opId c.I r') (fun _ _ => true) _ _ h0
    intro r' hr' g' _ _ hlt
    obtain ⟨a, b⟩ := RA.completed_safe hr hr'
    refine ⟨a, ?_⟩
    have hall' : r' ∈ allOps c.I := by
      unfold completedPure at hr'; exact ((mem_sortRefs _ _ _).1 hr').1
    rw [List.getD_eq_getElem?_getD, hnodes _ (opId_lt hall'), Option.getD_some]
    exact fun hd => b (hDop _ hd)
  -- the flags the updater reads
  have hic : ∀ ic : FObs, (ic = match o.parts.head? with | some i => heap.getD i default | none => default) →
      (o.rmMach = true → ic.col .machines = complMachSpec c.I s ∨ ic.col .machines = []) ∧
      (o.rmJob = true → ic.col .jobs = complJobsSpec c.I s ∨ ic.col .jobs = []) := by
    intro ic hicd
    cases hh : o.parts.head? with
    | none => rw [hh] at hicd; rw [hicd]; exact ⟨fun _ => Or.inr rfl, fun _ => Or.inr rfl⟩
    | some i =>
      rw [hh] at hicd
      simp only at hicd
      cases hi : heap[i]? with
      | none =>
        rw [List.getD_eq_getElem?_getD, hi] at hicd
        rw [hicd]; exact ⟨fun _ => Or.inr rfl, fun _ => Or.inr rfl⟩
      | some ic' =>
        rw [List.getD_eq_getElem?_getD, hi, Option.getD_some] at hicd
        rw [hicd]
        exact ⟨fun hm => Or.inl (hflagsM i ic' hh hi hm), fun hj => Or.inl (hflagsJ i ic' hh hi hj)⟩
  obtain ⟨hM, hJ⟩ := hic _ rfl
  unfold residualUpdate
  refine (RA.rinv_stages hst h1 hno o.rmMach o.rmJob _ _ hasMachineNodes hasJobNodes ?_ ?_).holds
  · intro hb m hm hd
    rcases hM hb with he | he
    · have hm' : (complMachSpec c.I s)[m]? = some 1 := by rw [← he]; exact hm
      have := hDm m hd
      rw [RA.complMach_flag hm' hr] at this
      exact Bool.false_ne_true this
    · have hm' : ([] : List Int)[m]? = some 1 := by rw [← he]; exact hm
      simp at hm'
  · intro hb j hj hd
    rcases hJ hb with he | he
    · have hj' : (complJobsSpec c.I s)[j]? = some 1 := by rw [← he]; exact hj
      exact RA.complJobs_flag hj' hr (hDj j hd)
    · have hj' : ([] : List Int)[j]? = some 1 := by rw [← he]; exact hj
      simp at hj'

/-- one update of the residual graph updater keeps the anchors of the operations that are unscheduled, provided the completion flags
it reads are the specification.  (`hnodes`: the first `num_operations` nodes are the operation nodes, node id = operation id — true of
every graph of the four builders, `RA.build_opnodes`, and kept by every update, `RA.residualUpdate_nodes`.) -/
theorem anch_residualUpdate (c : Cfg) (s : State) (heap : List FObs) (o : FObs) (hg : GInv o.graph)
    (hnodes : ∀ k, k < numOps c.I → o.graph.nodes[k]? = some (.operation k))
    (hflagsM : ∀ i ic, o.parts.head? = some i → heap[i]? = some ic → o.rmMach = true → ic.col .machines = complMachSpec c.I s)
    (hflagsJ : ∀ i ic, o.parts.head? = some i → heap[i]? = some ic → o.rmJob = true → ic.col .jobs = complJobsSpec c.I s)
    (r : OpRef) (hr : r ∈ unscheduledPure c.I s) (h : Anch c.I o.graph r) :
    Anch c.I (residualUpdate c s heap o) r :=
  RA.stable_residualUpdate c s heap o r (RA.stable_anch c.I r) (fun _ hd => hd) (fun _ hd => hd) (fun _ hd => hd)
    hg hnodes hflagsM hflagsJ hr h

/-- **a machine node is removed only when all its operations are scheduled**: one update of the residual graph updater keeps the
node of machine `m` and its edge to every unscheduled operation that may run on `m` -/
theorem anchM_residualUpdate (c : Cfg) (s : State) (heap : List FObs) (o : FObs) (hg : GInv o.graph)
    (hnodes : ∀ k, k < numOps c.I → o.graph.nodes[k]? = some (.operation k))
    (hflagsM : ∀ i ic, o.parts.head? = some i → heap[i]? = some ic → o.rmMach = true → ic.col .machines = complMachSpec c.I s)
    (hflagsJ : ∀ i ic, o.parts.head? = some i → heap[i]? = some ic → o.rmJob = true → ic.col .jobs = complJobsSpec c.I s)
    (m : Nat) (r : OpRef) (hr : r ∈ unscheduledPure c.I s) (hm : onMachine c.I m r = true) (h : AnchM c.I o.graph m r) :
    AnchM c.I (residualUpdate c s heap o) m r :=
  RA.stable_residualUpdate c s heap o r (RA.stable_anchK c.I (.machine m) r) (fun _ hd => by cases hd)
    (fun m' hd => by cases hd; exact hm) (fun _ hd => by cases hd) hg hnodes hflagsM hflagsJ hr h

/-- **a job node is removed only when all its operations are scheduled**: one update of the residual graph updater keeps the node
of the job of every unscheduled operation, and its edge to the operation -/
theorem anchJ_residualUpdate (c : Cfg) (s : State) (heap : List FObs) (o : FObs) (hg : GInv o.graph)
    (hnodes : ∀ k, k < numOps c.I → o.graph.nodes[k]? = some (.operation k))
    (hflagsM : ∀ i ic, o.parts.head? = some i → heap[i]? = some ic → o.rmMach = true → ic.col .machines = complMachSpec c.I s)
    (hflagsJ : ∀ i ic, o.parts.head? = some i → heap[i]? = some ic → o.rmJob = true → ic.col .jobs = complJobsSpec c.I s)
    (r : OpRef) (hr : r ∈ unscheduledPure c.I s) (h : AnchJ c.I o.graph r) :
    AnchJ c.I (residualUpdate c s heap o) r :=
  RA.stable_residualUpdate c s heap o r (RA.stable_anchK c.I (.job r.1) r) (fun _ hd => by cases hd)
    (fun _ hd => by cases hd) (fun j hd => by cases hd; rfl) hg hnodes hflagsM hflagsJ hr h

/-- the node list never changes -/
theorem RA.residualUpdate_nodes (c : Cfg) (s : State) (heap : List FObs) (o : FObs) :
    (residualUpdate c s heap o).nodes = o.graph.nodes :=
  (residualUpdate_sizeLe c s heap o o.graph (SizeLe.refl _)).nodes

/-! ## builders: edges are never lost while a graph is being built -/

/-- there is an edge `a → b` (of some type) -/
def RA.Adj (g : Graph) (a b : Nat) : Prop := ∃ e ∈ g.adj.getD a [], e.1 = b

/-- a graph under construction: consistent, nothing removed -/
structure RA.Good (g : Graph) : Prop where
  ginv : GInv g
  norem : NoRemoved g

theorem RA.Good.present {g : Graph} (h : RA.Good g) {a : Nat} (ha : a < g.nodes.length) : g.present a = true :=
  present_of_noRemoved h.norem ha

theorem RA.adj_lt {g : Graph} {a b : Nat} (h : RA.Adj g a b) : a < g.adj.length := by
  obtain ⟨e, he, _⟩ := h
  apply Classical.byContradiction; intro hn
  rw [List.getD_eq_getElem?_getD, List.getElem?_eq_none (by omega)] at he
  cases he

theorem RA.addEdge_adj_keep {g : Graph} (hg : GInv g) (x y : Nat) (t : EType) {a b : Nat} (h : RA.Adj g a b) :
    RA.Adj (g.addEdge x y t) a b := by
  obtain ⟨e, he, heb⟩ := h
  unfold RA.Adj
  rw [addEdge_adj g hg x y t a]
  by_cases hc : (g.present x && g.present y) = true ∧ a = x
  · rw [if_pos hc]
    obtain ⟨_, rfl⟩ := hc
    split
    · by_cases hk : (e.1 == y) = true
      · refine ⟨(y, t), List.mem_map.2 ⟨e, he, by rw [if_pos hk]⟩, ?_⟩
        rw [← heb]; exact (beq_iff_eq.1 hk).symm
      · exact ⟨e, List.mem_map.2 ⟨e, he, by rw [if_neg hk]⟩, heb⟩
    · exact ⟨e, List.mem_append_left _ he, heb⟩
  · rw [if_neg hc]; exact ⟨e, he, heb⟩

theorem RA.addEdge_adj_new {g : Graph} (hg : GInv g) (x y : Nat) (t : EType)
    (hp : (g.present x && g.present y) = true) : RA.Adj (g.addEdge x y t) x y :=
  ⟨(y, t), (addEdge_typed_new g hg x y t hp).1, rfl⟩

theorem RA.addNode_adj_keep {g : Graph} (k : NodeKind) {a b : Nat} (h : RA.Adj g a b) : RA.Adj (g.addNode k) a b := by
  have hlt := RA.adj_lt h
  obtain ⟨e, he, heb⟩ := h
  refine ⟨e, ?_, heb⟩
  simp only [Graph.addNode]
  rw [getD_append_lt _ _ _ _ hlt]; exact he

/-- `g'` extends `g` by edges only -/
structure RA.EO (g g' : Graph) : Prop where
  good : RA.Good g'
  nodes : g'.nodes = g.nodes
  adj : ∀ a b, RA.Adj g a b → RA.Adj g' a b

/-- `g'` extends `g` by nodes (appended) and edges -/
structure RA.Ext (g g' : Graph) : Prop where
  good : RA.Good g'
  nodes : ∃ t, g'.nodes = g.nodes ++ t
  adj : ∀ a b, RA.Adj g a b → RA.Adj g' a b

theorem RA.EO.refl {g : Graph} (h : RA.Good g) : RA.EO g g := ⟨h, rfl, fun _ _ h => h⟩

theorem RA.EO.trans {g g' g'' : Graph} (h1 : RA.EO g g') (h2 : RA.Good g' → RA.EO g' g'') : RA.EO g g'' :=
  ⟨(h2 h1.good).good, (h2 h1.good).nodes.trans h1.nodes, fun a b h => (h2 h1.good).adj a b (h1.adj a b h)⟩

theorem RA.EO.ext {g g' : Graph} (h : RA.EO g g') : RA.Ext g g' := ⟨h.good, ⟨[], by rw [h.nodes]; simp⟩, h.adj⟩

theorem RA.Ext.trans {g g' g'' : Graph} (h1 : RA.Ext g g') (h2 : RA.Good g' → RA.Ext g' g'') : RA.Ext g g'' := by
  obtain ⟨t1, ht1⟩ := h1.nodes
  obtain ⟨t2, ht2⟩ := (h2 h1.good).nodes
  exact ⟨(h2 h1.good).good, ⟨t1 ++ t2, by rw [ht2, ht1, List.append_assoc]⟩,
    fun a b h => (h2 h1.good).adj a b (h1.adj a b h)⟩

theorem RA.eo_addEdge {g : Graph} (h : RA.Good g) (x y : Nat) (t : EType) : RA.EO g (g.addEdge x y t) :=
  ⟨⟨ginv_addEdge h.ginv x y t, noRemoved_addEdge h.norem x y t⟩, addEdge_nodes g x y t,
    fun _ _ ha => RA.addEdge_adj_keep h.ginv x y t ha⟩

theorem RA.eo_addBoth {g : Graph} (h : RA.Good g) (x y : Nat) (t : EType) : RA.EO g (addBoth g x y t) :=
  (RA.eo_addEdge h x y t).trans fun h' => RA.eo_addEdge h' y x t

theorem RA.ext_addNode {g : Graph} (h : RA.Good g) (k : NodeKind) : RA.Ext g (g.addNode k) :=
  ⟨⟨ginv_addNode h.ginv k, noRemoved_addNode h.ginv h.norem k⟩, ⟨[k], rfl⟩, fun _ _ ha => RA.addNode_adj_keep k ha⟩

theorem RA.eo_foldl {α} (f : Graph → α → Graph) (hf : ∀ g a, RA.Good g → RA.EO g (f g a)) :
    ∀ (L : List α) (g : Graph), RA.Good g → RA.EO g (L.foldl f g)
  | [], _, h => RA.EO.refl h
  | a :: t, g, h => by
    simp only [List.foldl_cons]
    exact (hf g a h).trans fun h' => RA.eo_foldl f hf t _ h'

theorem RA.ext_foldl {α} (f : Graph → α → Graph) (hf : ∀ g a, RA.Good g → RA.Ext g (f g a)) :
    ∀ (L : List α) (g : Graph), RA.Good g → RA.Ext g (L.foldl f g)
  | [], _, h => (RA.EO.refl h).ext
  | a :: t, g, h => by
    simp only [List.foldl_cons]
    exact (hf g a h).trans fun h' => RA.ext_foldl f hf t _ h'

/-- a fold of edge insertions, one of which inserts `x → y`, ends with the edge `x → y` -/
theorem RA.fold_establish {α} (f : Graph → α → Graph) (ns : List NodeKind) (x y : Nat)
    (hEO : ∀ g a, RA.Good g → RA.EO g (f g a)) (a0 : α)
    (hnew : ∀ g, RA.Good g → g.nodes = ns → RA.Adj (f g a0) x y) :
    ∀ (L : List α) (g : Graph), RA.Good g → g.nodes = ns → a0 ∈ L → RA.Adj (L.foldl f g) x y
  | [], _, _, _, h => by cases h
  | a :: t, g, hg, hn, hmem => by
    simp only [List.foldl_cons]
    rcases List.mem_cons.1 hmem with rfl | hmem
    · exact (RA.eo_foldl f hEO t _ (hEO g a0 hg).good).adj x y (hnew g hg hn)
    · exact RA.fold_establish f ns x y hEO a0 hnew t _ (hEO g a hg).good ((hEO g a hg).nodes.trans hn) hmem

/-! ### the stages of the builders -/

theorem RA.good_opNodesGraph (I : Instance) : RA.Good (opNodesGraph I) := by
  unfold opNodesGraph
  have := noRemoved_foldl (fun g i => g.addNode (.operation i))
    (fun g i hg hn => ⟨ginv_addNode hg _, noRemoved_addNode hg hn _⟩) (List.range (numOps I)) {} ginv_empty
    (by intro k hk; simp at hk)
  exact ⟨this.1, this.2⟩

theorem RA.eo_addDisjunctiveEdges (I : Instance) {g : Graph} (h : RA.Good g) : RA.EO g (addDisjunctiveEdges I g) := by
  unfold addDisjunctiveEdges
  apply RA.eo_foldl _ _ _ _ h
  intro g m hg
  apply RA.eo_foldl _ _ _ _ hg
  intro g ab hg; obtain ⟨a, b⟩ := ab
  exact RA.eo_addBoth hg a b _

theorem RA.eo_addConjunctiveEdges (I : Instance) {g : Graph} (h : RA.Good g) : RA.EO g (addConjunctiveEdges I g) := by
  unfold addConjunctiveEdges
  apply RA.eo_foldl _ _ _ _ h
  intro g j hg
  apply RA.eo_foldl _ _ _ _ hg
  intro g ab hg; obtain ⟨a, b⟩ := ab
  exact RA.eo_addEdge hg a b _

theorem RA.eo_addOperationMachineEdges (I : Instance) {g : Graph} (h : RA.Good g) :
    RA.EO g (addOperationMachineEdges I g) := by
  unfold addOperationMachineEdges
  apply RA.eo_foldl _ _ _ _ h
  intro g m hg
  apply RA.eo_foldl _ _ _ _ hg
  intro g o hg
  exact RA.eo_addBoth hg _ _ _

theorem RA.eo_addMachineMachineEdges (I : Instance) {g : Graph} (h : RA.Good g) :
    RA.EO g (addMachineMachineEdges I g) := by
  unfold addMachineMachineEdges
  apply RA.eo_foldl _ _ _ _ h
  intro g ab hg; obtain ⟨a, b⟩ := ab
  exact RA.eo_addBoth hg a b _

theorem RA.eo_addSameJobEdges (I : Instance) {g : Graph} (h : RA.Good g) : RA.EO g (addSameJobEdges I g) := by
  unfold addSameJobEdges
  apply RA.eo_foldl _ _ _ _ h
  intro g j hg
  apply RA.eo_foldl _ _ _ _ hg
  intro g ab hg; obtain ⟨a, b⟩ := ab
  exact RA.eo_addBoth hg a b _

theorem RA.eo_addOperationJobEdges (I : Instance) {g : Graph} (h : RA.Good g) :
    RA.EO g (addOperationJobEdges I g) := by
  unfold addOperationJobEdges
  apply RA.eo_foldl _ _ _ _ h
  intro g j hg
  apply RA.eo_foldl _ _ _ _ hg
  intro g o hg
  exact RA.eo_addBoth hg _ _ _

theorem RA.eo_addJobJobEdges (I : Instance) {g : Graph} (h : RA.Good g) : RA.EO g (addJobJobEdges I g) := by
  unfold addJobJobEdges
  apply RA.eo_foldl _ _ _ _ h
  intro g ab hg; obtain ⟨a, b⟩ := ab
  exact RA.eo_addBoth hg a b _

theorem RA.ext_addMachineNodes (I : Instance) {g : Graph} (h : RA.Good g) : RA.Ext g (addMachineNodes I g) := by
  unfold addMachineNodes
  exact RA.ext_foldl _ (fun g m hg => RA.ext_addNode hg _) _ _ h

theorem RA.ext_addJobNodes (I : Instance) {g : Graph} (h : RA.Good g) : RA.Ext g (addJobNodes I g) := by
  unfold addJobNodes
  exact RA.ext_foldl _ (fun g m hg => RA.ext_addNode hg _) _ _ h

theorem RA.ext_addGlobal (I : Instance) {g : Graph} (h : RA.Good g) : RA.Ext g (addGlobal I g) := by
  unfold addGlobal
  simp only
  refine (RA.ext_addNode h .global).trans fun h1 => ?_
  have e2 : RA.EO (g.addNode .global) ((List.range (numMachines I)).foldl
      (fun g' m => addBoth g' g.nodes.length (nodeIdOf g' (.machine m)) .untyped) (g.addNode .global)) :=
    RA.eo_foldl _ (fun g m hg => RA.eo_addBoth hg _ _ _) _ _ h1
  refine e2.ext.trans fun h2 => ?_
  exact (RA.eo_foldl _ (fun g j hg => RA.eo_addBoth hg _ _ _) _ _ h2).ext

/-- the step of the source/sink phase -/
theorem RA.eo_sourceSinkStep (I : Instance) (src snk : Nat) {g : Graph} (hg : RA.Good g) (j : Nat) :
    RA.EO g (match (nodesByJob I j).head?, (nodesByJob I j).getLast? with
      | some a, some b => (g.addEdge src a .conjunctive).addEdge b snk .conjunctive
      | _, _ => g) := by
  split
  · exact (RA.eo_addEdge hg _ _ _).trans fun h' => RA.eo_addEdge h' _ _ _
  · exact RA.EO.refl hg

/-! ### anchors in graphs under construction -/

theorem RA.anch_intro {I : Instance} {r : OpRef} {g : Graph} (hg : RA.Good g) (y : Nat)
    (hlt : opId I r < g.nodes.length) (ho : g.nodes.getD (opId I r) .global = .operation (opId I r))
    (hadj : RA.Adj g (opId I r) y) (hanc : AnchorOf I r (g.nodes.getD y .global)) : Anch I g r := by
  obtain ⟨e, he, rfl⟩ := hadj
  exact ⟨hg.present hlt, ho, e, he, hanc⟩

theorem RA.getD_append_left {α} (l t : List α) (k : Nat) (d : α) (h : k < l.length) : (l ++ t).getD k d = l.getD k d := by
  simp [List.getD_eq_getElem?_getD, List.getElem?_append_left h]

theorem RA.anch_ext {I : Instance} {r : OpRef} {g g' : Graph} (hg : RA.Good g) (h : RA.Ext g g') (ha : Anch I g r) :
    Anch I g' r := by
  obtain ⟨h1, h2, e, he, hanc⟩ := ha
  obtain ⟨t, ht⟩ := h.nodes
  have hlt : opId I r < g.nodes.length := by
    simp only [Graph.present, Bool.and_eq_true, decide_eq_true_eq] at h1; exact h1.1
  have helt : e.1 < g.nodes.length := by
    have := hg.ginv.target _ e he
    simp only [Graph.present, Bool.and_eq_true, decide_eq_true_eq] at this; exact this.1
  obtain ⟨e', he', hee⟩ := h.adj _ _ ⟨e, he, rfl⟩
  refine ⟨h.good.present (by rw [ht, List.length_append]; omega), ?_, e', he', ?_⟩
  · rw [ht, RA.getD_append_left _ _ _ _ hlt]; exact h2
  · rw [hee, ht, RA.getD_append_left _ _ _ _ helt]; exact hanc

theorem RA.getD_opnodes (n : Nat) (t : List NodeKind) (k : Nat) (h : k < n) :
    ((List.range n).map NodeKind.operation ++ t).getD k .global = .operation k := by
  rw [RA.getD_append_left _ _ _ _ (by simpa using h)]
  simp [List.getD_eq_getElem?_getD, List.getElem?_range h]

/-- a fold of `addBoth g (node of kind k) o'` over a list containing `o` creates both edges between the node of kind `k` and `o` -/
theorem RA.fold_addBoth_kind {g : Graph} (hg : RA.Good g) (k : NodeKind) (hk : k ∈ g.nodes) (L : List Nat) (o : Nat)
    (ho : o ∈ L) (holt : o < g.nodes.length) :
    RA.Adj (L.foldl (fun g o' => addBoth g (nodeIdOf g k) o' .untyped) g) o (nodeIdOf g k) ∧
    RA.Adj (L.foldl (fun g o' => addBoth g (nodeIdOf g k) o' .untyped) g) (nodeIdOf g k) o := by
  have hylt : nodeIdOf g k < g.nodes.length := List.idxOf_lt_length_of_mem hk
  have hEO : ∀ (g' : Graph) (o' : Nat), RA.Good g' → RA.EO g' (addBoth g' (nodeIdOf g' k) o' .untyped) :=
    fun g' o' hg' => RA.eo_addBoth hg' _ _ _
  have hid : ∀ g' : Graph, g'.nodes = g.nodes → nodeIdOf g' k = nodeIdOf g k := by
    intro g' hn; unfold nodeIdOf; rw [hn]
  constructor
  · apply RA.fold_establish _ g.nodes _ _ hEO o _ L g hg rfl ho
    intro g' hg' hn
    simp only [hid g' hn, addBoth]
    apply RA.addEdge_adj_new (ginv_addEdge hg'.ginv _ _ _)
    rw [addEdge_present, addEdge_present, hg'.present (by rw [hn]; exact holt), hg'.present (by rw [hn]; exact hylt)]
    rfl
  · apply RA.fold_establish _ g.nodes _ _ hEO o _ L g hg rfl ho
    intro g' hg' hn
    simp only [hid g' hn, addBoth]
    apply RA.addEdge_adj_keep (ginv_addEdge hg'.ginv _ _ _)
    apply RA.addEdge_adj_new hg'.ginv
    rw [hg'.present (by rw [hn]; exact hylt), hg'.present (by rw [hn]; exact holt)]
    rfl

theorem RA.onMachine_lt {I : Instance} {m : Nat} {r : OpRef} (hm : onMachine I m r = true) : m < numMachines I := by
  unfold onMachine at hm
  cases hop : getOp I r.1 r.2 with
  | none => rw [hop] at hm; cases hm
  | some op =>
    rw [hop] at hm
    exact machine_lt I r.1 r.2 m op hop (by simpa using hm)

/-- the operation-machine phase creates both edges between an operation and each machine it may run on -/
theorem RA.adj_opMachine (I : Instance) {g : Graph} (hg : RA.Good g) {r : OpRef} (hr : r ∈ allOps I) {m : Nat}
    (hm : onMachine I m r = true) (hk : NodeKind.machine m ∈ g.nodes) (holt : opId I r < g.nodes.length) :
    RA.Adj (addOperationMachineEdges I g) (opId I r) (nodeIdOf g (.machine m)) ∧
    RA.Adj (addOperationMachineEdges I g) (nodeIdOf g (.machine m)) (opId I r) := by
  have hmlt := RA.onMachine_lt hm
  have hmem : opId I r ∈ nodesByMachine I m := by
    unfold nodesByMachine
    exact List.mem_map.2 ⟨r, List.mem_filter.2 ⟨hr, hm⟩, rfl⟩
  have hEO : ∀ (g' : Graph) (m' : Nat), RA.Good g' →
      RA.EO g' ((nodesByMachine I m').foldl (fun g o => addBoth g (nodeIdOf g (.machine m')) o .untyped) g') :=
    fun g' m' hg' => RA.eo_foldl _ (fun g o hg => RA.eo_addBoth hg _ _ _) _ _ hg'
  have hid : ∀ g' : Graph, g'.nodes = g.nodes → nodeIdOf g' (.machine m) = nodeIdOf g (.machine m) := by
    intro g' hn; unfold nodeIdOf; rw [hn]
  unfold addOperationMachineEdges
  constructor
  · apply RA.fold_establish _ g.nodes _ _ hEO m _ _ g hg rfl (List.mem_range.2 hmlt)
    intro g' hg' hn
    rw [← hid g' hn]
    exact (RA.fold_addBoth_kind hg' _ (by rw [hn]; exact hk) _ _ hmem (by rw [hn]; exact holt)).1
  · apply RA.fold_establish _ g.nodes _ _ hEO m _ _ g hg rfl (List.mem_range.2 hmlt)
    intro g' hg' hn
    rw [← hid g' hn]
    exact (RA.fold_addBoth_kind hg' _ (by rw [hn]; exact hk) _ _ hmem (by rw [hn]; exact holt)).2

/-- the operation-job phase creates both edges between an operation and its job -/
theorem RA.adj_opJob (I : Instance) {g : Graph} (hg : RA.Good g) {r : OpRef} (hr : r ∈ allOps I)
    (hk : NodeKind.job r.1 ∈ g.nodes) (holt : opId I r < g.nodes.length) :
    RA.Adj (addOperationJobEdges I g) (opId I r) (nodeIdOf g (.job r.1)) ∧
    RA.Adj (addOperationJobEdges I g) (nodeIdOf g (.job r.1)) (opId I r) := by
  obtain ⟨op, hop⟩ := Option.isSome_iff_exists.1 ((mem_allOps' I r).1 hr)
  have hj : r.1 < I.length := getOp_job_lt' I r.1 r.2 op hop
  have hlen : r.2 < (I.getD r.1 []).length := getD_length_of_getOp.1 ((mem_allOps' I r).1 hr)
  have hmem : opId I r ∈ nodesByJob I r.1 := by
    unfold nodesByJob
    exact List.mem_map.2 ⟨r.2, List.mem_range.2 hlen, rfl⟩
  have hEO : ∀ (g' : Graph) (j' : Nat), RA.Good g' →
      RA.EO g' ((nodesByJob I j').foldl (fun g o => addBoth g (nodeIdOf g (.job j')) o .untyped) g') :=
    fun g' j' hg' => RA.eo_foldl _ (fun g o hg => RA.eo_addBoth hg _ _ _) _ _ hg'
  have hid : ∀ g' : Graph, g'.nodes = g.nodes → nodeIdOf g' (.job r.1) = nodeIdOf g (.job r.1) := by
    intro g' hn; unfold nodeIdOf; rw [hn]
  unfold addOperationJobEdges
  constructor
  · apply RA.fold_establish _ g.nodes _ _ hEO r.1 _ _ g hg rfl (List.mem_range.2 hj)
    intro g' hg' hn
    rw [← hid g' hn]
    exact (RA.fold_addBoth_kind hg' _ (by rw [hn]; exact hk) _ _ hmem (by rw [hn]; exact holt)).1
  · apply RA.fold_establish _ g.nodes _ _ hEO r.1 _ _ g hg rfl (List.mem_range.2 hj)
    intro g' hg' hn
    rw [← hid g' hn]
    exact (RA.fold_addBoth_kind hg' _ (by rw [hn]; exact hk) _ _ hmem (by rw [hn]; exact holt)).2

/-- the graph with operation nodes and machine nodes -/
theorem RA.opMachineNodes (I : Instance) : RA.Good (addMachineNodes I (opNodesGraph I)) ∧
    (addMachineNodes I (opNodesGraph I)).nodes =
      (List.range (numOps I)).map .operation ++ (List.range (numMachines I)).map .machine :=
  ⟨(RA.ext_addMachineNodes I (RA.good_opNodesGraph I)).good, by rw [addMachineNodes_nodes, opNodesGraph_nodes]⟩

theorem RA.anchK_intro {I : Instance} {r : OpRef} {g : Graph} (hg : RA.Good g) {k : NodeKind} (hk : k ∈ g.nodes)
    (hadj : RA.Adj g (nodeIdOf g k) (opId I r)) : AnchK I g k r :=
  ⟨hg.present (List.idxOf_lt_length_of_mem hk), hadj⟩

theorem RA.anchK_ext {I : Instance} {r : OpRef} {k : NodeKind} {g g' : Graph} (h : RA.Ext g g') (ha : AnchK I g k r) :
    AnchK I g' k r := by
  obtain ⟨h1, hadj⟩ := ha
  obtain ⟨t, ht⟩ := h.nodes
  have hlt : List.idxOf k g.nodes < g.nodes.length := by
    simp only [Graph.present, Bool.and_eq_true, decide_eq_true_eq] at h1; exact h1.1
  have hmem : k ∈ g.nodes := List.idxOf_lt_length_iff.1 hlt
  have hid : nodeIdOf g' k = nodeIdOf g k := by
    unfold nodeIdOf; rw [ht, List.idxOf_append, if_pos hmem]
  unfold AnchK
  rw [hid]
  exact ⟨h.good.present (by rw [ht, List.length_append]; unfold nodeIdOf; omega), h.adj _ _ hadj⟩

/-- after the operation-machine phase every operation has an edge from and to each machine it may run on -/
theorem RA.anch_opMachine (I : Instance) {r : OpRef} (hr : r ∈ allOps I) {m : Nat} (hm : onMachine I m r = true) :
    Anch I (addOperationMachineEdges I (addMachineNodes I (opNodesGraph I))) r ∧
    AnchM I (addOperationMachineEdges I (addMachineNodes I (opNodesGraph I))) m r := by
  obtain ⟨hg1, hn1⟩ := RA.opMachineNodes I
  generalize addMachineNodes I (opNodesGraph I) = g1 at hg1 hn1
  have hmem : NodeKind.machine m ∈ g1.nodes := by
    rw [hn1]; exact List.mem_append_right _ (List.mem_map.2 ⟨m, List.mem_range.2 (RA.onMachine_lt hm), rfl⟩)
  have holt : opId I r < g1.nodes.length := by
    have := opId_lt hr
    rw [hn1]; simp; omega
  have e2 := RA.eo_addOperationMachineEdges I hg1
  obtain ⟨a1, a2⟩ := RA.adj_opMachine I hg1 hr hm hmem holt
  have hid : nodeIdOf (addOperationMachineEdges I g1) (.machine m) = nodeIdOf g1 (.machine m) := by
    unfold nodeIdOf; rw [e2.nodes]
  constructor
  · apply RA.anch_intro e2.good _ (by rw [e2.nodes]; exact holt) _ a1
    · rw [e2.nodes, RA.nodeIdOf_get (hg1.present (List.idxOf_lt_length_of_mem hmem))]
      exact hm
    · rw [e2.nodes, hn1]; exact RA.getD_opnodes _ _ _ (opId_lt hr)
  · exact RA.anchK_intro e2.good (by rw [e2.nodes]; exact hmem) (by rw [hid]; exact a2)

/-- in a valid instance every operation may run on some machine -/
theorem RA.exists_onMachine {I : Instance} (hv : Valid I) {r : OpRef} (hr : r ∈ allOps I) : ∃ m, onMachine I m r = true := by
  obtain ⟨op, hop⟩ := Option.isSome_iff_exists.1 ((mem_allOps' I r).1 hr)
  obtain ⟨m, hm⟩ := List.exists_mem_of_ne_nil _ (hv r.1 r.2 op hop).1
  exact ⟨m, by unfold onMachine; rw [hop]; simpa using hm⟩

/-- the last operation of every job gets an edge to the sink -/
theorem RA.anch_sink (I : Instance) {r : OpRef} (hr : r ∈ allOps I) (hlast : r.2 + 1 = (I.getD r.1 []).length) :
    Anch I (buildDisjunctive I) r := by
  obtain ⟨j, p⟩ := r
  simp only at hlast
  obtain ⟨op, hop⟩ := Option.isSome_iff_exists.1 ((mem_allOps' I (j, p)).1 hr)
  have hj : j < I.length := getOp_job_lt' I j p op hop
  have hg0 := RA.good_opNodesGraph I
  have e1 := (RA.eo_addDisjunctiveEdges I hg0).trans fun h => RA.eo_addConjunctiveEdges I h
  have hn2 : (addConjunctiveEdges I (addDisjunctiveEdges I (opNodesGraph I))).nodes =
      (List.range (numOps I)).map .operation := by rw [e1.nodes, opNodesGraph_nodes]
  have hg2 := e1.good
  unfold buildDisjunctive
  generalize addConjunctiveEdges I (addDisjunctiveEdges I (opNodesGraph I)) = g2 at hn2 hg2
  have hlen2 : g2.nodes.length = numOps I := by rw [hn2]; simp
  have e3 := (RA.ext_addNode hg2 .source).trans fun h => RA.ext_addNode h .sink
  have hg3 := e3.good
  have hn3 : ((g2.addNode .source).addNode .sink).nodes = (List.range (numOps I)).map .operation ++ [.source, .sink] := by
    simp [Graph.addNode, hn2]
  have holt := opId_lt hr
  have hhead : (nodesByJob I j).head? = some (opId I (j, 0)) := by
    unfold nodesByJob
    rw [List.head?_map, List.head?_range, if_neg (by omega)]; rfl
  have hlst : (nodesByJob I j).getLast? = some (opId I (j, p)) := by
    unfold nodesByJob
    rw [List.getLast?_map, List.getLast?_range, if_neg (by omega), ← hlast]; rfl
  unfold addSourceSink
  simp only
  generalize hns : (List.range (numOps I)).map NodeKind.operation ++ [.source, .sink] = ns at hn3
  have hnslen : ns.length = numOps I + 2 := by rw [← hns]; simp
  have e4 := RA.eo_foldl (fun g j =>
      match (nodesByJob I j).head?, (nodesByJob I j).getLast? with
      | some a, some b => (g.addEdge g2.nodes.length a .conjunctive).addEdge b (g2.nodes.length + 1) .conjunctive
      | _, _ => g) (fun g j hg => RA.eo_sourceSinkStep I _ _ hg j) (List.range I.length) _ hg3
  have hadj := RA.fold_establish (fun g j =>
      match (nodesByJob I j).head?, (nodesByJob I j).getLast? with
      | some a, some b => (g.addEdge g2.nodes.length a .conjunctive).addEdge b (g2.nodes.length + 1) .conjunctive
      | _, _ => g) ns (opId I (j, p)) (numOps I + 1) (fun g j hg => RA.eo_sourceSinkStep I _ _ hg j) j
      (by
        intro g hg hn
        simp only [hhead, hlst, hlen2]
        apply RA.addEdge_adj_new (ginv_addEdge hg.ginv _ _ _)
        rw [addEdge_present, addEdge_present, hg.present (by rw [hn, hnslen]; omega),
          hg.present (by rw [hn, hnslen]; omega)]
        rfl)
      (List.range I.length) _ hg3 hn3 (List.mem_range.2 hj)
  apply RA.anch_intro e4.good _ (by rw [e4.nodes, hn3, hnslen]; omega) _ hadj
  · rw [e4.nodes, hn3, ← hns]
    have : ((List.range (numOps I)).map NodeKind.operation ++ [NodeKind.source, NodeKind.sink]).getD (numOps I + 1) .global
        = .sink := by
      simp [List.getD_eq_getElem?_getD]
    rw [this]
    exact hlast
  · rw [e4.nodes, hn3, ← hns]; exact RA.getD_opnodes _ _ _ holt

/-- the three agent-task builders extend the graph of the operation-machine phase -/
theorem RA.ext_agentBuilders (I : Instance) (b : Builder) (hb : b ≠ .disjunctive) :
    RA.Ext (addOperationMachineEdges I (addMachineNodes I (opNodesGraph I))) (build b I) := by
  have hgom : RA.Good (addOperationMachineEdges I (addMachineNodes I (opNodesGraph I))) :=
    (RA.eo_addOperationMachineEdges I (RA.opMachineNodes I).1).good
  cases b with
  | disjunctive => exact absurd rfl hb
  | agentTask =>
    simp only [build, buildAgentTask]
    exact ((RA.eo_addMachineMachineEdges I hgom).trans fun h => RA.eo_addSameJobEdges I h).ext
  | agentTaskJobs =>
    simp only [build, buildAgentTaskJobs]
    refine (RA.eo_addMachineMachineEdges I hgom).ext.trans fun h1 => ?_
    refine (RA.ext_addJobNodes I h1).trans fun h2 => ?_
    exact ((RA.eo_addOperationJobEdges I h2).trans fun h3 => RA.eo_addJobJobEdges I h3).ext
  | completeAgentTask =>
    simp only [build, buildCompleteAgentTask]
    refine (RA.ext_addJobNodes I hgom).trans fun h2 => ?_
    refine (RA.eo_addOperationJobEdges I h2).ext.trans fun h3 => ?_
    exact RA.ext_addGlobal I h3

/-- every builder gives every operation an anchor (agent-task graphs: through the operation-machine edges, so machine lists must
be non-empty: `Valid`) -/
theorem anch_build (b : Builder) (I : Instance) (hv : Valid I) : ∀ r ∈ allOps I, Anch I (build b I) r := by
  intro r hr
  by_cases hb : b = .disjunctive
  · subst hb
    simp only [build]
    have hlen : r.2 < (I.getD r.1 []).length := getD_length_of_getOp.1 ((mem_allOps' I r).1 hr)
    by_cases hlast : r.2 + 1 = (I.getD r.1 []).length
    · exact RA.anch_sink I hr hlast
    · have hp : r.2 + 1 < (I.getD r.1 []).length := by omega
      obtain ⟨op, hop⟩ := Option.isSome_iff_exists.1 ((mem_allOps' I r).1 hr)
      have hj : r.1 < I.length := getOp_job_lt' I r.1 r.2 op hop
      have hedge := (C16_conjunctive_typed I r.1 r.2 hp hj).1
      obtain ⟨_, hpres, hmem⟩ := (mem_edges_iff _ _ _ _).1 hedge
      have hnodes : (buildDisjunctive I).nodes = (List.range (numOps I)).map .operation ++ [.source, .sink] :=
        (C16_nodes I).1
      have hall2 : (r.1, r.2 + 1) ∈ allOps I := (mem_allOps' _ _).2 (getD_length_of_getOp.2 hp)
      refine ⟨hpres, ?_, _, hmem, ?_⟩
      · rw [hnodes]; exact RA.getD_opnodes _ _ _ (opId_lt hr)
      · rw [hnodes, RA.getD_opnodes _ _ _ (opId_lt hall2)]
        exact ⟨rfl, hp⟩
  · obtain ⟨m, hm⟩ := RA.exists_onMachine hv hr
    exact RA.anch_ext (RA.eo_addOperationMachineEdges I (RA.opMachineNodes I).1).good (RA.ext_agentBuilders I b hb)
      (RA.anch_opMachine I hr hm).1

/-- in the three agent-task graphs every machine node has an edge to every operation that may run on the machine -/
theorem anchM_build (b : Builder) (hb : b ≠ .disjunctive) (I : Instance) (m : Nat) :
    ∀ r ∈ allOps I, onMachine I m r = true → AnchM I (build b I) m r :=
  fun _ hr hm => RA.anchK_ext (RA.ext_agentBuilders I b hb) (RA.anch_opMachine I hr hm).2

/-- the operation-job phase, run on a graph whose first nodes are the operation nodes, after the job nodes were added -/
theorem RA.anchJ_opJob (I : Instance) {g : Graph} (hg : RA.Good g)
    (hpre : ∃ t, g.nodes = (List.range (numOps I)).map .operation ++ t) {r : OpRef} (hr : r ∈ allOps I) :
    RA.Good (addOperationJobEdges I (addJobNodes I g)) ∧ AnchJ I (addOperationJobEdges I (addJobNodes I g)) r := by
  obtain ⟨t, ht⟩ := hpre
  obtain ⟨op, hop⟩ := Option.isSome_iff_exists.1 ((mem_allOps' I r).1 hr)
  have hj : r.1 < I.length := getOp_job_lt' I r.1 r.2 op hop
  have e1 := RA.ext_addJobNodes I hg
  have hn1 := addJobNodes_nodes I g
  generalize addJobNodes I g = g1 at e1 hn1
  have hmem : NodeKind.job r.1 ∈ g1.nodes := by
    rw [hn1]; exact List.mem_append_right _ (List.mem_map.2 ⟨r.1, List.mem_range.2 hj, rfl⟩)
  have holt : opId I r < g1.nodes.length := by
    have := opId_lt hr
    rw [hn1, ht]; simp; omega
  have e2 := RA.eo_addOperationJobEdges I e1.good
  have hid : nodeIdOf (addOperationJobEdges I g1) (.job r.1) = nodeIdOf g1 (.job r.1) := by
    unfold nodeIdOf; rw [e2.nodes]
  exact ⟨e2.good, RA.anchK_intro e2.good (by rw [e2.nodes]; exact hmem)
    (by rw [hid]; exact (RA.adj_opJob I e1.good hr hmem holt).2)⟩

/-- in the two agent-task graphs with job nodes every job node has an edge to every operation of the job -/
theorem anchJ_build (b : Builder) (hb : b = .agentTaskJobs ∨ b = .completeAgentTask) (I : Instance) :
    ∀ r ∈ allOps I, AnchJ I (build b I) r := by
  intro r hr
  obtain ⟨hg1, hn1⟩ := RA.opMachineNodes I
  have e2 := RA.eo_addOperationMachineEdges I hg1
  have hpre2 : ∃ t, (addOperationMachineEdges I (addMachineNodes I (opNodesGraph I))).nodes =
      (List.range (numOps I)).map .operation ++ t := ⟨_, by rw [e2.nodes, hn1]⟩
  rcases hb with rfl | rfl
  · simp only [build, buildAgentTaskJobs]
    have e3 := RA.eo_addMachineMachineEdges I e2.good
    obtain ⟨t, ht⟩ := hpre2
    obtain ⟨h4, a4⟩ := RA.anchJ_opJob I e3.good ⟨t, by rw [e3.nodes, ht]⟩ hr
    exact RA.anchK_ext (RA.eo_addJobJobEdges I h4).ext a4
  · simp only [build, buildCompleteAgentTask]
    obtain ⟨h4, a4⟩ := RA.anchJ_opJob I e2.good hpre2 hr
    exact RA.anchK_ext (RA.ext_addGlobal I h4) a4

/-- in every built graph the first `num_operations` nodes are the operation nodes, node id = operation id -/
theorem RA.build_opnodes (b : Builder) (I : Instance) : ∀ k, k < numOps I → (build b I).nodes[k]? = some (.operation k) := by
  intro k hk
  have key : ∀ t : List NodeKind, ((List.range (numOps I)).map NodeKind.operation ++ t)[k]? = some (.operation k) := by
    intro t
    rw [List.getElem?_append_left (by simpa using hk)]
    simp [List.getElem?_range hk]
  obtain ⟨h1, h2, h3, h4⟩ := C16_nodes I
  cases b with
  | disjunctive => rw [h1]; exact key _
  | agentTask => rw [h2]; exact key _
  | agentTaskJobs => rw [h3, List.append_assoc]; exact key _
  | completeAgentTask => rw [h4, List.append_assoc, List.append_assoc]; exact key _

/-- the hypothesis on the node list is kept by every update -/
theorem RA.residualUpdate_opnodes (c : Cfg) (s : State) (heap : List FObs) (o : FObs)
    (hnodes : ∀ k, k < numOps c.I → o.graph.nodes[k]? = some (.operation k)) :
    ∀ k, k < numOps c.I → (residualUpdate c s heap o).nodes[k]? = some (.operation k) := by
  rw [RA.residualUpdate_nodes]; exact hnodes

/-! ## the hypothesis on the node list

`anch_residualUpdate` was first stated with the hypothesis "an operation node at position `k` is the node of operation `k`"
(`∀ k i, nodes[k]? = some (.operation i) → k = i`).  That is not enough: nothing stops the node at the position of a *completed*
operation from being, say, the sink, which is the only anchor of another job's last operation. -/

def RA.ceI : Instance := [[⟨[0], 1⟩], [⟨[0], 1⟩]]
/-- the state after dispatching job 1's only operation on machine 0 (it is completed: the current time is 1) -/
def RA.ceS : State := { sched := [[⟨1, 0, 0, 0, 1⟩]], machNext := [1], jobIdx := [0, 1], jobNext := [0, 1] }
def RA.ceG : Graph := { nodes := [.operation 0, .sink], adj := [[(1, .conjunctive)], []], removed := [false, false] }
def RA.ceO : FObs := { kind := .residual, graph := RA.ceG, graph0 := RA.ceG, rmMach := false, rmJob := false }

theorem RA.ce_ginv : GInv RA.ceG := by
  constructor
  · rfl
  · rfl
  · intro u hu hr
    match u, hu, hr with
    | 0, _, hr => simp [RA.ceG] at hr
    | 1, _, hr => simp [RA.ceG] at hr
  · intro w e he
    match w, he with
    | 0, he =>
      simp [RA.ceG] at he; subst he; decide
    | 1, he => simp [RA.ceG] at he
    | (w + 2), he => simp [RA.ceG] at he

/-- the counterexample: with the weaker hypothesis on the node list the conclusion of `anch_residualUpdate` fails -/
theorem RA.weak_hnodes_counterexample :
    ¬ ∀ (c : Cfg) (s : State) (heap : List FObs) (o : FObs), GInv o.graph →
      (∀ k i, o.graph.nodes[k]? = some (NodeKind.operation i) → k = i) →
      (∀ i ic, o.parts.head? = some i → heap[i]? = some ic → o.rmMach = true → ic.col .machines = complMachSpec c.I s) →
      (∀ i ic, o.parts.head? = some i → heap[i]? = some ic → o.rmJob = true → ic.col .jobs = complJobsSpec c.I s) →
      ∀ r, r ∈ unscheduledPure c.I s → Anch c.I o.graph r → Anch c.I (residualUpdate c s heap o) r := by
  intro H
  have h := H { I := RA.ceI } RA.ceS [] RA.ceO RA.ce_ginv
    (by
      intro k i hk
      match k, hk with
      | 0, hk => simp [RA.ceO, RA.ceG] at hk; exact hk
      | 1, hk => simp [RA.ceO, RA.ceG] at hk
      | (k + 2), hk => simp [RA.ceO, RA.ceG] at hk)
    (by intro i ic _ _ hm; cases hm) (by intro i ic _ _ hm; cases hm) (0, 0) (by decide)
    ⟨by decide, by decide, (1, .conjunctive), by decide,
      by show (0 : Nat) + 1 = (List.getD RA.ceI 0 []).length; decide⟩
  have hp : (residualUpdate { I := RA.ceI } RA.ceS [] RA.ceO).present (opId RA.ceI (0, 0)) = false := by decide
  rw [h.1] at hp
  cases hp

/-! non-vacuity: the hypotheses of the three update theorems hold for a built graph, after one dispatch -/
set_option maxRecDepth 100000 in
example :
    let c : Cfg := { I := posInstance }
    let s := run c [.disp 0 0 (some 0)]
    let o : FObs := { kind := .residual, graph := build .completeAgentTask posInstance, rmMach := false, rmJob := false }
    Anch c.I (residualUpdate c s [] o) (1, 0) ∧ AnchM c.I (residualUpdate c s [] o) 1 (1, 0) ∧
      AnchJ c.I (residualUpdate c s [] o) (1, 0) := by
  intro c s o
  have hv : Valid posInstance := valid_of_validB (by decide)
  have hr : (1, 0) ∈ unscheduledPure c.I s := by decide
  have hall : (1, 0) ∈ allOps posInstance := by decide
  have hg : GInv o.graph := C17_built_inv .completeAgentTask posInstance
  have hn := RA.build_opnodes .completeAgentTask posInstance
  have hM : ∀ i ic, o.parts.head? = some i → ([] : List FObs)[i]? = some ic → o.rmMach = true →
      ic.col .machines = complMachSpec c.I s := by intro i ic _ _ h; cases h
  have hJ : ∀ i ic, o.parts.head? = some i → ([] : List FObs)[i]? = some ic → o.rmJob = true →
      ic.col .jobs = complJobsSpec c.I s := by intro i ic _ _ h; cases h
  exact ⟨anch_residualUpdate c s [] o hg hn hM hJ (1, 0) hr (anch_build .completeAgentTask posInstance hv _ hall),
    anchM_residualUpdate c s [] o hg hn hM hJ 1 (1, 0) hr (by decide)
      (anchM_build .completeAgentTask (by decide) posInstance 1 _ hall (by decide)),
    anchJ_residualUpdate c s [] o hg hn hM hJ (1, 0) hr
      (anchJ_build .completeAgentTask (Or.inr rfl) posInstance _ hall)⟩

end JS

